import numpy, warnings
warnings.simplefilter('ignore')
import csep
from csep.core import poisson_evaluations as pe, binomial_evaluations as be, brier_evaluations as br
print('using', csep.__file__)
rng=numpy.random.default_rng(4)
bad=0; tot=0
for trial in range(300):
    n=int(rng.integers(2,30))
    x=rng.uniform(1e-6,3,n); x[rng.uniform(size=n)<0.3]=0.0
    if x.sum()==0: x[0]=1.0
    c=numpy.cumsum(x); F=c/c[-1]
    us=list(rng.uniform(0,1,5))+[0.0,numpy.nextafter(1.0,0.0)]
    for k in range(n):
        if x[k]>0:
            us += [F[k-1] if k>0 else 0.0, numpy.nextafter(F[k],0.0)]
    us=[u for u in us if 0<=u<1]
    for u in us:
        want=int(numpy.searchsorted(F,u,side='right'))
        assert x[want]>0
        obs=numpy.zeros(n); obs[want]=1
        # poisson kernel: one event per simulation
        tot+=1
        try:
            q,o,sims=pe._poisson_likelihood_test(x.copy(),obs,num_simulations=1,random_numbers=numpy.array([[u]]),verbose=False)
            # the simulated ll must equal observed ll if the event went to bin `want`
            if not numpy.isclose(sims[0],o): bad+=1; print('poisson mismatch',trial,u)
            q,o,sims=be._binary_likelihood_test(x.copy(),obs,num_simulations=1,random_numbers=numpy.array([[u]]),verbose=False)
            if not numpy.isclose(sims[0],o): bad+=1; print('binary mismatch',trial,u, sims[0], o)
            q,o,sims=br._brier_score_test(x.copy(),obs,num_simulations=1,random_numbers=numpy.array([[u]]),verbose=False)
            if not numpy.isclose(sims[0],o): bad+=1; print('brier mismatch',trial,u)
        except Exception as e:
            bad+=1; print('raises',type(e).__name__,e,trial,u)
        if bad>10: break
    if bad>10: break
print(tot,bad)
# seeded rejection sampling never hits zero-rate bins
numpy.random.seed(0)
x=numpy.array([0.,2.,0.,3.,0.,5.,0.]); fd=numpy.ma.masked_where(x<=0,x)
