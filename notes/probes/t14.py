import numpy, warnings, os, tempfile, traceback
warnings.simplefilter('ignore')
import csep
from decimal import Decimal
rng=numpy.random.default_rng(7)
d=tempfile.mkdtemp()
problems={}
for trial in range(400):
    dh=float(rng.choice([0.1,0.05,0.25,0.5,1.0,0.2]))
    dec=int(rng.integers(0,3))
    ax=round(float(rng.uniform(-179,150)),dec); ay=round(float(rng.uniform(-89,70)),dec)
    nx=int(rng.integers(1,6)); ny=int(rng.integers(1,6)); nm=int(rng.integers(1,5))
    m0=float(rng.choice([4.95,5.0,3.95,2.5])); dm=0.1
    cells=[(i,j) for i in range(nx) for j in range(ny) if rng.uniform()<0.85] or [(0,0)]
    order=rng.permutation(len(cells)) if rng.uniform()<0.5 else numpy.arange(len(cells))
    cells=[cells[k] for k in order]
    swap=bool(rng.uniform()<0.3)
    useflags=bool(rng.uniform()<0.4)
    rows=[]; truth={}
    for (i,j) in cells:
        lo0=float(Decimal(str(ax))+i*Decimal(str(dh))); la0=float(Decimal(str(ay))+j*Decimal(str(dh)))
        lo1=float(Decimal(str(ax))+(i+1)*Decimal(str(dh))); la1=float(Decimal(str(ay))+(j+1)*Decimal(str(dh)))
        flag=0 if (useflags and rng.uniform()<0.3) else 1
        for k in range(nm):
            mlo=float(Decimal(str(m0))+k*Decimal(str(dm))); mhi=float(Decimal(str(m0))+(k+1)*Decimal(str(dm)))
            rate=float(rng.uniform(1e-6,2))
            r=[la0,la1,lo0,lo1] if swap else [lo0,lo1,la0,la1]
            rows.append(r+[0,30,mlo,mhi,rate,flag]); truth[(i,j,k)]=(lo0,la0,mlo,rate,flag)
    fn=os.path.join(d,'f%d.dat'%trial)
    with open(fn,'w') as f:
        for r in rows: f.write(' '.join(repr(x) for x in r)+'\n')
    try:
        fo=csep.load_gridded_forecast(fn, swap_latlon=swap)
        assert fo.data.shape==(len(cells),nm), ('shape',fo.data.shape)
        assert numpy.allclose(fo.magnitudes,[float(Decimal(str(m0))+k*Decimal(str(dm))) for k in range(nm)]), 'mags'
        if not useflags: assert abs(fo.sum()-sum(r[8] for r in rows))<1e-9, 'sum'
        assert abs(fo.spatial_counts().sum()-fo.sum())<1e-9 and abs(fo.magnitude_counts().sum()-fo.sum())<1e-9
        for (i,j,k),(lo0,la0,mlo,rate,flag) in truth.items():
            for (a,b,c) in [(0,0,0),(dh/2,dh/2,dm/2),(dh*0.999,dh*0.999,dm*0.999)]:
                try:
                    got=fo.get_rates(numpy.array([lo0+a]),numpy.array([la0+b]),numpy.array([mlo+c]))[0]
                    assert flag==1, 'flag0 cell gave rate'
                    assert got==rate, ('rate mismatch',(i,j,k),(a,b,c),got,rate)
                except ValueError:
                    assert flag==0, ('valid cell rejected',(i,j,k),(a,b,c),dh,ax,ay)
        f2=fo.sum(); fo.scale(3); fo.scale(3); assert abs(fo.sum()-3*f2)<1e-9*max(1,f2), 'scale cumulative'
    except Exception as e:
        key=(type(e).__name__, str(e)[:100]); problems.setdefault(key,[]).append((trial,dh,ax,ay,nx,ny,nm,swap,useflags))
for k,v in problems.items(): print(k,len(v),v[:3])
print('done',len(problems))
