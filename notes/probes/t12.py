import numpy, warnings, itertools
warnings.simplefilter('ignore')
from csep.utils.calc import bin1d_vec, cleaner_range
from csep.core.regions import magnitude_bins
from csep.utils.constants import CSEP_MW_BINS
from decimal import Decimal
def sec(t): print('\n=== '+t)
sec('generated edges vs decimal grid')
bad=0; tot=0; ex=[]
for (s,e,h) in [(4.95,8.95,0.1),(2.5,10.0,0.1),(5.95,8.95,0.1),(0.0,10.0,0.01),(-125.4,-113.1,0.1),(31.5,43.0,0.1),(-180,180,0.1),(-90,90,0.1),(3.95,8.95,0.2),(4.0,9.0,0.25),(-1.05,3.05,0.1),(0.05,9.95,0.1),(-180,180,0.05),(1.0,5.0,0.5),(2.45,7.55,0.3)]:
    edges=cleaner_range(s,e,h)
    for k,v in enumerate(edges):
        tot+=1
        want=float(Decimal(str(s))+k*Decimal(str(h)))
        if v!=want:
            bad+=1
            if len(ex)<8: ex.append((s,e,h,k,repr(v),repr(want)))
    n_want=int(round((e-s)/h))+1
    if len(edges)!=n_want: print('LEN MISMATCH',s,e,h,len(edges),n_want)
print(tot,bad,ex)
sec('edge ownership: decimal-literal edge value lands in own bin (closed & open mode)')
bad=0; tot=0; ex=[]
for (s,e,h) in [(4.95,8.95,0.1),(2.5,10.0,0.1),(5.95,8.95,0.1),(-125.4,-113.1,0.1),(31.5,43.0,0.1),(-180,179.9,0.1),(-90,89.9,0.1),(3.95,8.95,0.2),(-1.05,3.05,0.1),(0.05,9.95,0.1),(2.45,7.55,0.3),(0.0,1.0,0.01),(166.0,179.0,0.1)]:
    edges=cleaner_range(s,e,h)
    N=len(edges)
    lits=numpy.array([float(Decimal(str(s))+k*Decimal(str(h))) for k in range(N)])
    for rc in (False,True):
        idx=bin1d_vec(lits,edges,right_continuous=rc)
        w=numpy.arange(N)
        tot+=N
        if not numpy.array_equal(idx,w):
            for k in numpy.where(idx!=w)[0][:3]:
                bad+=1; ex.append((s,h,rc,int(k),int(idx[k]),repr(lits[k]),repr(edges[k])))
        # just above edge must be >= k ; at/above never below
        up=numpy.nextafter(lits,numpy.inf)
        idx=bin1d_vec(up,edges,right_continuous=rc)
        if numpy.any(idx<w): bad+=1; ex.append(('above below',s,h,rc))
        # far below edge (half a bin) must be k-1
        mid=lits-h/2
        idx=bin1d_vec(mid,edges,right_continuous=rc)
        wm=w-1
        if not numpy.array_equal(idx,wm): bad+=1; ex.append(('mid',s,h,rc, [(int(k),int(idx[k])) for k in numpy.where(idx!=wm)[0][:3]]))
        # how far below an edge is still attributed upward? measure max relative distance
print(tot,bad); [print('  ',e) for e in ex[:12]]
sec('tolerance band width: largest below-edge offset still pushed up (relative to |edge|)')
for (s,e,h) in [(4.95,8.95,0.1),(-125.4,-113.1,0.1),(-180,179.9,0.1)]:
    edges=cleaner_range(s,e,h); worst=0
    for k in range(1,len(edges)):
        ed=edges[k]
        for ulps in [1,2,4,8,16,64,256,1024,4096,16384,65536]:
            v=ed
            for _ in range(1): v=ed-ulps*numpy.spacing(ed)
            i=int(bin1d_vec(numpy.array([v]),edges)[0])
            if i==k: worst=max(worst, (ed-v)/max(abs(ed),1e-300))
    print(s,h,'max relative distance below an edge still pushed up:',worst)
sec('float32 / int / scalar inputs')
edges=magnitude_bins(4.95,8.95,0.1)
print(bin1d_vec(numpy.float32(5.95),edges,right_continuous=True), bin1d_vec(numpy.array([5.95,6.05],dtype=numpy.float32),edges,right_continuous=True), bin1d_vec(6,edges,right_continuous=True), bin1d_vec([5,6,9,10],edges,right_continuous=True), bin1d_vec(4.9,edges,right_continuous=True))
