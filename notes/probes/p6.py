# throwaway prototype: PARITY abstract interpretation of _t_test_ndarray / _w_test_ndarray (straight-line, flow in source order)
import ast, warnings
warnings.simplefilter('ignore')
src=open('/repo/csep/core/poisson_evaluations.py').read()
tree=ast.parse(src)
fns={n.name:n for n in tree.body if isinstance(n,ast.FunctionDef)}
EVEN,ODD,NONE='EVEN','ODD','NONE'
class Pair:  # value that under the exchange becomes its partner
    def __init__(s,key,side): s.key=key; s.side=side
    def __repr__(s): return f'PAIR({s.key},{s.side})'
def is_pair(v): return isinstance(v,Pair)
def partner(a,b): return is_pair(a) and is_pair(b) and a.key==b.key and a.side!=b.side
ELEMENTWISE={'numpy.log','numpy.sqrt','numpy.exp','abs','numpy.abs','scipy.stats.rankdata','len','numpy.sum'}
def ev(e,env):
    if isinstance(e,ast.Constant): return EVEN
    if isinstance(e,ast.Name): return env.get(e.id,NONE)
    if isinstance(e,ast.UnaryOp):
        v=ev(e.operand,env); return v if v in (EVEN,ODD) else NONE
    if isinstance(e,ast.BinOp):
        a,b=ev(e.left,env),ev(e.right,env)
        if isinstance(e.op,(ast.Add,ast.Sub)):
            if partner(a,b): return ODD if isinstance(e.op,ast.Sub) else EVEN
            if a==b and a in (EVEN,ODD): return a
            if {a,b}=={EVEN,ODD}: return ('MIX',ast.unparse(e.left) if a==ODD else ast.unparse(e.right), ast.unparse(e.right) if a==ODD else ast.unparse(e.left), '+' if isinstance(e.op,ast.Add) else ('-' if a==ODD else 'rev'))
            return NONE
        if isinstance(e.op,(ast.Mult,ast.Div)):
            if a in (EVEN,ODD) and b in (EVEN,ODD): return EVEN if a==b else ODD
            if partner(a,b) and isinstance(e.op,ast.Mult): return EVEN
            if is_pair(a) and b==EVEN: return Pair((a.key,'*',ast.dump(e.right)),a.side)
            if is_pair(b) and a==EVEN and isinstance(e.op,ast.Mult): return Pair((b.key,'*',ast.dump(e.left)),b.side)
            return NONE
        return NONE
    if isinstance(e,ast.Compare) and len(e.ops)==1:
        a,b=ev(e.left,env),ev(e.comparators[0],env)
        z=isinstance(e.comparators[0],ast.Constant) and e.comparators[0].value==0
        if a==ODD and z and isinstance(e.ops[0],(ast.Gt,ast.Lt)):
            return Pair(('sign',ast.dump(e.left)),'gt' if isinstance(e.ops[0],ast.Gt) else 'lt')
        if a==ODD and z and isinstance(e.ops[0],(ast.Eq,ast.NotEq)): return EVEN
        if a==EVEN and b==EVEN: return EVEN
        return NONE
    if isinstance(e,ast.Call):
        f=ast.unparse(e.func)
        args=[ev(a,env) for a in e.args]
        if f in ('numpy.power',):
            a=args[0]; n=e.args[1]
            if isinstance(n,ast.Constant) and n.value%2==0 and a in (EVEN,ODD): return EVEN
            return a if a==EVEN else NONE
        if f in ('abs','numpy.abs','numpy.absolute'): return EVEN if args[0] in (EVEN,ODD) else NONE
        if f in ('numpy.sum','numpy.log','numpy.sqrt','numpy.exp','len','scipy.stats.rankdata','scipy.stats.find_repeats'):
            a=args[0]
            if f in ('numpy.sum','len') : return a if a in (EVEN,ODD) else (Pair((a.key,f),a.side) if is_pair(a) else NONE)
            if a==EVEN: return EVEN
            if is_pair(a): return Pair((a.key,f),a.side)
            return NONE   # nonlinear fn of ODD is neither
        if f=='min' or f=='max':
            if partner(args[0],args[1]): return EVEN
            return EVEN if all(x==EVEN for x in args) else NONE
        if f=='numpy.not_equal': 
            return EVEN if args[0] in (EVEN,ODD) and args[1]==EVEN else NONE
        if f=='numpy.compress':
            return args[1] if args[0]==EVEN and args[1] in (EVEN,ODD) else NONE
        if f in ('scipy.stats.t.ppf','scipy.stats.distributions.norm.sf'):
            return EVEN if all(x==EVEN for x in args) else NONE
        if f=='warnings.warn': return EVEN
        return NONE
    if isinstance(e,ast.Attribute):
        v=ev(e.value,env)
        return v if e.attr in ('size',) and v==EVEN else NONE
    if isinstance(e,ast.Tuple): return tuple(ev(x,env) for x in e.elts)
    if isinstance(e,ast.Dict): return {k.value:ev(v,env) for k,v in zip(e.keys,e.values)}
    if isinstance(e,ast.Subscript): return ev(e.value,env)
    return NONE
def run(fn,env):
    def block(stmts):
        for st in stmts:
            if isinstance(st,ast.Assign):
                v=ev(st.value,env)
                for t in st.targets:
                    if isinstance(t,ast.Name): env[t.id]=v
                    elif isinstance(t,ast.Tuple) and isinstance(v,tuple):
                        for x,y in zip(t.elts,v): env[x.id]=y
                    elif isinstance(t,ast.Tuple):
                        for x in t.elts: env[x.id]=v
            elif isinstance(st,ast.AugAssign):
                a=env.get(st.target.id,NONE); b=ev(st.value,env)
                env[st.target.id]=a if a==b and a in (EVEN,ODD) else NONE
            elif isinstance(st,ast.If):
                c=ev(st.test,env)
                if c!=EVEN: print('   non-EVEN branch condition:',ast.unparse(st.test),c)
                block(st.body); block(st.orelse)
            elif isinstance(st,ast.Return):
                return ev(st.value,env)
        return None
    return block(fn.body)
env={'target_event_rates1':Pair('rates',1),'target_event_rates2':Pair('rates',2),'n_obs':EVEN,'n_f1':Pair('nf',1),'n_f2':Pair('nf',2),'alpha':EVEN}
r=run(fns['_t_test_ndarray'],env)
print('T kernel:'); [print('  ',k,v) for k,v in r.items()]
for k in ['information_gain','forecast_variance','t_statistic','t_critical']: print('   ',k,env[k])
env={'x':ODD,'m':ODD}
r=run(fns['_w_test_ndarray'],env)
print('W kernel:', r)
for k in ['d','r','r_plus','r_minus','t','mn','se','z','prob']: print('   ',k,env.get(k))
