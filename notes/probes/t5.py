import numpy, warnings
warnings.simplefilter('ignore')
from csep.core import binomial_evaluations as be, brier_evaluations as br, poisson_evaluations as pe
x=numpy.array([2.0,0.0,3.0,0.0,5.0,0.0])
fd=numpy.ma.masked_where(x<=0,x)
c=numpy.cumsum(fd.ravel()); w=c/numpy.sum(fd)
print(type(w), w, 'data', w.data, 'cumsum data', c.data)
for u in [0.0,0.1,0.19999,0.2,0.3,0.49999,0.5,0.7,0.99999]:
    print(u, numpy.searchsorted(w,u,side='right'), 'expected', numpy.searchsorted(numpy.cumsum(x)/x.sum(),u,side='right'))
# run simulate for many draws, count placements into zero-rate bins
rng=numpy.random.default_rng(1)
hits=numpy.zeros(6)
for _ in range(2000):
    u=rng.uniform(0,1,1)
    sim=numpy.zeros(6)
    s=be._simulate_catalog(1, w, sim, random_numbers=u)
    hits+=s
print('binary hits', hits)
numpy.random.seed(0)
hits=numpy.zeros(6)
for _ in range(500):
    sim=numpy.zeros(6)
    hits+=be._simulate_catalog(2, w, sim)
print('binary rejection hits', hits)
