import numpy, warnings, itertools, os, tempfile, scipy.stats, scipy.special
warnings.simplefilter('ignore')
import csep
from csep.core import regions, catalogs, forecasts, poisson_evaluations as pe, binomial_evaluations as be, brier_evaluations as br
def sec(t): print('\n=== '+t)
rng=numpy.random.default_rng(0)
sec('C11 gridded file')
d=tempfile.mkdtemp()
lons=[-120.0+0.1*i for i in range(4)]; lats=[33.0+0.1*j for j in range(3)]
mws=[4.95,5.05,5.15]
rows=[]
cells=[(lo,la) for lo in lons for la in lats if not (abs(lo+119.8)<1e-9 and abs(la-33.1)<1e-9)]
for (lo,la) in cells:
    flag = 0 if (abs(lo+119.7)<1e-9 and abs(la-33.2)<1e-9) else 1
    for m in mws:
        rows.append([round(lo,1),round(lo+0.1,1),round(la,1),round(la+0.1,1),0,30,m,round(m+0.1,2),rng.uniform(0.001,1),flag])
fn=os.path.join(d,'f.dat'); numpy.savetxt(fn,numpy.array(rows),fmt='%.6f')
f=csep.load_gridded_forecast(fn)
print(f.magnitudes, f.data.shape, f.sum(), sum(r[8] for r in rows))
bad=0
for r in rows:
    for (dl,da,dm) in [(0,0,0),(0.05,0.05,0.05),(0.0999,0.0999,0.0999)]:
        try:
            got=f.get_rates([r[0]+dl],[r[2]+da],[r[6]+dm])[0]
            if r[9]==0: bad+=1; print('flag0 cell returned rate')
            elif abs(got-round(r[8],6))>1e-9: bad+=1; print('mismatch',r,dl,got)
        except ValueError as e:
            if r[9]==1: bad+=1; print('valid cell rejected', r[:4], dl, da, dm)
print('bad',bad)
f.scale(2); a=f.sum(); f.scale(2); b=f.sum(); f.scale(1); c=f.sum(); print(a,b,c, abs(f.spatial_counts().sum()-f.sum())<1e-9, abs(f.magnitude_counts().sum()-f.sum())<1e-9)

sec('C05 L/S/M statistic identities')
origins = numpy.array([(x/10, y/10) for x in range(3) for y in range(3)])
mags = numpy.array([4.0,4.1,4.2])
reg = regions.CartesianGrid2D.from_origins(origins, dh=0.1, magnitudes=mags, name='r')
data=rng.uniform(1e-3,2,(9,3)); data[0,0]=0
fo=forecasts.GriddedForecast(data=data, region=reg, magnitudes=mags, name='a')
evs=[(0.05+0.1*int(rng.integers(0,3)), 0.05+0.1*int(rng.integers(0,3)), 4.05+0.1*int(rng.integers(0,3))) for _ in range(12)]
evs=[e for e in evs if not (e[0]<0.1 and e[1]<0.1 and e[2]<4.1)]
cat=catalogs.CSEPCatalog(data=[(str(i),i,la,lo,1.0,m) for i,(lo,la,m) in enumerate(evs)], region=reg)
w=cat.spatial_magnitude_counts()
with numpy.errstate(all='ignore'):
    ll=numpy.sum(numpy.where(w>0, numpy.log(scipy.stats.poisson.pmf(w,data)), -data))
r=pe.likelihood_test(fo,cat,num_simulations=5,seed=1); print(r.observed_statistic, ll)
r=pe.conditional_likelihood_test(fo,cat,num_simulations=5,seed=1); print(r.observed_statistic, ll)
ws=cat.spatial_counts(); ls=fo.spatial_counts()*len(evs)/fo.sum()
r=pe.spatial_test(fo,cat,num_simulations=5,seed=1); print(r.observed_statistic, numpy.sum(numpy.log(scipy.stats.poisson.pmf(ws,ls))))
wm=cat.magnitude_counts(); lm=fo.magnitude_counts()*len(evs)/fo.sum()
r=pe.magnitude_test(fo,cat,num_simulations=5,seed=1); print(r.observed_statistic, numpy.sum(numpy.log(scipy.stats.poisson.pmf(wm,lm))))
sec('C16')
print(be.binary_joint_log_likelihood_ndarray(data,w), numpy.sum(numpy.where(w>0, numpy.log(1-numpy.exp(-data)), -data)))
print(br._brier_score_ndarray(data,w), -2/data.size*numpy.sum((1-numpy.exp(-data)-(w>0))**2))
sec('C07')
print(pe._number_test_ndarray(3.3,4), 1-scipy.stats.poisson.cdf(3,3.3), scipy.stats.poisson.cdf(4,3.3))
print(be._nbd_number_test_ndarray(3.3,4,10.0))
m,v=3.3,10.0; p=m/v; rr=m*m/(v-m); print(1-scipy.stats.nbinom.cdf(3,rr,p), scipy.stats.nbinom.cdf(4,rr,p))
