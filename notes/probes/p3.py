# throwaway probe: definite-assignment (possibly unbound locals) with simple structured analysis
import ast, os, warnings
warnings.simplefilter('ignore')
root='/repo/csep'
files=[os.path.join(dp,f) for dp,_,fs in os.walk(root) for f in fs if f.endswith('.py') and 'plots' not in f and 'comcat' not in f]
def targets(t):
    out=set()
    for x in ast.walk(t):
        if isinstance(x,ast.Name) and isinstance(x.ctx,(ast.Store,)): out.add(x.id)
    return out
class DA:
    def __init__(s, fn):
        s.fn=fn; s.reports=[]
        args=fn.args
        s.params={a.arg for a in args.args+args.kwonlyargs+args.posonlyargs}
        if args.vararg: s.params.add(args.vararg.arg)
        if args.kwarg: s.params.add(args.kwarg.arg)
        s.locals=set()
        for n in ast.walk(fn):
            if isinstance(n,ast.Name) and isinstance(n.ctx,ast.Store): s.locals.add(n.id)
            if isinstance(n,(ast.FunctionDef,ast.ClassDef)) and n is not fn: s.locals.add(n.name)
            if isinstance(n,(ast.Import,ast.ImportFrom)):
                for a in n.names: s.locals.add((a.asname or a.name).split('.')[0])
        s.locals-=s.params
    def uses(s, node, defined):
        for x in ast.walk(node):
            if isinstance(x,ast.Name) and isinstance(x.ctx,ast.Load) and x.id in s.locals and x.id not in defined:
                s.reports.append((x.id,x.lineno))
    def block(s, stmts, d):
        d=set(d)
        for st in stmts:
            d=s.stmt(st,d)
            if d is None: return None
        return d
    def stmt(s, st, d):
        if isinstance(st,(ast.FunctionDef,ast.ClassDef)): return d|{st.name}
        if isinstance(st,(ast.Import,ast.ImportFrom)): return d|{(a.asname or a.name).split('.')[0] for a in st.names}
        if isinstance(st,(ast.Return,ast.Raise)):
            s.uses(st,d); return None
        if isinstance(st,(ast.Break,ast.Continue)): return None
        if isinstance(st,ast.If):
            s.uses(st.test,d)
            a=s.block(st.body,d); b=s.block(st.orelse,d)
            if a is None: return b
            if b is None: return a
            return a&b
        if isinstance(st,(ast.For,)):
            s.uses(st.iter,d)
            inner=s.block(st.body, d|targets(st.target))
            return s.block(st.orelse,d) if st.orelse else d
        if isinstance(st,ast.While):
            s.uses(st.test,d); s.block(st.body,d); return d
        if isinstance(st,ast.With):
            dd=set(d)
            for it in st.items:
                s.uses(it.context_expr,dd)
                if it.optional_vars is not None: dd|=targets(it.optional_vars)
            r=s.block(st.body,dd); return r
        if isinstance(st,ast.Try):
            a=s.block(st.body,d)
            outs=[]
            if a is not None:
                e=s.block(st.orelse,a) if st.orelse else a
                if e is not None: outs.append(e)
            for h in st.handlers:
                hd=set(d)|({h.name} if h.name else set())
                r=s.block(h.body,hd)
                if r is not None: outs.append(r)
            if not outs: return None
            r=set.intersection(*outs)
            if st.finalbody: r=s.block(st.finalbody,r)
            return r
        # simple statement
        if isinstance(st,ast.Assign):
            s.uses(st.value,d)
            for t in st.targets:
                for x in ast.walk(t):
                    if not (isinstance(x,ast.Name) and isinstance(x.ctx,ast.Store)):
                        pass
                # uses inside targets (subscripts)
                for x in ast.walk(t):
                    if isinstance(x,ast.Name) and isinstance(x.ctx,ast.Load) and x.id in s.locals and x.id not in d: s.reports.append((x.id,x.lineno))
            return d|set().union(*[targets(t) for t in st.targets])
        if isinstance(st,ast.AugAssign):
            s.uses(st.value,d)
            if isinstance(st.target,ast.Name) and st.target.id in s.locals and st.target.id not in d: s.reports.append((st.target.id,st.lineno))
            return d|targets(st.target)
        if isinstance(st,ast.AnnAssign):
            if st.value: s.uses(st.value,d); return d|targets(st.target)
            return d
        s.uses(st,d)
        # comprehension targets are separate scope; ignore
        return d|{x.id for x in ast.walk(st) if isinstance(x,ast.NamedExpr) for x in [x.target]}
for f in files:
    tree=ast.parse(open(f).read())
    for fn in [n for n in ast.walk(tree) if isinstance(n,ast.FunctionDef)]:
        # skip comprehension variable noise: collect comprehension targets
        comp=set()
        for n in ast.walk(fn):
            if isinstance(n,(ast.ListComp,ast.SetComp,ast.DictComp,ast.GeneratorExp)):
                for g in n.generators: comp|=targets(g.target)
        da=DA(fn); da.locals-=comp
        # exclude names stored only in nested functions
        da.block(fn.body,set())
        for r in sorted(set(da.reports)): print(os.path.relpath(f,root), fn.name, r)
