# throwaway probe: which external callables / methods do the anchored modules use (size of the transfer tables)
import ast, os, collections, warnings
warnings.simplefilter('ignore')
root='/repo/csep'
mods=['core/regions.py','core/catalogs.py','core/forecasts.py','core/poisson_evaluations.py','core/binomial_evaluations.py','core/brier_evaluations.py','core/catalog_evaluations.py','utils/calc.py','utils/stats.py','utils/time_utils.py','utils/readers.py','models.py','__init__.py','core/repositories.py']
ext=collections.Counter(); meth=collections.Counter()
for m in mods:
    tree=ast.parse(open(os.path.join(root,m)).read())
    for n in ast.walk(tree):
        if isinstance(n,ast.Call):
            f=n.func
            s=ast.unparse(f)
            root_name=s.split('.')[0].split('(')[0]
            if root_name in ('numpy','np','scipy','pandas','pd','datetime','calendar','math','operator','csv','json','os','mercantile','itertools','re','poisson'):
                ext[s.replace('np.','numpy.',1) if s.startswith('np.') else s]+=1
            elif isinstance(f,ast.Attribute):
                meth['.'+f.attr]+=1
print(len(ext),'external callables'); print(sorted(ext.items(), key=lambda kv:-kv[1]))
print(len(meth),'method names'); print(sorted(meth.items(), key=lambda kv:-kv[1])[:80])
