import numpy, warnings, datetime, traceback, os, tempfile, json
warnings.simplefilter('ignore')
import csep
from csep.core import regions, catalogs, forecasts, poisson_evaluations as pe, binomial_evaluations as be, brier_evaluations as br, catalog_evaluations as ce
from csep.utils import time_utils as tu, calc, stats, readers
from csep.models import Polygon

def sec(t): print('\n=== '+t)

# region 3x3 dh=0.1
origins = numpy.array([(x/10, y/10) for x in range(3) for y in range(3)])
mags = numpy.array([4.0,4.1,4.2])
reg = regions.CartesianGrid2D.from_origins(origins, dh=0.1, magnitudes=mags, name='r')
def mkcat(evs, region=reg, **kw):
    return catalogs.CSEPCatalog(data=[(str(i), 0+i, la, lo, 1.0, m) for i,(lo,la,m) in enumerate(evs)], region=region, **kw)

sec('C03 magnitude_counts with below-min magnitude')
c = mkcat([(0.05,0.05,3.5),(0.05,0.05,4.05)])
print(c.magnitude_counts())
try: print(c.spatial_magnitude_counts())
except Exception as e: print('smc raises', type(e).__name__, e)

sec('C08 binary_paired_t_test')
f1 = forecasts.GriddedForecast(data=numpy.full((9,3),0.1), region=reg, magnitudes=mags, name='a')
f2 = forecasts.GriddedForecast(data=numpy.full((9,3),0.2), region=reg, magnitudes=mags, name='b')
c = mkcat([(0.05,0.05,4.05),(0.15,0.05,4.15),(0.25,0.25,4.25)])
try: print(be.binary_paired_t_test(f1,f2,c).observed_statistic)
except Exception as e: print('raises', type(e).__name__, e)
try: print(pe.paired_t_test(f1,f2,c).observed_statistic, pe.w_test(f1,f2,c).quantile)
except Exception as e: print('raises', type(e).__name__, e)

sec('C15 epoch roundtrip failures')
import random
random.seed(1)
bad=0; N=200000
ex=[]
for _ in range(N):
    ms = random.randrange(-2208988800000, 7258118400000)
    r = tu.datetime_to_utc_epoch(tu.epoch_time_to_utc_datetime(ms))
    if r!=ms:
        bad+=1
        if len(ex)<5: ex.append((ms,r))
print('bad frac', bad/N, ex)

sec('C18 pseudolikelihood result roundtrip')
from csep.models import CatalogPseudolikelihoodTestResult
r = CatalogPseudolikelihoodTestResult(test_distribution=[1.0,2.0], name='PL', observed_statistic=1.5, quantile=(0.5,0.5), status='normal', sim_name='s', obs_name='o', min_mw=4.0)
d = tempfile.mkdtemp()
fn = os.path.join(d,'r.json')
csep.write_json(r, fn)
try: print(type(csep.load_evaluation_result(fn)))
except Exception as e: print('raises', type(e).__name__, e)

sec('C14 empty catalog ascii roundtrip')
c = mkcat([], catalog_id=3)
fn = os.path.join(d,'e.csv')
c.write_ascii(fn)
try: print(csep.load_catalog(fn).event_count)
except Exception as e: print('raises', type(e).__name__, e)
try: print(catalogs.CSEPCatalog.from_dataframe(c.to_dataframe()).event_count)
except Exception as e: print('df raises', type(e).__name__, e)

sec('C19 zmap')
fn = os.path.join(d,'z.dat')
open(fn,'w').write("-116.5 34.2 2010 1 2 4.5 7.0 3 4 5\n-117.5 35.2 2011 2 3 5.5 8.0 4 5 6\n")
try: print(readers.zmap_ascii(fn))
except Exception as e: print('raises', type(e).__name__, e)

sec('C13 catalog forecast')
fname='/repo/tests/artifacts/test_ascii_catalogs/all_present.csv'
fo = csep.load_catalog_forecast(fname, region=reg)
a=[c.event_count for c in fo]; b=[c.event_count for c in fo]
print('event counts after 2 passes', len(fo.get_event_counts()), 'n_cat', fo.n_cat)
try:
    fo2 = forecasts.CatalogForecast(catalogs=[mkcat([(0.05,0.05,4.05)]), mkcat([])], region=reg)
    print([c.event_count for c in fo2])
except Exception as e: print('in-memory raises', type(e).__name__, e)
fo2 = forecasts.CatalogForecast(catalogs=[mkcat([(0.05,0.05,4.05)]), mkcat([])], region=reg, n_cat=2)
r1 = fo2.get_expected_rates(); r2 = fo2.get_expected_rates()
print('expected rates 1st', type(r1).__name__, '2nd', type(r2).__name__)
print('counts', fo2.get_event_counts())

sec('C06 seed 0')
numpy.random.seed(123)
fo3 = forecasts.CatalogForecast(catalogs=[mkcat([(0.05,0.05,4.05),(0.05,0.05,4.15)]), mkcat([(0.05,0.05,4.25)])], region=reg, n_cat=2)
obs = mkcat([(0.05,0.05,4.05),(0.15,0.05,4.15)])
a = ce.resampled_magnitude_test(fo3, obs, seed=0).test_distribution
b = ce.resampled_magnitude_test(fo3, obs, seed=0).test_distribution
print('seed0 deterministic?', a==b)
a = ce.resampled_magnitude_test(fo3, obs, seed=5).test_distribution
b = ce.resampled_magnitude_test(fo3, obs, seed=5).test_distribution
print('seed5 deterministic?', a==b)

sec('C03/C17 quadtree pairing')
qr = regions.QuadtreeGrid2D.from_single_resolution(2, magnitudes=mags)
qc = mkcat([(0.05,89.0,4.05),(10.0,10.0,4.25)], region=qr)
try: print(qc.spatial_magnitude_counts().sum(axis=0), 'total', qc.spatial_magnitude_counts().sum())
except Exception as e: print('raises', type(e).__name__, e)
