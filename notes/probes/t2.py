import numpy, warnings, itertools, os, tempfile, csv
warnings.simplefilter('ignore')
import csep
from csep.core import regions, catalogs, forecasts
from csep.utils import stats, calc

def sec(t): print('\n=== '+t)
sec('C09 exhaustive small multisets')
bad=0; tot=0; ex=[]
alpha=[0,1,2,3,4,5]
for n in range(1,6):
    for x in itertools.combinations_with_replacement(alpha,n):
        for v in [-1,0,0.5,1,1.5,2,2.5,3,3.5,4,4.5,5,6]:
            tot+=1
            ge = stats.greater_equal_ecdf(list(x), v); le = stats.less_equal_ecdf(list(x), v)
            tge = sum(1 for a in x if a>=v)/n; tle=sum(1 for a in x if a<=v)/n
            if abs(ge-tge)>1e-12 or abs(le-tle)>1e-12:
                bad+=1
                if len(ex)<5: ex.append((x,v,ge,tge,le,tle))
print(tot,bad,ex)

sec('C12 exhaustive decoder')
d=tempfile.mkdtemp()
def encode(cats, placeholder, header):
    rows=[]
    if header: rows.append(['lon','lat','mag','time_string','depth','catalog_id','event_id'])
    n=len(cats)
    for cid,evs in enumerate(cats):
        if not evs:
            if placeholder[cid] or cid==n-1:
                rows.append(['','','','','',cid,''])
        for k in range(evs):
            rows.append([1.0+cid, 2.0+k, 4.0, '2010-01-01T00:00:0%d'%k + ('.500000' if k else ''), 5.0, cid, 'e%d_%d'%(cid,k)])
    return rows
bad=0; tot=0; ex=[]
for n in range(1,5):
    for cats in itertools.product(range(3), repeat=n):
        empt=[i for i,c in enumerate(cats) if c==0]
        for ph in itertools.product([0,1], repeat=len(empt)):
            placeholder={i:p for i,p in zip(empt,ph)}
            for header in (0,1):
                fn=os.path.join(d,'f.csv')
                with open(fn,'w',newline='') as f:
                    csv.writer(f).writerows(encode(cats,placeholder,header))
                tot+=1
                try:
                    out=list(catalogs.CSEPCatalog.load_ascii_catalogs(fn))
                    got=[(c.catalog_id,c.event_count, [e.decode() for e in c.get_event_ids()]) for c in out]
                    want=[(i,c,['e%d_%d'%(i,k) for k in range(c)]) for i,c in enumerate(cats)]
                    if got!=want:
                        bad+=1
                        if len(ex)<5: ex.append((cats,placeholder,header,got))
                except Exception as e:
                    bad+=1
                    if len(ex)<5: ex.append((cats,placeholder,header,repr(e)))
print(tot,bad,ex)

sec('C04 filter semantics')
rng=numpy.random.default_rng(0)
evs=[(str(i), int(rng.integers(0,10))*1000, float(rng.integers(0,5)), float(rng.integers(0,5)), float(rng.integers(0,5)), float(rng.integers(0,5))) for i in range(40)]
cat=catalogs.CSEPCatalog(data=evs)
import operator
ops={'>':operator.gt,'<':operator.lt,'>=':operator.ge,'<=':operator.le,'==':operator.eq}
bad=0
for attr in ['origin_time','latitude','longitude','depth','magnitude']:
    for o in ops:
        for v in [0,1,2,3,4,2000,5000]:
            got=cat.filter(f'{attr} {o} {v}', in_place=False)
            want=[e[0] for e in evs if ops[o](e[['id','origin_time','latitude','longitude','depth','magnitude'].index(attr)], v)]
            if [g.decode() for g in got.get_event_ids()]!=want: bad+=1
print('single bad',bad, 'orig untouched', cat.event_count)
g=cat.filter(['datetime >= 1970-01-01 00:00:02.0','magnitude > 1'], in_place=False)
print(g.event_count, sum(1 for e in evs if e[1]>=2000 and e[5]>1))
g=cat.filter('datetime >= 1970-01-01 00:00:02.500', in_place=False); print(g.event_count, sum(1 for e in evs if e[1]>=2500))
