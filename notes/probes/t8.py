import numpy, warnings, itertools
warnings.simplefilter('ignore')
from csep.core import regions
from csep.utils import calc
rng=numpy.random.default_rng(3)
bad=0; tot=0; ex=[]
for trial in range(3000):
    dh=float(rng.choice([0.1,0.05,0.25,0.5,1.0,0.2,0.3,0.125,0.01,0.025,2.0,0.4,0.15]))
    dec=int(rng.integers(0,4))
    ax=round(float(rng.uniform(-180,170)),dec); ay=round(float(rng.uniform(-90,80)),dec)
    nx=int(rng.integers(1,8)); ny=int(rng.integers(1,8))
    # origins as decimal strings parsed (like file input)
    pts=[(float(repr(round(ax+i*dh,6))), float(repr(round(ay+j*dh,6)))) for i in range(nx) for j in range(ny)]
    keep=[p for p in pts if rng.uniform()<0.8] or pts[:1]
    tot+=1
    try:
        r=regions.CartesianGrid2D.from_origins(numpy.array(keep), dh=dh)
        mids=numpy.array(keep)+dh/2
        idx=r.get_index_of(mids[:,0], mids[:,1])
        if not numpy.array_equal(idx, numpy.arange(len(keep))):
            bad+=1; ex.append((dh,ax,ay,nx,ny,'wrong idx'))
        # origin points themselves (on lower-left edge) must belong to own cell
        o=numpy.array(keep)
        idx=r.get_index_of(o[:,0], o[:,1])
        if not numpy.array_equal(idx, numpy.arange(len(keep))):
            bad+=1; ex.append((dh,ax,ay,nx,ny,'origin idx', ))
    except Exception as e:
        bad+=1; ex.append((dh,ax,ay,nx,ny,repr(e)[:80]))
print(tot,bad); 
for e in ex[:15]: print(e)
