# throwaway prototype: rank algebra (A7) on stats.greater_equal_ecdf / less_equal_ecdf
import ast, sys
from fractions import Fraction
SRC=sys.argv[1] if len(sys.argv)>1 else '/repo/csep/utils/stats.py'
tree=ast.parse(open(SRC).read()); fns={n.name:n for n in tree.body if isinstance(n,ast.FunctionDef)}
# affine forms over symbols L,R,n : dict sym->coef, '1' constant
def aff(**kw): return {k:Fraction(v) for k,v in kw.items() if v!=0}
def add(a,b,s=1):
    r=dict(a)
    for k,v in b.items(): r[k]=r.get(k,0)+s*v
    return {k:v for k,v in r.items() if v!=0}
class Ramp:   # element k -> (k + a)/n
    def __init__(s,a,rev=False): s.a=a; s.rev=rev
class Sorted: pass
class Rank:
    def __init__(s,side): s.side=side
class Over_n:   # affine / n
    def __init__(s,num): s.num=num
    def __repr__(s): return '('+' + '.join(f'{v}*{k}' for k,v in s.num.items())+')/n'
def ecdf_summary():
    # verify ecdf(x) returns (sort(x), arange(1, len(x)+1)/float(len(x)))
    f=fns['ecdf']; env={}
    for st in f.body:
        if isinstance(st,ast.Assign): env[st.targets[0].id]=ast.unparse(st.value)
        if isinstance(st,ast.Return): ret=[e.id for e in st.value.elts]
    assert env[ret[0]].replace('np.','numpy.')=='numpy.sort(x)', env
    assert env[ret[1]] in ('numpy.arange(1, len(x) + 1) / float(len(x))','numpy.arange(1, len(x) + 1) / len(x)'), env
    return Sorted(), Ramp(1)
def analyse(name, target):
    f=fns[name]; results=[]
    def ev(e,env):
        if isinstance(e,ast.Name): return env[e.id]
        if isinstance(e,ast.Constant): return ('const',Fraction(e.value).limit_denominator())
        if isinstance(e,ast.Subscript):
            base=ev(e.value,env)
            if isinstance(base,Ramp) and isinstance(e.slice,ast.Slice) and ast.unparse(e.slice)=='::-1': return Ramp(base.a, not base.rev)
            if isinstance(base,Sorted):
                i=ast.unparse(e.slice)
                return ('max',) if i=='-1' else ('min',) if i=='0' else None
            if isinstance(base,Ramp):
                idx=ev(e.slice,env)   # affine index
                # index range check done by caller; element value:
                if base.rev: idx=add(aff(n=1, **{'1':-1}), idx, -1)       # n-1-idx
                return ('elem', Over_n(add(idx, aff(**{'1':base.a}))), )
        if isinstance(e,ast.BinOp) and isinstance(e.op,(ast.Add,ast.Sub)):
            a,b=ev(e.left,env),ev(e.right,env)
            ca = a if isinstance(a,dict) else aff(**{'1':a[1]})
            cb = b if isinstance(b,dict) else aff(**{'1':b[1]})
            return add(ca,cb,1 if isinstance(e.op,ast.Add) else -1)
        if isinstance(e,ast.Call) and ast.unparse(e.func).endswith('searchsorted'):
            side='left'
            for kw in e.keywords:
                if kw.arg=='side': side=kw.value.value
            if len(e.args)>2: side=e.args[2].value
            assert isinstance(ev(e.args[0],env),Sorted)
            return aff(L=1) if side=='left' else aff(R=1)
        raise NotImplementedError(ast.unparse(e))
    def run(stmts, env, cond):
        for i,st in enumerate(stmts):
            if isinstance(st,ast.Assign):
                tgt=st.targets[0]
                if isinstance(tgt,ast.Name) and tgt.id=='x': continue
                if isinstance(tgt,ast.Tuple):   # ex, ey = ecdf(x) / cdf
                    env[tgt.elts[0].id],env[tgt.elts[1].id]=ecdf_summary(); continue
                env[tgt.id]=ev(st.value,env)
            elif isinstance(st,ast.If):
                t=ast.unparse(st.test)
                if t=='x.shape[0] == 0' or t=='not cdf':
                    if t=='not cdf': run(st.body,env,cond)  # both branches bind (ex,ey) per contract
                    continue
                cmpv=ev(st.test.comparators[0],env); op=type(st.test.ops[0]).__name__
                c=(op,cmpv[0])     # e.g. ('Gt','max')
                run(st.body, dict(env), cond+[c])
                neg={'Gt':'LtE','Lt':'GtE','GtE':'Lt','LtE':'Gt'}[op]
                cond=cond+[(neg,cmpv[0])]
            elif isinstance(st,ast.Return):
                if isinstance(st.value,ast.Constant) and st.value.value is None: return
                results.append((list(cond), st.value, dict(env)));  return
    run(f.body,{},[])
    ok=True
    for cond,val,env in results:
        facts={}   # bounds on L,R from conditions
        if ('Gt','max') in cond: facts={'L':'n','R':'n'}
        if ('Lt','min') in cond: facts={'L':'0','R':'0'}
        v=ev(val,env)
        if v[0]=='const':
            # compare with target under facts
            sym=list(target)[0]    # 'L' or 'R' with coef
            num=dict(target)
            # substitute facts
            val_t=Fraction(0)
            nn=Fraction(0)
            for k,c in num.items():
                if k in facts: 
                    if facts[k]=='n': nn+=c
                elif k=='n': nn+=c
                elif k=='1': val_t+=c
            # target = (nn*n + val_t)/n ; constant iff val_t==0 -> nn
            good = (val_t==0 and nn==v[1])
            print(f'  {name}: cond={cond} returns const {v[1]} ; target under facts = {nn} -> {"OK" if good else "MISMATCH"}'); ok&=good
        else:
            got=v[1].num
            good = got==target
            # index range: find subscript index affine
            idx=ev(val.slice,env)
            rng_ok=None
            if idx==aff(L=1): rng_ok = ('LtE','max') in cond        # v<=max => L<=n-1 ; L>=0 always
            elif idx==add(aff(R=1),aff(**{'1':-1})): rng_ok = ('GtE','min') in cond   # v>=min => R>=1 ; R<=n always
            print(f'  {name}: cond={cond} returns {v[1]} ; target {Over_n(target)} -> {"OK" if good else "MISMATCH"} ; index {idx} in range: {rng_ok}'); ok&=good and bool(rng_ok)
    return ok
print('GE', analyse('greater_equal_ecdf', aff(n=1,L=-1)))
print('LE', analyse('less_equal_ecdf', aff(R=1)))
