import numpy, warnings
warnings.simplefilter('ignore')
from csep.core import binomial_evaluations as be, brier_evaluations as br, poisson_evaluations as pe
f=numpy.array([[1.,2.],[3.,4.]]); o=numpy.array([[1.,0.],[0.,2.]])
rn=numpy.array([[0.05,0.95],[0.3,0.6],[0.15,0.99]])
for name,fn in [('poisson',lambda: pe._poisson_likelihood_test(f,o,num_simulations=3,random_numbers=numpy.hstack([rn,rn[:,:1]]),verbose=False)),
                ('binary',lambda: be._binary_likelihood_test(f,o,num_simulations=3,random_numbers=rn,verbose=False)),
                ('brier',lambda: br._brier_score_test(f,o,num_simulations=3,random_numbers=rn,verbose=False))]:
    try: print(name, fn()[0])
    except Exception as e: print(name,'raises',type(e).__name__,e)
