import numpy, warnings, os, tempfile, traceback
warnings.simplefilter('ignore')
import csep
from csep.core import forecasts, regions
from csep.utils import readers
d=tempfile.mkdtemp()
fn=os.path.join(d,'q.csv')
qks=['0','1','2','3']
with open(fn,'w') as f:
    f.write('quadkey,depth_min,depth_max,5.95,6.05,6.15\n')
    for i,q in enumerate(qks): f.write(f'{q},0,30,{0.1*(i+1)},{0.01*(i+1)},{0.001*(i+1)}\n')
try:
    fo=forecasts.GriddedForecast.from_custom(readers.quadtree_csv_loader, func_args=(fn,))
    print('mags', repr(fo.magnitudes))
    print(fo.get_rates(numpy.array([10.0]), numpy.array([10.0]), numpy.array([6.0])))
except Exception as e: traceback.print_exc()
fn=os.path.join(d,'q.dat')
with open(fn,'w') as f:
    for i,q in enumerate(qks):
        for j,m in enumerate([5.95,6.05,6.15]): f.write(f'{q} 0 0 0 0 0 30 {m} {m+0.1:.2f} {0.1*(i+1)/(10**j)}\n')
try:
    fo=forecasts.GriddedForecast.from_custom(readers.quadtree_ascii_loader, func_args=(fn,))
    print('mags', repr(fo.magnitudes), fo.region.quadkeys)
    print(fo.get_rates(numpy.array([10.0, -10.0]), numpy.array([10.0,-10.0]), numpy.array([6.0, 6.2])), fo.sum())
except Exception as e: traceback.print_exc()
