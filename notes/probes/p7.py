# throwaway prototype: statement-level CFG with try/except, dominators, and the A5 typestate obligations
import ast, sys, itertools
SRC=sys.argv[1] if len(sys.argv)>1 else '/repo/csep/core/forecasts.py'
tree=ast.parse(open(SRC).read())
cls=[n for n in tree.body if isinstance(n,ast.ClassDef) and n.name=='CatalogForecast'][0]
fn=[n for n in cls.body if isinstance(n,ast.FunctionDef) and n.name=='__next__'][0]

class CFG:
    def __init__(s): s.succ={}; s.nodes={}; s.n=0
    def new(s,label,stmt=None):
        s.n+=1; s.nodes[s.n]=(label,stmt); s.succ[s.n]=set(); return s.n
    def edge(s,a,b): s.succ[a].add(b)
g=CFG(); ENTRY=g.new('ENTRY'); EXIT_RET=g.new('EXIT:return'); 
exits=[]  # raise exits
def exc_name(r):
    e=r.exc
    if e is None: return None
    if isinstance(e,ast.Call): e=e.func
    return ast.unparse(e)
BUILTIN_SUB={'StopIteration':{'Exception','BaseException'},'TypeError':{'Exception','BaseException'},'AssertionError':{'Exception','BaseException'}}
def matches(raised, handler_type):
    if handler_type is None: return True
    names=[ast.unparse(t) for t in (handler_type.elts if isinstance(handler_type,ast.Tuple) else [handler_type])]
    if raised is None: return True   # unknown exception: may match
    return raised in names or bool(BUILTIN_SUB.get(raised,set())&set(names))
def build(stmts, preds, handlers, loop):
    """returns set of fallthrough predecessor nodes. handlers: list of (type, entry_node_factory) innermost first"""
    for st in stmts:
        if not preds: break
        if isinstance(st,ast.If):
            t=g.new('if '+ast.unparse(st.test),st)
            for p in preds: g.edge(p,t)
            may_raise(t,None,handlers)
            a=build(st.body,{t},handlers,loop); b=build(st.orelse,{t},handlers,loop) if st.orelse else {t}
            preds=a|b
        elif isinstance(st,ast.Try):
            hentries=[]
            for h in st.handlers:
                hn=g.new('except '+(ast.unparse(h.type) if h.type else ''),h); hentries.append((h.type,hn))
            inner=hentries+handlers
            body_out=build(st.body,preds,inner,loop)
            if st.orelse: body_out=build(st.orelse,body_out,handlers,loop)
            outs=set(body_out)
            for (ht,hn),h in zip(hentries,st.handlers):
                outs|=build(h.body,{hn},handlers,loop)
            preds=outs
            if st.finalbody: preds=build(st.finalbody,preds,handlers,loop)
        elif isinstance(st,ast.Raise):
            n=g.new('raise '+(exc_name(st) or ''),st)
            for p in preds: g.edge(p,n)
            caught=False
            for ht,hn in handlers:
                if matches(exc_name(st),ht):
                    g.edge(n,hn)
                    if exc_name(st) is not None: caught=True; break
            if not caught: exits.append(n)
            preds=set()
        elif isinstance(st,ast.Return):
            n=g.new('return',st)
            for p in preds: g.edge(p,n)
            g.edge(n,EXIT_RET); preds=set()
        else:
            n=g.new(ast.unparse(st).split('\n')[0][:70],st)
            for p in preds: g.edge(p,n)
            # a statement containing a call / subscript / assert may raise an unknown exception -> edges to all enclosing handlers
            if any(isinstance(x,(ast.Call,ast.Subscript)) for x in ast.walk(st)) or isinstance(st,ast.Assert):
                may_raise(n, 'AssertionError' if isinstance(st,ast.Assert) else None, handlers)
            preds={n}
    return preds
def may_raise(n, name, handlers):
    for ht,hn in handlers:
        if matches(name,ht): g.edge(n,hn)
out=build(fn.body,{ENTRY},[],None)
for p in out: g.edge(p,EXIT_RET)
# dominators
nodes=list(g.nodes)
pred={n:set() for n in nodes}
for a,bs in g.succ.items():
    for b in bs: pred[b].add(a)
dom={n:set(nodes) for n in nodes}; dom[ENTRY]={ENTRY}
changed=True
while changed:
    changed=False
    for n in nodes:
        if n==ENTRY: continue
        ps=[dom[p] for p in pred[n] if p in dom]
        new=({n}|set.intersection(*ps)) if ps else {n}
        if new!=dom[n]: dom[n]=new; changed=True
def writes(node, field):
    lab,st=g.nodes[node]
    if isinstance(st,(ast.Assign,ast.AugAssign)):
        tg=st.targets if isinstance(st,ast.Assign) else [st.target]
        return any(ast.unparse(t)=='self.'+field for t in tg)
    return False
def all_paths_backward(exit_node, visit):
    """enumerate acyclic backward paths from exit to ENTRY; call visit(path)"""
    res=[]
    def rec(n,path):
        if n==ENTRY: res.append(visit(path[::-1])); return
        for p in pred[n]:
            if p not in path: rec(p,path+[p])
    rec(exit_node,[exit_node]); return res
print('nodes',len(nodes),'raise exits',[g.nodes[e][0] for e in exits])
# D2: last write to _idx on every path to a StopIteration exit is constant 0; n_cat established
for e in exits:
    if 'StopIteration' not in g.nodes[e][0]: 
        print('  other raise exit:', g.nodes[e][0]); continue
    def chk(path):
        last=None; ncat=False
        for n in path:
            lab,st=g.nodes[n]
            if writes(n,'_idx'): last=st
            if writes(n,'n_cat'): ncat=True
            if isinstance(st,ast.If) and 'self.n_cat is None' in lab: ncat=True
        ok_idx = isinstance(last,ast.Assign) and isinstance(last.value,ast.Constant) and last.value.value==0
        return ok_idx, ncat
    r=all_paths_backward(e,chk)
    print('  exit',e,g.nodes[e][0],'paths',len(r),'idx-reset on all',all(a for a,_ in r),'n_cat established on all',all(b for _,b in r))
# D3 nullness: uses of self.n_cat in assert/compare/arith without dominating write/test
for n,(lab,st) in g.nodes.items():
    if st is None or isinstance(st,ast.ExceptHandler): continue
    uses=[x for x in ast.walk(st.test if isinstance(st,ast.If) else st) if isinstance(x,ast.Attribute) and ast.unparse(x)=='self.n_cat' and isinstance(x.ctx,ast.Load)]
    if not uses: continue
    intolerant=isinstance(st,ast.Assert) or any(isinstance(x,ast.Compare) and any(isinstance(o,(ast.Lt,ast.LtE,ast.Gt,ast.GtE)) for o in x.ops) and 'self.n_cat' in ast.unparse(x) for x in ast.walk(st.test if isinstance(st,ast.If) else st))
    if 'is None' in lab or 'is not None' in lab: continue
    established=any(writes(d,'n_cat') or ('self.n_cat is None' in g.nodes[d][0]) for d in dom[n] if d!=n)
    print('  n_cat use:',lab,'| intolerant',intolerant,'| dominated by write/test',established, '-> VIOLATION' if intolerant and not established else '')
# D4 accumulators
for n,(lab,st) in g.nodes.items():
    if isinstance(st,ast.Expr) and isinstance(st.value,ast.Call) and isinstance(st.value.func,ast.Attribute) and st.value.func.attr=='append' and ast.unparse(st.value.func.value).startswith('self.'):
        field=ast.unparse(st.value.func.value)[5:]
        resets=[d for d in nodes if writes(d,field)]
        guarded=[d for d in resets if d in dom[n] or any(('self._idx == 0' in g.nodes[c][0]) and c in dom[n] for c in dom[d])]
        cond_guard=[c for c in dom[n] if g.nodes[c][0].startswith('if ') and c!=n]
        print('  append to',field,'| reset nodes',[g.nodes[d][0] for d in resets],'| governing ifs',[g.nodes[c][0] for c in cond_guard if any(True for _ in [0])][:3])
