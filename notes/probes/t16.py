import numpy, warnings, os, tempfile
warnings.simplefilter('ignore')
from csep.core import regions
from csep.utils import readers
import csep
o=numpy.array([(63.0,10.0),(63.05,10.0),(63.1,10.0),(63.0,10.05),(63.05,10.05)])
r=regions.CartesianGrid2D.from_origins(o)
print('inferred dh', repr(r.dh), 'xs', [repr(float(x)) for x in r.xs])
for p in o:
    try: print(p, r.get_index_of(numpy.array([p[0]]), numpy.array([p[1]])))
    except Exception as e: print(p,'raises',str(e)[:40])
r2=regions.CartesianGrid2D.from_origins(o, dh=0.05)
print('explicit dh', [int(r2.get_index_of(numpy.array([p[0]]), numpy.array([p[1]]))[0]) for p in o])
# single-record zmap on patched scratch? run on whichever csep is imported
d=tempfile.mkdtemp(); fn=os.path.join(d,'z1.dat'); open(fn,'w').write("-116.5 34.2 2010 1 2 4.5 7.0 3 4 5\n")
print(csep.__file__)
try: print(readers.zmap_ascii(fn))
except Exception as e: print('zmap 1 record raises', type(e).__name__, str(e)[:80])
