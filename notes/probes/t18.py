import numpy, warnings, os, tempfile, traceback, json, io, contextlib
warnings.simplefilter('ignore')
import csep
from csep.core import regions, catalogs, forecasts, poisson_evaluations as pe, binomial_evaluations as be, brier_evaluations as br, catalog_evaluations as ce
print('using', csep.__file__)
d=tempfile.mkdtemp()
origins = numpy.array([(x/10, y/10) for x in range(3) for y in range(3)])
mags = numpy.array([4.0,4.1,4.2])
reg = regions.CartesianGrid2D.from_origins(origins, dh=0.1, magnitudes=mags, name='r')
rng=numpy.random.default_rng(5)
def mkcat(evs, region=reg, **kw):
    return catalogs.CSEPCatalog(data=[(str(i), 1000*i, la, lo, 1.0, m) for i,(lo,la,m) in enumerate(evs)], region=region, **kw)
f1=forecasts.GriddedForecast(data=rng.uniform(0.01,1,(9,3)), region=reg, magnitudes=mags, name='a')
f2=forecasts.GriddedForecast(data=rng.uniform(0.01,1,(9,3)), region=reg, magnitudes=mags, name='b')
obs=mkcat([(0.05,0.05,4.05),(0.15,0.05,4.15),(0.25,0.25,4.25),(0.25,0.25,4.05)], name='obs')
cf=lambda: forecasts.CatalogForecast(catalogs=[mkcat([(0.05,0.05,4.05),(0.05,0.05,4.15)]), mkcat([]), mkcat([(0.15,0.05,4.25)]), mkcat([(0.25,0.25,4.05),(0.15,0.15,4.05),(0.25,0.05,4.15)])], region=reg, n_cat=4, name='cf')
results={}
def run(name, fn):
    try:
        with contextlib.redirect_stdout(io.StringIO()): results[name]=fn()
    except Exception as e: print('EVAL', name, 'raises', type(e).__name__, str(e)[:80])
run('n', lambda: pe.number_test(f1,obs)); run('l', lambda: pe.likelihood_test(f1,obs,num_simulations=5,seed=1)); run('cl', lambda: pe.conditional_likelihood_test(f1,obs,num_simulations=5,seed=1))
run('s', lambda: pe.spatial_test(f1,obs,num_simulations=5,seed=1)); run('m', lambda: pe.magnitude_test(f1,obs,num_simulations=5,seed=1))
run('t', lambda: pe.paired_t_test(f1,f2,obs)); run('w', lambda: pe.w_test(f1,f2,obs))
run('nbd', lambda: be.negative_binomial_number_test(f1,obs,30.0)); run('bs', lambda: be.binary_spatial_test(f1,obs,num_simulations=5,seed=1)); run('bcl', lambda: be.binary_conditional_likelihood_test(f1,obs,num_simulations=5,seed=1)); run('bt', lambda: be.binary_paired_t_test(f1,f2,obs))
run('brier', lambda: br.brier_score_test(f1,obs,num_simulations=5,seed=1))
run('cn', lambda: ce.number_test(cf(),obs,verbose=False)); run('cs', lambda: ce.spatial_test(cf(),obs,verbose=False)); run('cm', lambda: ce.magnitude_test(cf(),obs,verbose=False)); run('cpl', lambda: ce.pseudolikelihood_test(cf(),obs,verbose=False))
run('crm', lambda: ce.resampled_magnitude_test(cf(),obs,seed=2)); run('cmll', lambda: ce.MLL_magnitude_test(cf(),obs,seed=2))
run('cm_empty', lambda: ce.magnitude_test(cf(),mkcat([],name='e'),verbose=False)); run('cs_empty', lambda: ce.spatial_test(cf(),mkcat([],name='e'),verbose=False))
def same(a,b):
    if isinstance(a,(list,tuple,numpy.ndarray)):
        if not isinstance(b,(list,tuple,numpy.ndarray)) or len(a)!=len(b): return False
        return all(same(x,y) for x,y in zip(a,b))
    if a is None or b is None: return a is b
    if isinstance(a,str) or isinstance(b,str): return a==b
    try:
        fa,fb=float(a),float(b)
        return (fa==fb) or (numpy.isnan(fa) and numpy.isnan(fb))
    except Exception: return a==b
for name,r in results.items():
    fn=os.path.join(d,name+'.json')
    try:
        csep.write_json(r, fn); r2=csep.load_evaluation_result(fn)
        diffs=[k for k in ['name','status','observed_statistic','quantile','test_distribution','sim_name','obs_name','min_mw'] if not same(getattr(r,k),getattr(r2,k))]
        typ=(type(r).__name__, type(r2).__name__)
        if diffs or typ[0]!=typ[1]: print(name, typ, 'DIFFS', [(k, repr(getattr(r,k))[:50], repr(getattr(r2,k))[:50]) for k in diffs])
    except Exception as e: print(name,'roundtrip raises',type(e).__name__,str(e)[:100])
print('checked',len(results))
