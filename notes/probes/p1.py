# feasibility probe (throwaway): undefined globals + external attribute chains that do not resolve
import ast, sys, os, builtins, importlib, symtable
root='/repo/csep'
files=[os.path.join(dp,f) for dp,_,fs in os.walk(root) for f in fs if f.endswith('.py')]
def module_bindings(tree):
    b=set()
    for n in ast.walk(tree):
        pass
    for n in tree.body:
        for m in ast.walk(n) if isinstance(n,(ast.If,ast.Try,ast.With,ast.For,ast.While)) else [n]:
            if isinstance(m,(ast.FunctionDef,ast.ClassDef,ast.AsyncFunctionDef)): b.add(m.name)
            elif isinstance(m,ast.Import):
                for a in m.names: b.add((a.asname or a.name).split('.')[0])
            elif isinstance(m,ast.ImportFrom):
                for a in m.names: b.add(a.asname or a.name)
            elif isinstance(m,(ast.Assign,ast.AnnAssign,ast.AugAssign)):
                for t in (m.targets if isinstance(m,ast.Assign) else [m.target]):
                    for x in ast.walk(t):
                        if isinstance(x,ast.Name): b.add(x.id)
    return b
und=[]
for f in files:
    src=open(f).read(); tree=ast.parse(src)
    mb=module_bindings(tree)|set(dir(builtins))|{'__file__','__name__','__doc__'}
    st=symtable.symtable(src,f,'exec')
    def walk(t, chain):
        for ident in t.get_identifiers():
            s=t.lookup(ident)
            if t.get_type()!='module' and s.is_global() and s.is_referenced() and ident not in mb:
                und.append((os.path.relpath(f,root), '.'.join(chain+[t.get_name()]), ident))
        for c in t.get_children(): walk(c, chain+[t.get_name()] if t.get_type()!='module' else [])
    walk(st,[])
print('UNDEFINED GLOBALS:'); [print('  ',u) for u in und]
# external attr chains
bad=[]; n=0
for f in files:
    src=open(f).read(); tree=ast.parse(src)
    imp={}
    for m in ast.walk(tree):
        if isinstance(m,ast.Import):
            for a in m.names:
                if a.asname: imp[a.asname]=a.name
                else: imp[a.name.split('.')[0]]=a.name.split('.')[0]
    for node in ast.walk(tree):
        if isinstance(node,ast.Attribute):
            ch=[]; x=node
            while isinstance(x,ast.Attribute): ch.append(x.attr); x=x.value
            if isinstance(x,ast.Name) and x.id in imp and imp[x.id].split('.')[0] in ('numpy','scipy','pandas'):
                ch=ch[::-1]
                try: obj=importlib.import_module(imp[x.id])
                except Exception as e: continue
                n+=1
                cur=obj; ok=True; path=imp[x.id]
                for a in ch:
                    try: cur=getattr(cur,a); path+='.'+a
                    except AttributeError:
                        try: cur=importlib.import_module(path+'.'+a); path+='.'+a
                        except Exception: ok=False; path+='.'+a; break
                    if not (isinstance(cur,type(os)) or isinstance(cur,type) or callable(cur)): break
                if not ok: bad.append((os.path.relpath(f,root), node.lineno, path))
print('EXTERNAL chains checked',n); 
for b in sorted(set(bad)): print('  UNRESOLVED',b)
