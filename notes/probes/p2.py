# throwaway probe: implicit-None fallthrough in value-returning functions; loop-only assignments used after loop
import ast, os, warnings
warnings.simplefilter('ignore')
root='/repo/csep'
files=[os.path.join(dp,f) for dp,_,fs in os.walk(root) for f in fs if f.endswith('.py') and 'plots' not in f and 'comcat' not in f]
def terminates(stmts):
    # does this block always end in return/raise ?
    if not stmts: return False
    s=stmts[-1]
    if isinstance(s,(ast.Return,ast.Raise)): return True
    if isinstance(s,ast.If): return terminates(s.body) and terminates(s.orelse)
    if isinstance(s,ast.Try):
        ok=terminates(s.body+s.orelse) if s.orelse else terminates(s.body)
        return (terminates(s.finalbody) if s.finalbody else False) or (ok and all(terminates(h.body) for h in s.handlers))
    if isinstance(s,ast.With): return terminates(s.body)
    if isinstance(s,ast.While) and isinstance(s.test,ast.Constant) and s.test.value is True: return True
    return False
for f in files:
    tree=ast.parse(open(f).read())
    for fn in [n for n in ast.walk(tree) if isinstance(n,(ast.FunctionDef))]:
        own=[n for n in ast.walk(fn) if isinstance(n,ast.Return)]
        # exclude nested function returns
        nested=[n for sub in ast.walk(fn) if isinstance(sub,(ast.FunctionDef,ast.Lambda)) and sub is not fn for n in ast.walk(sub) if isinstance(n,ast.Return)]
        own=[r for r in own if r not in nested]
        isgen=any(isinstance(n,(ast.Yield,ast.YieldFrom)) for n in ast.walk(fn))
        if isgen: continue
        vals=[r for r in own if r.value is not None and not (isinstance(r.value,ast.Constant) and r.value.value is None)]
        if vals and not terminates(fn.body):
            print('FALLTHROUGH', os.path.relpath(f,root), fn.name, fn.lineno)
