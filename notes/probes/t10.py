import numpy, warnings, traceback, io, contextlib
warnings.simplefilter('ignore')
import csep
from csep.core import regions, catalogs, forecasts, catalog_evaluations as ce
origins = numpy.array([(x/10, y/10) for x in range(3) for y in range(3)])
mags = numpy.array([4.0,4.1,4.2])
reg = regions.CartesianGrid2D.from_origins(origins, dh=0.1, magnitudes=mags, name='r')
def mkcat(evs, region=reg, **kw):
    return catalogs.CSEPCatalog(data=[(str(i), 1000*i, la, lo, 1.0, m) for i,(lo,la,m) in enumerate(evs)], region=region, **kw)
def mkfore():
    cats=[mkcat([(0.05,0.05,4.05),(0.05,0.05,4.15)]), mkcat([]), mkcat([(0.15,0.05,4.25)]), mkcat([(0.05,0.15,4.05),(0.15,0.15,4.05),(0.25,0.05,4.15)])]
    return forecasts.CatalogForecast(catalogs=cats, region=reg, n_cat=len(cats), name='f')
obs_sets={'normal':[(0.05,0.05,4.05),(0.15,0.05,4.15)], 'empty':[], 'undersampled':[(0.05,0.05,4.05),(0.25,0.25,4.15)], 'single':[(0.05,0.05,4.05)], 'all_undersampled':[(0.25,0.25,4.15)]}
for nm,evs in obs_sets.items():
    obs=mkcat(evs, name='o')
    for tname in ['number_test','spatial_test','magnitude_test','pseudolikelihood_test','resampled_magnitude_test','MLL_magnitude_test']:
        fo=mkfore()
        buf=io.StringIO()
        try:
            with contextlib.redirect_stdout(buf):
                kw={'verbose':False}
                if 'resampled' in tname or 'MLL' in tname: kw['seed']=3
                r=getattr(ce,tname)(fo,obs,**kw)
            if r is None: print(nm,tname,'-> None')
            else: print(nm,tname,'->',r.status, r.observed_statistic, r.quantile, 'n_td',len(r.test_distribution))
        except Exception as e:
            print(nm,tname,'RAISES',type(e).__name__,e)
