import numpy, warnings, itertools, os, tempfile, io, contextlib, traceback, sys
warnings.simplefilter('ignore')
import csep
from csep.core import regions, catalogs, forecasts, catalog_evaluations as ce
print('using', csep.__file__)
origins = numpy.array([(x/10, y/10) for x in range(3) for y in range(3)])
mags = numpy.array([4.0,4.1,4.2])
def mkreg(): return regions.CartesianGrid2D.from_origins(origins, dh=0.1, magnitudes=mags, name='r')
d=tempfile.mkdtemp()
# forecast file: 5 catalogs, cat 1 empty (omitted), cat3 has an out-of-region event and a low-magnitude event
rows=[(0.05,0.05,4.05,0),(0.15,0.05,4.15,0),(0.25,0.25,4.25,2),(0.05,0.15,3.5,3),(0.95,0.95,4.05,3),(0.15,0.15,4.05,3),(0.05,0.05,4.05,4)]
fn=os.path.join(d,'fore_2010-01-01T00-00-00-0.csv')
with open(fn,'w') as f:
    f.write('lon,lat,mag,time_string,depth,catalog_id,event_id\n')
    for i,(lo,la,m,c) in enumerate(rows): f.write(f'{lo},{la},{m},2010-01-02T00:00:0{i}.5,5.0,{c},e{i}\n')
def expected(filters, fs):
    per=[[],[],[],[],[]]
    for (lo,la,m,c) in rows:
        if filters and m<4.0: continue
        if fs and not (0<=lo<0.3 and 0<=la<0.3): continue
        per[c].append((lo,la,m))
    return per
def mk(config):
    kind,store,filters,fs=config
    reg=mkreg()
    kw=dict(region=reg, filters=['magnitude >= 4.0'] if filters else None, filter_spatial=fs, apply_filters=bool(filters or fs))
    if kind=='file':
        return csep.load_catalog_forecast(fn, store=store, **kw)
    else:
        cats=list(catalogs.CSEPCatalog.load_ascii_catalogs(fn, region=reg))
        return forecasts.CatalogForecast(catalogs=cats, **kw)
obs_reg=mkreg()
obs=catalogs.CSEPCatalog(data=[('o1',1,0.05,0.05,1.0,4.05),('o2',2,0.15,0.15,1.0,4.15)], region=obs_reg, name='o')
ops={
 'iter': lambda fo: [ (c.catalog_id, c.event_count) for c in fo],
 'counts': lambda fo: list(fo.get_event_counts(verbose=False)),
 'rates': lambda fo: fo.get_expected_rates().data.copy(),
 'scounts': lambda fo: fo.spatial_counts().copy(),
 'ntest': lambda fo: ce.number_test(fo, obs, verbose=False).test_distribution,
 'mtest': lambda fo: ce.magnitude_test(fo, obs, verbose=False).test_distribution,
}
problems={}
for config in itertools.product(['file','mem'],[True,False],[True,False],[True,False]):
    if config[0]=='mem' and config[1]==False: continue
    per=expected(config[2],config[3])
    binnable = config[2] and config[3]
    names=[n for n in ops if binnable or n in ('iter','counts','ntest')]
    for seq in itertools.product(names, repeat=3):
        try:
            with contextlib.redirect_stdout(io.StringIO()):
                fo=mk(config)
                outs=[ops[o](fo) for o in seq]
            for o,out in zip(seq,outs):
                if o=='iter':
                    assert out==[(i,len(p)) for i,p in enumerate(per)], ('iter',out)
                if o in ('counts','ntest'):
                    assert list(out)==[len(p) for p in per], (o,list(out))
                if o=='rates':
                    want=numpy.zeros((9,3))
                    for p in per:
                        for (lo,la,m) in p:
                            want[int(round(lo*10-0.5))*3+int(round(la*10-0.5)), min(2,int((m-4.0)/0.1+1e-9))]+=1
                    assert numpy.allclose(out, want/5), ('rates',)
            assert fo.n_cat==5, ('n_cat',fo.n_cat)
        except Exception as e:
            key=(config, type(e).__name__, str(e)[:90])
            problems.setdefault(key,[]).append(seq)
for k,v in problems.items(): print(k, len(v), v[:2])
print('done', len(problems))
