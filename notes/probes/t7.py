import numpy, warnings, os, tempfile, datetime, json, traceback
warnings.simplefilter('ignore')
import csep
from csep.core import regions, catalogs, forecasts, catalog_evaluations as ce
from csep.utils import time_utils as tu, readers
def sec(t): print('\n=== '+t)
d=tempfile.mkdtemp()
origins = numpy.array([(x/10, y/10) for x in range(3) for y in range(3)])
mags = numpy.array([4.0,4.1,4.2])
reg = regions.CartesianGrid2D.from_origins(origins, dh=0.1, magnitudes=mags, name='r')
def mkcat(evs, region=reg, **kw):
    return catalogs.CSEPCatalog(data=[(str(i), 1000*i, la, lo, 1.0, m) for i,(lo,la,m) in enumerate(evs)], region=region, **kw)

sec('C14 roundtrips')
evs=[('a,b"c; d', -2208988800000+123, -89.999999999, 179.9999999, 700.123456789, 9.95),
     ('x', 1262304000001, 0.1+0.2, 1/3, 0.0, 4.05), ('y', 7258118399999, 34.5, -117.25, 12.0, 5.55)]
c=catalogs.CSEPCatalog(data=evs, catalog_id=7, name='nm', region=reg)
fn=os.path.join(d,'c.csv'); c.write_ascii(fn)
c2=csep.load_catalog(fn)
print('ascii equal', [tuple(r) for r in c2.catalog.tolist()]==[tuple(r) for r in c.catalog.tolist()], c2.catalog_id)
for a,b in zip(c.catalog.tolist(), c2.catalog.tolist()):
    if a!=b: print('  diff', a, b)
fn=os.path.join(d,'c.json'); c.write_json(fn)
try:
    c3=catalogs.CSEPCatalog.load_json(fn)
    print('json equal', c3.catalog.tolist()==c.catalog.tolist(), c3.catalog_id, c3.name, type(c3.region).__name__)
except Exception as e: traceback.print_exc()
try:
    c4=catalogs.CSEPCatalog.from_dict(c.to_dict()); print('dict equal', c4.catalog.tolist()==c.catalog.tolist(), c4.catalog_id, c4.name, type(c4.region).__name__)
except Exception as e: traceback.print_exc()
try:
    c5=catalogs.CSEPCatalog.from_dataframe(c.to_dataframe()); print('df equal', c5.catalog.tolist()==c.catalog.tolist(), repr(c5.catalog_id))
except Exception as e: traceback.print_exc()

sec('C19 readers')
fn=os.path.join(d,'j.csv')
open(fn,'w').write("timestamp;longitude;latitude;depth;magnitude\n2010-01-01T09:00:00.120000+0900;140.5;35.5;10.0;5.1\n")
print(readers.jma_csv(fn), tu.epoch_time_to_utc_datetime(readers.jma_csv(fn)[0][1]))
fn=os.path.join(d,'h.txt')
open(fn,'w').write("Year Mo Da Ho Mi Se Lat Lon Depth Mw\n2010 1 2 3 4 60.0 42.5 13.5 8.5 4.5\n2011 12 31 23 59 59.5 42.5 13.5 8.5 4.5\n")
try:
    out=readers.ingv_horus(fn); print([(o[0], tu.epoch_time_to_utc_datetime(o[1])) for o in out])
    cc=csep.load_catalog(fn, type='ingv_horus'); print(cc.event_count, cc.get_datetimes())
except Exception as e: traceback.print_exc()
