import numpy, warnings
warnings.simplefilter('ignore')
from csep.core import binomial_evaluations as be, brier_evaluations as br, poisson_evaluations as pe
from csep.utils import stats
f=numpy.array([0.0,1.0,2.0]); 
for w in ([1,0,0],[0,1,0],[0,0,0],[2,0,1]):
    w=numpy.array(w,dtype=float)
    with numpy.errstate(all='ignore'):
        exp=numpy.sum(numpy.where(w>0, numpy.log(1-numpy.exp(-f)), -f))
        expb=-2/3*numpy.sum((1-numpy.exp(-f)-(w>0))**2)
    print(w, 'binary', be.binary_joint_log_likelihood_ndarray(f,w), 'expected', exp, '| brier', br._brier_score_ndarray(f,w), expb)
# Poisson: event in zero-rate bin
print(pe._poisson_likelihood_test(f, numpy.array([1.,0,0]), num_simulations=3, seed=1, verbose=False)[1])
