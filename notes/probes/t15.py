import numpy, warnings
warnings.simplefilter('ignore')
from csep.core import regions
from csep.models import Polygon
from csep.utils.calc import cleaner_range, bin1d_vec
from decimal import Decimal
ax,ay,dh=-137.0,63.0,0.05
lo=[float(Decimal(str(ax))+i*Decimal(str(dh))) for i in range(5)]
la=[float(Decimal(str(ay))+i*Decimal(str(dh))) for i in range(6)]
print('first-row dh', repr(la[1]-la[0]), repr(lo[1]-lo[0]))
dhf=float(la[1]-la[0])
bboxes=[((lo[i],la[j]),(lo[i],la[j+1]),(lo[i+1],la[j+1]),(lo[i+1],la[j])) for i in range(4) for j in range(5)]
r=regions.CartesianGrid2D([Polygon(b) for b in bboxes], dhf)
print('xs',r.xs, 'ys', r.ys)
print('expected ys', la[:5])
try: print(r.get_index_of(numpy.array([lo[0]]), numpy.array([la[0]])))
except Exception as e: print('raises',e)
print('cleaner_range debug', cleaner_range(63.0, 63.2, dhf), 'with exact 0.05', cleaner_range(63.0,63.2,0.05))
print(bin1d_vec(numpy.array([63.0,63.05,63.1]), r.ys), 'mask', r.bbox_mask)
