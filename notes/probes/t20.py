import numpy, warnings, os, tempfile, datetime
warnings.simplefilter('ignore')
import csep
from csep.utils import readers, time_utils as tu
d=tempfile.mkdtemp()
rec = """PDE  2005/01/01 01:20:05.4  13.78  -88.78 193.1 5.0 0.0 EL SALVADOR             
C200501010120A   B:  4    4  40 S: 27   33  50 M:  0    0   0 CMT: 1 TRIHD:  0.6
CENTROID:     -0.3 0.9  13.76 0.06  -89.08 0.09 162.8 12.5 FREE S-20050322125201
23  0.838 0.201 -0.005 0.231 -0.833 0.270  1.050 0.121 -0.369 0.161  0.044 0.240
V10   1.581 56  12  -0.537 23 140  -1.044 24 241   1.312   9 29  142 133 72   66
"""
rec2 = rec.replace("01:20:05.4","23:59:60.0").replace("2005/01/01","2004/12/31")
fn=os.path.join(d,'a.ndk'); open(fn,'w').write(rec+rec2)
out=readers.ndk(fn)
for o in out: print(o, tu.epoch_time_to_utc_datetime(o[1]))
c=csep.load_catalog(fn,type='ndk'); print(c.event_count, c.get_datetimes(), c.get_magnitudes())
# single-record jma, horus
fn=os.path.join(d,'h.txt'); open(fn,'w').write("Year Mo Da Ho Mi Se Lat Lon Depth Mw\n2010 1 2 3 4 5.5 42.5 13.5 8.5 4.5\n")
try: print('horus 1 rec', readers.ingv_horus(fn))
except Exception as e: print('horus 1 record raises', type(e).__name__, str(e)[:80])
fn=os.path.join(d,'c.csv'); open(fn,'w').write("lon,lat,mag,time_string,depth,catalog_id,event_id\n1.0,2.0,3.0,2010-01-01T00:00:00,5.0,0,\n")
print(readers.csep_ascii(fn))
