import numpy, warnings, io, contextlib
warnings.simplefilter('ignore')
import csep
from csep.core import regions, catalogs, forecasts, poisson_evaluations as pe, binomial_evaluations as be, brier_evaluations as br, catalog_evaluations as ce
print('using', csep.__file__)
rng=numpy.random.default_rng(9)
mags=numpy.array([4.0,4.1,4.2,4.3])
orig=[(x/10,y/10) for x in range(4) for y in range(3) if (x,y)!=(2,1)]
def mkreg(order): return regions.CartesianGrid2D.from_origins(numpy.array([orig[i] for i in order]), dh=0.1, magnitudes=mags, name='r')
def mkcat(evs, reg, name='c'): return catalogs.CSEPCatalog(data=[(str(i), 1000*i, la, lo, 1.0, m) for i,(lo,la,m) in enumerate(evs)], region=reg, name=name)
def rand_events(n): 
    out=[]
    for _ in range(n):
        c=orig[int(rng.integers(0,len(orig)))]; out.append((c[0]+float(rng.choice([0.0,0.05,0.0999])), c[1]+float(rng.choice([0.0,0.05,0.0999])), float(rng.choice([4.0,4.05,4.1,4.25,4.3,5.5]))))
    return out
def quiet(f):
    with contextlib.redirect_stdout(io.StringIO()): return f()
def summarize(r):
    q=r.quantile; td=r.test_distribution
    return (r.observed_statistic, q, td)
def close(a,b):
    if a is None or b is None: return a is b
    if isinstance(a,str): return a==b
    a=numpy.asarray(a,dtype=float); b=numpy.asarray(b,dtype=float)
    return a.shape==b.shape and numpy.allclose(a,b,rtol=1e-9,atol=1e-12,equal_nan=True)
bad=[]
for trial in range(40):
    n=len(orig); base=numpy.arange(n); perm=rng.permutation(n)
    rates1=rng.uniform(0.01,1,(n,4)); rates2=rng.uniform(0.01,1,(n,4))
    evs=rand_events(int(rng.integers(2,15))); eperm=rng.permutation(len(evs))
    syn=[rand_events(int(rng.integers(0,6))) for _ in range(6)]; sperm=rng.permutation(len(syn))
    def world(cellorder, evorder, synorder):
        reg=mkreg(cellorder)
        f1=forecasts.GriddedForecast(data=rates1[cellorder], region=reg, magnitudes=mags, name='a')
        f2=forecasts.GriddedForecast(data=rates2[cellorder], region=reg, magnitudes=mags, name='b')
        obs=mkcat([evs[i] for i in evorder], reg, 'obs')
        cf=lambda: forecasts.CatalogForecast(catalogs=[mkcat(syn[i],reg) for i in synorder], region=reg, n_cat=len(syn), name='cf')
        out={}
        out['n']=summarize(pe.number_test(f1,obs))[:2]
        for nm,fn in [('l',pe.likelihood_test),('cl',pe.conditional_likelihood_test),('s',pe.spatial_test),('m',pe.magnitude_test),('bs',be.binary_spatial_test),('bcl',be.binary_conditional_likelihood_test),('brier',br.brier_score_test)]:
            r=quiet(lambda: fn(f1,obs,num_simulations=8,seed=3)); out[nm]=(r.observed_statistic,)
            out[nm+'_sim']=(r.quantile, r.test_distribution)   # only comparable when cell order fixed
        out['t']=summarize(pe.paired_t_test(f1,f2,obs)); out['w']=summarize(pe.w_test(f1,f2,obs))[:2]
        out['bt']=summarize(be.binary_paired_t_test(f1,f2,obs))
        for nm,fn in [('cn',ce.number_test),('cs',ce.spatial_test),('cm',ce.magnitude_test),('cpl',ce.pseudolikelihood_test)]:
            r=quiet(lambda: fn(cf(),obs,verbose=False))
            out[nm]=None if r is None else (r.observed_statistic, r.quantile, sorted(numpy.asarray(r.test_distribution,dtype=float).tolist()))
        return out
    w0=world(base, numpy.arange(len(evs)), numpy.arange(len(syn)))
    w_ev=world(base, eperm, numpy.arange(len(syn)))
    w_syn=world(base, numpy.arange(len(evs)), sperm)
    w_cell=world(perm, numpy.arange(len(evs)), numpy.arange(len(syn)))
    for k in w0:
        if not all(close(x,y) for x,y in zip(w0[k] or (), w_ev[k] or ())) or (w0[k] is None)!=(w_ev[k] is None): bad.append(('event order',k,trial))
        if k.endswith('_sim'):
            # fixed seed + event reorder must be bit-identical
            if not (w0[k][0]==w_ev[k][0] and list(w0[k][1])==list(w_ev[k][1])): bad.append(('event order bitwise',k,trial))
            continue
        if not all(close(x,y) for x,y in zip(w0[k] or (), w_syn[k] or ())): bad.append(('synthetic order',k,trial))
        if not all(close(x,y) for x,y in zip(w0[k] or (), w_cell[k] or ())): bad.append(('cell order',k,trial))
import collections
print(collections.Counter((a,b) for a,b,_ in bad))
print('done')
# detail of the cs mismatch
