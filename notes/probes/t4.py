import numpy, warnings
warnings.simplefilter('ignore')
from csep.core import poisson_evaluations as pe, binomial_evaluations as be, brier_evaluations as br
rng=numpy.random.default_rng(0)
found=None
for t in range(2000):
    n=int(rng.integers(5,400))
    x=rng.uniform(1e-6,1,n)
    w=numpy.cumsum(x)/numpy.sum(x)
    if w[-1]<1.0:
        found=x; break
print('found', found is not None, 'after', t, 'w[-1]=', repr(w[-1]))
u=numpy.nextafter(1.0,0.0)
obs=numpy.zeros_like(found); obs[0]=1
try:
    print(pe._poisson_likelihood_test(found, obs, num_simulations=1, random_numbers=numpy.array([[u]]), verbose=False)[0])
except Exception as e: print('poisson raises', type(e).__name__, e)
try:
    print(be._binary_likelihood_test(found, obs, num_simulations=1, random_numbers=numpy.array([[u]]), verbose=False)[0])
except Exception as e: print('binary raises', type(e).__name__, e)
try:
    print(br._brier_score_test(found, obs, num_simulations=1, random_numbers=numpy.array([[u]]), verbose=False)[0])
except Exception as e: print('brier raises', type(e).__name__, e)
