import numpy, warnings, itertools
warnings.simplefilter('ignore')
from csep.core import regions, catalogs
import mercantile
rng=numpy.random.default_rng(2)
def check_grid(g, label):
    b=numpy.array(g.bounds)
    # disjoint + cover via area: sum of (lon span * mercator-y span) equals total
    def my(lat): return numpy.log(numpy.tan(numpy.pi/4+numpy.radians(lat)/2))
    A=numpy.sum((b[:,2]-b[:,0])*(my(b[:,3])-my(b[:,1])))
    T=360*(my(85.0511287798066)-my(-85.0511287798066))
    ok_area=abs(A-T)<1e-6*T
    # random probe points incl. tile corners
    pts=[(float(rng.uniform(-180,180)), float(rng.uniform(-85.05,85.05))) for _ in range(300)]
    for k in rng.integers(0,len(b),50): pts.append((b[k,0],b[k,1])); pts.append((b[k,2],b[k,3]))
    bad=0
    for lo,la in pts:
        inside=numpy.where((lo>=b[:,0])&(la>=b[:,1])&(lo<b[:,2])&(la<b[:,3]))[0]
        got=g.get_index_of(lo,la) if isinstance(lo,float) else g.get_index_of(float(lo),float(la))
        if len(inside)>1: bad+=1
        elif len(inside)==1:
            if not (numpy.size(got)==1 and int(got)==inside[0]): bad+=1
        else:
            if numpy.size(got)!=0: bad+=1
    print(label,'cells',len(b),'area ok',ok_area,'probe bad',bad)
for z in range(1,6):
    check_grid(regions.QuadtreeGrid2D.from_single_resolution(z), f'single z={z}')
for trial in range(6):
    n=int(rng.integers(0,300)); 
    lon=numpy.concatenate([rng.uniform(-180,180,n), rng.normal(10,2,n)]); lat=numpy.concatenate([rng.uniform(-80,80,n), rng.normal(40,2,n)])
    cat=catalogs.CSEPCatalog(data=[(str(i),i,float(la),float(lo),1.0,5.0) for i,(lo,la) in enumerate(zip(lon,lat))])
    thr=int(rng.integers(1,30)); zoom=int(rng.integers(2,8))
    g=regions.QuadtreeGrid2D.from_catalog(cat,thr,zoom=zoom)
    check_grid(g,f'catalog n={2*n} thr={thr} zoom={zoom}')
    b=numpy.array(g.bounds)
    cnt=numpy.array([numpy.sum((lon>=x[0])&(lat>=x[1])&(lon<x[2])&(lat<x[3])) for x in b])
    depth=numpy.array([len(q) for q in g.quadkeys])
    viol=numpy.sum((cnt>thr)&(depth<zoom))
    # never split at/below threshold: parent of any leaf with depth>1 must have count>thr
    par={}
    for q,c in zip(g.quadkeys,cnt): par[q[:-1]]=par.get(q[:-1],0)+c
    viol2=sum(1 for p,c in par.items() if p and c<=thr)
    print('   refinement violations', int(viol), viol2, 'area sum vs band', abs(g.get_cell_area().sum()-regions.geographical_area_from_bounds(-180,-85.0511287798066,180,85.0511287798066))/g.get_cell_area().sum())
