# throwaway probe: where do bin1d_vec results reach index sinks, and which guard idiom covers each?
import ast, os, warnings
warnings.simplefilter('ignore')
root='/repo/csep'
files=['core/regions.py','core/catalogs.py','core/forecasts.py','utils/calc.py']
def names(n): return {x.id for x in ast.walk(n) if isinstance(x,ast.Name)}
for rel in files:
    tree=ast.parse(open(os.path.join(root,rel)).read())
    for fn in [n for n in ast.walk(tree) if isinstance(n,ast.FunctionDef)]:
        tainted={}
        for st in ast.walk(fn):
            if isinstance(st,ast.Assign) and isinstance(st.value,ast.Call):
                f=st.value.func
                nm=f.id if isinstance(f,ast.Name) else getattr(f,'attr',None)
                if nm=='bin1d_vec':
                    for t in st.targets:
                        if isinstance(t,ast.Name): tainted[t.id]=st.lineno
        if not tainted: 
            # direct return of bin1d_vec?
            continue
        # derived scalars: x = t[i]
        changed=True
        while changed:
            changed=False
            for st in ast.walk(fn):
                if isinstance(st,ast.Assign) and len(st.targets)==1 and isinstance(st.targets[0],ast.Name):
                    v=st.value
                    if isinstance(v,ast.Subscript) and isinstance(v.value,ast.Name) and v.value.id in tainted and st.targets[0].id not in tainted:
                        tainted[st.targets[0].id]=st.lineno; changed=True
        sent_tests=[ast.unparse(c) for c in ast.walk(fn) if isinstance(c,ast.Compare) and names(c)&set(tainted) and any(isinstance(k,(ast.UnaryOp,ast.Constant)) for k in c.comparators)]
        print(f'\n{rel}:{fn.name}  tainted={sorted(tainted)}')
        print('   sentinel/range tests:', sorted(set(sent_tests)))
        for n in ast.walk(fn):
            if isinstance(n,ast.Subscript):
                sl=n.slice
                if names(sl)&set(tainted) and not (isinstance(n.value,ast.Name) and n.value.id in tainted):
                    print('   SINK', 'store' if isinstance(n.ctx,ast.Store) else 'load ', n.lineno, ast.unparse(n))
            if isinstance(n,ast.Call) and ast.unparse(n.func).endswith('add.at'):
                if names(n.args[1])&set(tainted): print('   SINK add.at', n.lineno, ast.unparse(n))
