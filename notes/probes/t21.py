import numpy, warnings, os, tempfile, traceback, string
warnings.simplefilter('ignore')
import csep
from csep.core import regions, catalogs
print('using', csep.__file__)
rng=numpy.random.default_rng(11)
d=tempfile.mkdtemp()
origins = numpy.array([(x/10, y/10) for x in range(3) for y in range(3)])
reg = regions.CartesianGrid2D.from_origins(origins, dh=0.1, name='r')
alphabet=string.ascii_letters+string.digits+',";\' -_.:/'
problems={}
def note(k,info): problems.setdefault(k,[]).append(info)
for trial in range(300):
    n=int(rng.integers(0,6))
    evs=[]
    for i in range(n):
        eid=''.join(rng.choice(list(alphabet), size=int(rng.integers(1,12))))
        t=int(rng.integers(-2208988800000, 7258118400000))
        la=float(rng.choice([rng.uniform(-90,90), 0.1+0.2, -89.99999999999999, 1/3])); lo=float(rng.choice([rng.uniform(-180,180), 179.99999999999997, -0.0]))
        dep=float(rng.choice([rng.uniform(0,700), 0.0, 1e-9])); m=float(rng.choice([rng.uniform(-1,10), 5.95, 4.0000000000000036]))
        evs.append((eid,t,la,lo,dep,m))
    cid=int(rng.integers(0,1000))
    c=catalogs.CSEPCatalog(data=evs, catalog_id=cid, name='nm')
    want=[(e[0].encode(),)+e[1:] for e in evs]
    assert [tuple(r) for r in c.catalog.tolist()]==want
    # ascii
    for header in (True,False):
        fn=os.path.join(d,'c.csv')
        try:
            c.write_ascii(fn, write_header=header)
            c2=csep.load_catalog(fn)
            got=[tuple(r) for r in c2.catalog.tolist()]
            if got!=want: note(('ascii mismatch',header), (trial,[ (a,b) for a,b in zip(want,got) if a!=b][:1]))
            if n>0 and c2.catalog_id!=cid: note(('ascii catalog_id',header),(trial,c2.catalog_id,cid))
        except Exception as e: note(('ascii raises',header,type(e).__name__,str(e)[:60]),(trial,n))
    # json / dict
    try:
        fn=os.path.join(d,'c.json'); c.write_json(fn); c3=catalogs.CSEPCatalog.load_json(fn)
        got=[tuple(r) for r in c3.catalog.tolist()]
        if got!=want: note(('json mismatch',),(trial,))
        if c3.catalog_id!=cid or c3.name!='nm': note(('json id/name',),(trial,c3.catalog_id,c3.name))
    except Exception as e: note(('json raises',type(e).__name__,str(e)[:60]),(trial,n))
    try:
        c4=catalogs.CSEPCatalog.from_dataframe(c.to_dataframe())
        got=[tuple(r) for r in c4.catalog.tolist()]
        if got!=want: note(('df mismatch',),(trial,))
        if int(c4.catalog_id)!=cid: note(('df id',),(trial,))
    except Exception as e: note(('df raises',type(e).__name__,str(e)[:60]),(trial,n))
for k,v in problems.items(): print(k,len(v),v[:2])
print('done',len(problems))
