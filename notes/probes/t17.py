import numpy, warnings
warnings.simplefilter('ignore')
from csep.core import regions
o=numpy.array([(-137.0,63.0),(-136.95,63.0),(-136.9,63.0)])
r=regions.CartesianGrid2D.from_origins(o)
print('inferred dh', repr(float(r.dh)), 'ys', [repr(float(y)) for y in r.ys], 'xs', [repr(float(x)) for x in r.xs])
for p in o:
    try: print(p, r.get_index_of(numpy.array([p[0]]), numpy.array([p[1]])))
    except Exception as e: print(p,'raises',str(e)[:60])
try: print('midpoint', r.get_index_of(numpy.array([-136.975]), numpy.array([63.025])))
except Exception as e: print('mid raises', e)
