#!/venv/bin/python
"""Regenerate MANIFEST.json from the rule modules that exist (sa/rules/cXX.py)."""
import importlib, json, os, sys
HERE = os.path.dirname(os.path.dirname(os.path.abspath(__file__)))
sys.path.insert(0, HERE)
sys.dont_write_bytecode = True
props = [json.loads(l) for l in open(os.path.join(HERE, 'properties.jsonl'))]
BASE = json.load(open('/root/.vp/BASELINE.json'))['cmd'].replace('--junitxml=<file>', '--junitxml=/tmp/pycsep-baseline.junit.xml')
checks, na = [], []
NA_REASONS = {}
try:
    NA_REASONS = json.load(open(os.path.join(HERE, 'sa', 'tables', 'not_applicable.json')))
except Exception:
    pass
for p in props:
    pid = p['id']
    try:
        mod = importlib.import_module('sa.rules.%s' % pid.lower())
    except ModuleNotFoundError:
        na.append({'property_id': pid, 'reason': NA_REASONS.get(pid, 'no static check is registered for this property yet; nothing is claimed')})
        continue
    checks.append({
        'property_id': pid,
        'quick_cmd': './check %s --tier quick' % pid,
        'thorough_cmd': './check %s --tier thorough' % pid,
        'evidence_file': 'evidence/%s.json' % pid,
        'replay_cmd_template': './check %s --replay {path}' % pid,
        'engine': 'sa',
        'level_claimed': {
            'category': 'other',
            'text': 'Static analysis of the current source tree (no execution): the structural clauses of the property '
                    'that are necessary conditions of the behaviour are decided on every path / call site; the '
                    'value-dependent remainder is explicitly not decided. ' + mod.EXPLANATION,
            'design_ref': 'DESIGN.md section 4 (%s)' % pid,
        },
        'level_note': 'Trusted base: ' + '; '.join(getattr(mod, 'TRUSTED', [])) +
                      '. A pass means every claimed clause holds on every anchored function and call site analysed; it '
                      'does not establish numeric behaviour.',
        'technique': getattr(mod, 'TECHNIQUE', 'static analysis: ast + call graph + CFG dominance/def-use + algebraic normal forms of expressions'),
    })
man = {
    'version': 1,
    'setup_cmd': '/venv/bin/python -c "import ast,sys; sys.path.insert(0,\'.\'); import sa.core.loader, sa.core.cfg, sa.core.expand, sa.core.sym, sa.core.callgraph, sa.core.report; print(\'sa engine importable\')"',
    'hooks': {'guard': 'PYCSEP_VERIF', 'enable': 'none needed: the checks read the source of /repo/csep, no hook or instrumentation exists',
              'baseline_off_cmd': BASE, 'source_commits': [], 'add_only': True},
    'engines': [{'name': 'sa', 'path': 'sa/', 'serves_properties': [c['property_id'] for c in checks],
                 'kind_free_text': 'repository-specific static analyser: ast program model, class-hierarchy call graph, statement CFG '
                                   'with dominators and reaching definitions, def-use expansion, polynomial normal forms, table/path/flow rules'}],
    'checks': checks,
    'not_applicable': na,
    'notes': 'All checks are static (family: static analysis). exit 0 = all claimed clauses hold; exit 1 + VIOLATION line = a clause is broken at a named construct; '
             'exit 2 + ANALYSIS-ERROR = anchor missing / idiom not understood (never a silent pass). Genuine defects found on the pinned tree were repaired by fix: commits in /repo and are listed as fixed: lines in known_findings.txt.',
}
json.dump(man, open(os.path.join(HERE, 'MANIFEST.json'), 'w'), indent=1)
print('MANIFEST: %d checks, %d not_applicable' % (len(checks), len(na)))
