#!/venv/bin/python
"""Markdown table of the seeded changes and the checks that report them (from seeded/last_run.json + meta.json)."""
import json, os, sys
COMPACT = '--compact' in sys.argv
HERE = os.path.dirname(os.path.dirname(os.path.abspath(__file__)))
res = json.load(open(os.path.join(HERE, 'seeded', 'last_run.json')))
if COMPACT:
    print('| seed | what was changed (sub-agent\'s summary, truncated) | checks that exit 1 | rule of the owning property that names it |')
    print('|---|---|---|---|')
else:
    print('| seed | what was changed (sub-agent\'s summary) | needs | reported by (exit 1) | first finding of the owning property |')
    print('|---|---|---|---|---|')
for seed in sorted(res):
    m = json.load(open(os.path.join(HERE, 'seeded', seed, 'meta.json')))
    out = res[seed]
    if 'error' in out:
        print('| %s | %s | | PATCH ERROR | |' % (seed, m.get('summary', '')[:140]))
        continue
    fired = [p for p, r in sorted(out.items()) if r.get('code') == 1]
    own = out.get(seed.split('-')[0], {})
    first = (own.get('violations') or [''])[0].split('|')[0]
    if not fired:
        codes = {p: r.get('code') for p, r in out.items() if r.get('code')}
        fired = ['MISSED' + (' (exit 2: %s)' % ','.join(k for k, v in codes.items() if v == 2) if codes else '')]
    def clean(s):
        return str(s).replace('|', '/').replace('\n', ' ')
    if COMPACT:
        owns = sorted({v.split('|')[0] for v in (own.get('violations') or [])})
        print('| %s | %s | %s | %s |' % (seed, clean(m.get('summary', ''))[:110], ' '.join(fired), ', '.join(owns[:3])))
    else:
        print('| %s | %s | %s | %s | %s |' % (seed, clean(m.get('summary', ''))[:170], clean(m.get('needs', ''))[:120], ' '.join(fired), first))
