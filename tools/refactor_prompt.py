#!/venv/bin/python
"""Prompt for a fresh sub-agent that writes behaviour-preserving refactorings: refactor_prompt.py <group> <worktree>
The agent gets an area of the package and its scratch worktree only - nothing from /verif."""
import sys
g, wt = sys.argv[1], sys.argv[2]
AREAS = {
    'F': 'csep/utils/calc.py and csep/utils/stats.py (binning kernels, cleaner_range, ecdf helpers, quantiles)',
    'G': 'csep/core/regions.py (CartesianGrid2D construction and lookup, quadtree construction, _create_tile*, quadtree lookup, geographical areas)',
    'H': 'csep/core/catalogs.py and csep/utils/readers.py (filtering, gridding counts, write_ascii/load, dict/json/dataframe forms, the catalog readers)',
    'I': 'csep/core/forecasts.py, csep/utils/time_utils.py, csep/core/repositories.py and csep/__init__.py (GriddedDataSet/GriddedForecast/CatalogForecast, load_ascii, time conversions, load_* dispatchers)',
    'K': 'csep/utils/calc.py, csep/utils/stats.py and csep/utils/time_utils.py',
    'L': 'csep/core/regions.py',
    'M': 'csep/core/catalogs.py and csep/utils/readers.py',
    'N': 'csep/core/forecasts.py, csep/core/repositories.py, csep/models.py and csep/__init__.py',
    'O': 'csep/core/poisson_evaluations.py, csep/core/binomial_evaluations.py, csep/core/brier_evaluations.py and csep/core/catalog_evaluations.py',
    'P': 'csep/utils/calc.py, csep/utils/stats.py, csep/utils/time_utils.py and csep/utils/readers.py',
    'Q': 'csep/core/regions.py and csep/core/catalogs.py (the interplay of catalogs and regions: gridding, filtering, indices)',
    'R': 'csep/core/forecasts.py, csep/core/catalogs.py (persistence: dict/json/ascii/dataframe) and csep/core/repositories.py',
    'S': 'csep/core/poisson_evaluations.py, csep/core/binomial_evaluations.py and csep/core/brier_evaluations.py',
    'T': 'csep/core/catalog_evaluations.py, csep/models.py, csep/__init__.py and csep/core/forecasts.py (CatalogForecast)',
    'U': 'csep/utils/calc.py, csep/utils/stats.py and csep/core/regions.py (binning kernels and the regions that use them)',
    'V': 'csep/core/catalogs.py (all of it: construction, accessors, filtering, gridding, persistence)',
    'W': 'csep/core/forecasts.py and csep/utils/readers.py (gridded and catalog forecasts, forecast file loaders, catalog readers)',
    'X': 'csep/core/poisson_evaluations.py, csep/core/binomial_evaluations.py, csep/core/brier_evaluations.py and csep/utils/stats.py',
    'Y': 'csep/core/catalog_evaluations.py, csep/utils/time_utils.py, csep/models.py, csep/core/repositories.py and csep/__init__.py',
    'Z1': 'csep/utils/calc.py, csep/utils/stats.py, csep/utils/time_utils.py (pure numeric helpers) - prefer vectorisation / de-vectorisation that is exactly equivalent, early returns, and renaming',
    'Z2': 'csep/core/regions.py (both region classes and the module-level helpers) - prefer moving code between methods, properties, class attributes and static methods',
    'Z3': 'csep/core/catalogs.py and csep/core/forecasts.py - prefer changes of control flow: guard clauses, merged / split branches, loops versus comprehensions, try/except restructured without changing what is protected',
    'Z4': 'csep/core/poisson_evaluations.py, csep/core/binomial_evaluations.py, csep/core/brier_evaluations.py, csep/core/catalog_evaluations.py - prefer sharing code between the three families of tests through new private helpers in the same module',
    'Z5': 'csep/utils/readers.py, csep/models.py, csep/core/repositories.py and csep/__init__.py - prefer table-driven rewrites, helper extraction and modern idioms (f-strings, pathlib-free), keeping every exception and message',
    'AA': 'csep/core/regions.py and csep/utils/calc.py - prefer exactly equivalent rewrites between explicit loops and vectorised numpy forms (in both directions), named intermediate variables for long expressions, reordering of independent statements, and replacing index arithmetic by equivalent slicing',
    'AB': 'csep/core/catalogs.py - prefer class-level restructuring: private helper methods shared by spatial_counts / spatial_event_probability / magnitude_counts / spatial_magnitude_counts, static methods, properties, splitting long methods (filter, write_ascii, from_dict, to_dataframe, load_ascii_catalogs) into steps',
    'AC': 'csep/core/forecasts.py, csep/core/repositories.py and csep/__init__.py - prefer equivalent rewrites of the state handling: the list / generator duality of CatalogForecast.__next__, early returns versus else branches, helper methods for the end-of-pass bookkeeping, GriddedDataSet properties, the loader dispatch tables',
    'AD': 'csep/core/poisson_evaluations.py, csep/core/binomial_evaluations.py, csep/core/brier_evaluations.py and csep/core/catalog_evaluations.py - prefer building the EvaluationResult through a helper or keyword dictionary, loops versus comprehensions, hoisting loop-invariant computations where the floating-point result is bit-identical, and unifying the three _simulate_catalog functions behind private helpers without changing the random stream',
    'AE': 'csep/utils/readers.py, csep/utils/time_utils.py, csep/utils/stats.py and csep/models.py - prefer equivalent string handling (split / partition / slices / f-strings), lookup tables instead of if-chains, enumerations replaced by module constants, context managers, and equivalent datetime arithmetic',
    'J': 'csep/core/poisson_evaluations.py, csep/core/binomial_evaluations.py, csep/core/brier_evaluations.py, csep/core/catalog_evaluations.py and csep/models.py (test kernels, simulation loops, result construction)',
}
print(f'''You are working in a scratch git worktree of the pyCSEP repository at {wt} (a detached checkout). Work ONLY inside {wt}: do not touch /repo, /verif or any other directory, do NOT use `git stash`, never commit anything.

Environment: use /venv/bin/python and ALWAYS run with PYTHONPATH={wt} so that your worktree's `csep` is imported (check once that `csep.__file__` is under {wt}). Test suite: `cd {wt} && PYTHONPATH={wt} /venv/bin/python -m pytest -q -p no:cacheprovider --timeout=900 --continue-on-collection-errors`; on the clean tree 154 tests pass, 8 fail and 3 error (network data, expected). A "Segmentation fault" printed after the pytest summary is harmless. No network.

Task: act as a maintainer doing clean-up. Produce EIGHT independent, strictly BEHAVIOUR-PRESERVING refactorings in this area: {AREAS[g]}.
"Behaviour-preserving" is meant strictly: for every input the functions return the same values (same dtypes, same order), raise the same exceptions and have the same side effects on object state as before. If you are not sure an edit is exactly equivalent, do not make it. Do not fix bugs, do not change defaults, do not change messages of raised exceptions.
Make them structurally substantial rather than cosmetic, and different in kind. In this round each refactoring should COMBINE at least two kinds in one patch and touch at least two functions (the way a real clean-up commit does), and at least two of the eight should be class-level or module-level (extract a method, turn a repeated expression into a property or a module constant, pull shared code of sibling methods into one private method, replace index-based iteration by enumerate/zip or the reverse). Examples of kinds (use at least six different kinds): split a long function into helpers (same module, or nested); move a nested helper to module level or the reverse; merge duplicated branches into one code path; replace an if/elif chain by a dict dispatch or the reverse; guard clauses / early returns instead of nested ifs; loop <-> comprehension / generator; explicit loop <-> exactly equivalent vectorised numpy expression (mind dtypes and empty inputs); positional <-> keyword arguments, reordered keyword arguments; `numpy.sum(a)` <-> `a.sum()`, `len(a)` <-> `a.shape[0]` for 1-D arrays; `x = x + y` <-> `x += y` on Python scalars only; hoisting loop-invariant expressions; introducing or removing temporaries; renaming private helpers and locals (update all call sites); replacing a lambda by a def; restructuring `with`/`try` blocks without changing which statements are protected; tuple/dict literal <-> incremental construction; a decorator-free rewrite of a property into an explicit getter used by the property; class attribute tables; context managers; `while` <-> `for`; early `continue`; walrus; star-unpacking; f-string <-> format; chained comparison <-> conjunction; De Morgan rewrites of conditions; swapping the arms of an if/else with the negated test.
Each refactoring must touch the substantive functions of the area (not only docstrings, comments, logging or plotting code) and must be made against the CLEAN checkout (refactorings are independent alternatives, not a series).

For each k in 1..8 create {wt}/_refac/k/ with
 - patch.diff : `git diff` against the clean checkout (applies with `git apply`),
 - meta.json  : {{"group": "{g}", "k": k, "kind": "<kind of refactoring>", "summary": "<what was changed, which functions>", "why_equivalent": "<the argument that behaviour is identical for all inputs, including empty inputs, dtypes, exceptions and object state>", "tests_passed": n}}.
For each: apply, run the full test suite (the same 154 tests must pass), and exercise the changed functions yourself with a few direct calls comparing old and new results (including an edge case such as an empty input or a single element) before reverting with `git checkout -- csep`. Only the untracked _refac/ directory may remain at the end.

When done, report the eight refactorings in one line each.''')
