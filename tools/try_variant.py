#!/venv/bin/python
"""Apply one corpus variant (by name substring) to a scratch copy and print the full check output."""
import sys, os, tempfile, shutil, importlib.machinery
HERE = os.path.dirname(os.path.dirname(os.path.abspath(__file__)))
sys.path.insert(0, HERE); sys.dont_write_bytecode = True
from sa.selftest import corpus
from sa.selftest.mutants import make_copy, apply_edits
chk = importlib.machinery.SourceFileLoader('verif_check', os.path.join(HERE, 'check')).load_module()
pid, name = sys.argv[1], sys.argv[2]
vs = [v for v in corpus.VARIANTS if v['pid'] == pid and name in v['name']]
for v in vs:
    tmp = tempfile.mkdtemp(prefix='sa-try-')
    try:
        make_copy('/repo', tmp)
        print('==', v['name'], 'applied:', apply_edits(tmp, v['edits']))
        code, ck = chk.run_property(pid, 'quick', tmp, write=False)
        print('exit', code)
    finally:
        shutil.rmtree(tmp, ignore_errors=True)
