#!/bin/bash
# Regenerate MANIFEST.json, run every registered quick (or $1=thorough) check against /repo, validate evidence.
cd "$(dirname "$0")/.."
tier=${1:-quick}
/venv/bin/python tools/gen_manifest.py
rc=0
for p in $(/venv/bin/python -c "import json;print(' '.join(c['property_id'] for c in json.load(open('MANIFEST.json'))['checks']))"); do
  ./check $p --tier $tier > /tmp/sa-run-$p.log 2>&1; c=$?
  head -1 /tmp/sa-run-$p.log | cut -c1-150
  [ $c -ne 0 ] && { rc=1; echo "   exit $c"; grep -m5 'VIOLATION\|ANALYSIS-ERROR' /tmp/sa-run-$p.log | cut -c1-300; }
  rm -f /tmp/sa-run-$p.log
done
python3-vt - <<'PY'
import json, jsonschema, glob
sch=json.load(open('/root/.vp/EVIDENCE.schema.json'))
jsonschema.validate(json.load(open('MANIFEST.json')), json.load(open('/root/.vp/MANIFEST.schema.json')))
n=0
for f in sorted(glob.glob('evidence/C*.json')):
    jsonschema.validate(json.load(open(f)), sch); n+=1
print('manifest valid; %d evidence files valid' % n)
PY
exit $rc
