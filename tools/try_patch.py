#!/venv/bin/python
"""Apply a patch (seeded/<id> or refactorings/<id> or a path) to a scratch copy and run the named checks, printing violations.
usage: try_patch.py <id-or-path> <Cxx> [...]"""
import io, os, shutil, subprocess, sys, tempfile, importlib.machinery
HERE = os.path.dirname(os.path.dirname(os.path.abspath(__file__)))
sys.path.insert(0, HERE); sys.dont_write_bytecode = True
from sa.selftest.mutants import make_copy
from sa.core.report import load_known
chk = importlib.machinery.SourceFileLoader('verif_check', os.path.join(HERE, 'check')).load_module()
name = sys.argv[1]
path = name
for d in ('seeded', 'refactorings'):
    c = os.path.join(HERE, d, name, 'patch.diff')
    if os.path.exists(c):
        path = c
tmp = tempfile.mkdtemp(prefix='sa-try-')
try:
    make_copy(os.environ.get('PYCSEP_REPO', '/repo'), tmp)
    if name != '-':
        subprocess.run(['patch', '-p1', '-s', '-d', tmp, '-i', os.path.abspath(path)], check=True)
    for pid in sys.argv[2:]:
        code, ck = chk.run_property(pid, 'quick', tmp, write=False, quiet=True, stream=io.StringIO())
        known, _ = load_known(pid)
        print('==', pid, 'exit', code)
        for o in ck.violations():
            if o.key not in known:
                print('  V', o.key[:200], '\n      ->', o.detail[:400])
        for o in ck.inconclusive():
            print('  ?', o.key[:200], '\n      ->', o.detail[:300])
        for e in ck.errors:
            print('  E', e[:1500])
finally:
    shutil.rmtree(tmp, ignore_errors=True)
