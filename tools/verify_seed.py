#!/venv/bin/python
"""Independently confirm a seeded change: patch applies to a clean scratch worktree, demo fails with it and
passes without it, and the baseline tests still pass with it.  usage: verify_seed.py <worktree> <seed dir> <out json>"""
import json, os, subprocess, sys, xml.etree.ElementTree as ET
wt, seed, out = sys.argv[1:4]
env = dict(os.environ, PYTHONPATH=wt)
def run(cmd, **k):
    return subprocess.run(cmd, cwd=wt, env=env, capture_output=True, text=True, **k)
res = {'seed': seed}
run(['git', 'checkout', '--', 'csep'])
st = run(['git', 'status', '--short', '--', 'csep']).stdout.strip()
res['clean_before'] = (st == '')
r = run(['/venv/bin/python', os.path.join(seed, 'demo.py')], timeout=900)
res['demo_clean_exit'] = r.returncode
a = run(['git', 'apply', os.path.join(seed, 'patch.diff')])
res['patch_applies'] = a.returncode == 0
if a.returncode == 0:
    try:
        r = run(['/venv/bin/python', os.path.join(seed, 'demo.py')], timeout=900)
        res['demo_seeded_exit'] = r.returncode
        res['demo_seeded_tail'] = (r.stdout + r.stderr)[-600:]
    except subprocess.TimeoutExpired:
        res['demo_seeded_exit'] = 'timeout'
    jx = os.path.join(wt, '_seed_junit.xml')
    run(['/venv/bin/python', '-m', 'pytest', '-q', '-p', 'no:cacheprovider', '--timeout=900',
         '--continue-on-collection-errors', '--junitxml=' + jx], timeout=3000)
    ok = set()
    for tc in ET.parse(jx).iter('testcase'):
        if not any(c.tag in ('failure', 'error', 'skipped') for c in tc):
            ok.add(tc.get('classname') + '::' + tc.get('name'))
    base = json.load(open('/root/.vp/BASELINE.json'))['stable_pass']
    res['tests_passed_seeded'] = len(ok)
    res['baseline_missing'] = [b for b in base if b not in ok]
    os.remove(jx)
run(['git', 'checkout', '--', 'csep'])
res['confirmed'] = bool(res.get('clean_before') and res.get('patch_applies') and res.get('demo_clean_exit') == 0
                        and res.get('demo_seeded_exit') not in (0, None) and res.get('baseline_missing') == [])
json.dump(res, open(out, 'w'), indent=1)
print(seed, 'confirmed' if res['confirmed'] else 'NOT CONFIRMED', {k: v for k, v in res.items() if k not in ('demo_seeded_tail',)})
