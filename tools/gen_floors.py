#!/venv/bin/python
"""Regenerate sa/tables/floors.json from the rule instance counts on the current /repo tree: gen_floors.py
The floor of a rule is half (rounded up) of the number of instances it matched; a later run that matches fewer
fails as analysis-broken (exit 2).  Only run after the instances were confirmed by reading the evidence."""
import json, math, os, subprocess, sys
HERE = os.path.dirname(os.path.dirname(os.path.abspath(__file__)))
sys.path.insert(0, HERE)
out = {}
man = json.load(open(os.path.join(HERE, 'MANIFEST.json')))
for c in man['checks']:
    pid = c['property_id']
    subprocess.run([os.path.join(HERE, 'check'), pid], stdout=subprocess.DEVNULL)
    ev = json.load(open(os.path.join(HERE, 'evidence', pid + '.json')))
    counts = ev['coverage'].get('rule_instances') or {}
    out[pid] = {r: max(1, math.ceil(n / 2)) for r, n in sorted(counts.items()) if n > 0 and not r.startswith('G-')}
    out[pid]['_note'] = ('floor = half (rounded up) of the instances matched on the tree the instances were confirmed on: guards against a '
                         'rule that silently matches (almost) nothing after a rename; fewer instances than the floor -> ANALYSIS-ERROR exit 2')
json.dump(out, open(os.path.join(HERE, 'sa', 'tables', 'floors.json'), 'w'), indent=1, sort_keys=True)
print('floors for %d properties, %d rules' % (len(out), sum(len(v) for v in out.values())))
