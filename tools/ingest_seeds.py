#!/venv/bin/python
"""Verify (in the sub-agent's own scratch worktree) and ingest seeds: ingest_seeds.py <root> <round tag> <Cxx> [...]
<root>/<Cxx>/_seed/<x>/{patch.diff,demo.py,meta.json} -> /verif/seeded/<Cxx>-<tag><x>/"""
import json, os, shutil, subprocess, sys
HERE = os.path.dirname(os.path.dirname(os.path.abspath(__file__)))
root, tag = sys.argv[1], sys.argv[2]
for pid in sys.argv[3:]:
    wt = os.path.join(root, pid)
    sd = os.path.join(wt, '_seed')
    for x in sorted(os.listdir(sd)) if os.path.isdir(sd) else []:
        src = os.path.join(sd, x)
        if not os.path.exists(os.path.join(src, 'patch.diff')):
            continue
        vj = os.path.join(src, 'verify.json')
        subprocess.run(['/venv/bin/python', os.path.join(HERE, 'tools', 'verify_seed.py'), wt, src, vj])
        v = json.load(open(vj))
        if not v.get('confirmed'):
            print('NOT CONFIRMED, skipped:', src, {k: v.get(k) for k in ('demo_clean_exit', 'demo_seeded_exit', 'baseline_missing', 'patch_applies')})
            continue
        dst = os.path.join(HERE, 'seeded', '%s-%s%s' % (pid, tag, x))
        os.makedirs(dst, exist_ok=True)
        for f in ('patch.diff', 'demo.py'):
            shutil.copy(os.path.join(src, f), os.path.join(dst, f))
        m = json.load(open(os.path.join(src, 'meta.json')))
        m['confirmed_by_verifier'] = {'ran': 'tools/verify_seed.py in scratch worktree %s: git apply patch.diff; demo.py; full pytest (baseline 153 stable tests compared); git checkout; demo.py' % wt,
                                      'demo_clean_exit': v['demo_clean_exit'], 'demo_seeded_exit': v['demo_seeded_exit'],
                                      'tests_passed_seeded': v['tests_passed_seeded'], 'baseline_tests_missing': v['baseline_missing'], 'confirmed': True}
        m['origin'] = 'fresh sub-agent (round %s) given only the property text and a scratch worktree' % tag
        json.dump(m, open(os.path.join(dst, 'meta.json'), 'w'), indent=1)
        print('ingested', dst)
