#!/venv/bin/python
"""Verify benign refactorings produced by sub-agents (patch applies to a clean scratch worktree, baseline tests still
pass) and store them under /verif/refactorings/<group><k>/ as behaviour-preserving variants the checks must stay silent on."""
import json, os, shutil, subprocess, sys, xml.etree.ElementTree as ET
HERE = os.path.dirname(os.path.dirname(os.path.abspath(__file__)))
root = sys.argv[1]
base = json.load(open('/root/.vp/BASELINE.json'))['stable_pass']
for g in sys.argv[2:]:
    wt = os.path.join(root, g)
    env = dict(os.environ, PYTHONPATH=wt)
    rd = os.path.join(wt, '_refac')
    for k in sorted(os.listdir(rd)):
        src = os.path.join(rd, k)
        pf = os.path.join(src, 'patch.diff')
        if not (k.isdigit() and os.path.exists(pf)):
            continue
        subprocess.run(['git', 'checkout', '--', 'csep'], cwd=wt)
        a = subprocess.run(['git', 'apply', pf], cwd=wt, capture_output=True, text=True)
        if a.returncode != 0:
            print('patch does not apply', src, a.stderr[:200])
            continue
        jx = os.path.join(wt, '_r_junit.xml')
        subprocess.run(['/venv/bin/python', '-m', 'pytest', '-q', '-p', 'no:cacheprovider', '--timeout=900', '--continue-on-collection-errors',
                        '--junitxml=' + jx], cwd=wt, env=env, capture_output=True)
        ok = set()
        for tc in ET.parse(jx).iter('testcase'):
            if not any(c.tag in ('failure', 'error', 'skipped') for c in tc):
                ok.add(tc.get('classname') + '::' + tc.get('name'))
        os.remove(jx)
        subprocess.run(['git', 'checkout', '--', 'csep'], cwd=wt)
        missing = [b for b in base if b not in ok]
        if missing:
            print('tests broken by', src, missing[:3])
            continue
        dst = os.path.join(HERE, 'refactorings', '%s%s' % (g, k))
        os.makedirs(dst, exist_ok=True)
        shutil.copy(pf, os.path.join(dst, 'patch.diff'))
        m = json.load(open(os.path.join(src, 'meta.json')))
        m['verified'] = {'patch_applies_to': 'scratch worktree at /repo HEAD', 'tests_passed': len(ok), 'baseline_missing': missing}
        m['origin'] = 'fresh sub-agent asked for behaviour-preserving clean-up of pyCSEP (no knowledge of /verif)'
        json.dump(m, open(os.path.join(dst, 'meta.json'), 'w'), indent=1)
        print('ingested', dst, '-', m.get('summary', '')[:90])
