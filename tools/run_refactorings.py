#!/venv/bin/python
"""Run every check against every stored behaviour-preserving refactoring (scratch copies): any exit 1 is a false alarm."""
import io, json, os, shutil, subprocess, sys, tempfile
from concurrent.futures import ProcessPoolExecutor
HERE = os.path.dirname(os.path.dirname(os.path.abspath(__file__)))
sys.path.insert(0, HERE); sys.dont_write_bytecode = True

def work(args):
    name, pids, repo = args
    import importlib.machinery
    chk = importlib.machinery.SourceFileLoader('verif_check', os.path.join(HERE, 'check')).load_module()
    from sa.selftest.mutants import make_copy
    from sa.core.report import load_known
    tmp = tempfile.mkdtemp(prefix='sa-refac-')
    try:
        make_copy(repo, tmp)
        r = subprocess.run(['patch', '-p1', '-s', '-d', tmp, '-i', os.path.join(HERE, 'refactorings', name, 'patch.diff')], capture_output=True, text=True)
        if r.returncode != 0:
            return name, {'error': 'patch failed'}
        out = {}
        for pid in pids:
            code, ck = chk.run_property(pid, 'quick', tmp, write=False, quiet=True, stream=io.StringIO())
            known, _ = load_known(pid)
            out[pid] = {'code': code, 'violations': [(o.key, o.detail[:160]) for o in ck.violations() if o.key not in known][:4],
                        'inconclusive': [(o.key, o.detail[:120]) for o in ck.inconclusive()][:3], 'errors': ck.errors[:2]}
        return name, out
    finally:
        shutil.rmtree(tmp, ignore_errors=True)

def main():
    pids = ['C%02d' % i for i in range(1, 21)]
    names = sorted(d for d in os.listdir(os.path.join(HERE, 'refactorings')) if os.path.isdir(os.path.join(HERE, 'refactorings', d)))
    if len(sys.argv) > 1:
        names = [n for n in names if any(n.startswith(a) for a in sys.argv[1:])]
    res = {}
    with ProcessPoolExecutor(max_workers=16) as ex:
        for name, out in ex.map(work, [(n, pids, '/repo') for n in names]):
            res[name] = out
    fa = inc = 0
    for name in names:
        out = res[name]
        if 'error' in out:
            print(name, 'PATCH ERROR'); continue
        bad = {p: r for p, r in out.items() if r['code'] == 1}
        unk = {p: r for p, r in out.items() if r['code'] == 2}
        if bad:
            fa += 1
            for p, r in bad.items():
                print('%s FALSE ALARM %s: %s' % (name, p, r['violations'][:2]))
        if unk:
            inc += 1
            for p, r in unk.items():
                print('%s inconclusive %s: %s %s' % (name, p, r['inconclusive'][:2], r['errors'][:1]))
        if not bad and not unk:
            print(name, 'silent')
    print('%d refactorings: %d with a false alarm, %d with an inconclusive check' % (len(names), fa, inc))
    json.dump(res, open(os.path.join(HERE, 'refactorings', 'last_run.json'), 'w'), indent=1)

if __name__ == '__main__':
    main()
