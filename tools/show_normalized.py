#!/venv/bin/python
"""Debug aid: apply a patch to a scratch copy of /repo/csep, load it through the normalising pre-pass and print
what was normalised and the source of the named functions as the rules see them.
show_normalized.py <patch.diff> <qualified function> [...]"""
import ast, os, shutil, subprocess, sys, tempfile
HERE = os.path.dirname(os.path.dirname(os.path.abspath(__file__)))
sys.path.insert(0, HERE)
from sa.core.loader import Program
from sa.selftest.mutants import make_copy
tmp = tempfile.mkdtemp(prefix='sa-show-')
try:
    make_copy('/repo', tmp)
    if sys.argv[1] != '-':
        subprocess.run(['patch', '-p1', '-s', '-i', os.path.abspath(sys.argv[1])], cwd=tmp, check=True)
    P = Program(tmp)
    print('normalization:', P.normalization)
    for q in sys.argv[2:]:
        f = P.funcs.get(q)
        print('=' * 20, q, '' if f else '(not found)')
        if f:
            print(ast.unparse(f.node))
finally:
    shutil.rmtree(tmp, ignore_errors=True)
