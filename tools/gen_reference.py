#!/venv/bin/python
"""Write sa/tables/reference.json: the structural fingerprint (alpha-hash, parameter and local names) of every function of
the tree the rules were confirmed on.  sa/core/normalize.py undoes renamings / helper extractions relative to it.
Run only on a tree on which every check was confirmed (after tools/run_all.sh is green)."""
import json, os, sys
HERE = os.path.dirname(os.path.dirname(os.path.abspath(__file__)))
sys.path.insert(0, HERE)
from sa.core import normalize
root = sys.argv[1] if len(sys.argv) > 1 else '/repo'
ref = normalize.build_reference(root)
json.dump(ref, open(normalize.REFERENCE, 'w'), indent=0, sort_keys=True)
print('reference: %d modules, %d functions' % (len(ref), sum(len(v) for v in ref.values())))
