#!/venv/bin/python
"""Run the registered quick checks against every seeded change (scratch copy of /repo/csep with the patch applied;
never /repo itself) and report which checks fire. usage: run_seeds.py [seed-name-prefix ...]"""
import io, json, os, shutil, subprocess, sys, tempfile
from concurrent.futures import ProcessPoolExecutor
HERE = os.path.dirname(os.path.dirname(os.path.abspath(__file__)))
sys.path.insert(0, HERE)
sys.dont_write_bytecode = True

def work(args):
    seed, pids, repo = args
    import importlib.machinery
    chk = importlib.machinery.SourceFileLoader('verif_check', os.path.join(HERE, 'check')).load_module()
    from sa.selftest.mutants import make_copy
    from sa.core.report import load_known
    tmp = tempfile.mkdtemp(prefix='sa-seed-')
    try:
        make_copy(repo, tmp)
        r = subprocess.run(['patch', '-p1', '-s', '-d', tmp, '-i', os.path.join(HERE, 'seeded', seed, 'patch.diff')],
                           capture_output=True, text=True)
        if r.returncode != 0:
            return seed, {'error': 'patch failed: ' + r.stdout + r.stderr}
        out = {}
        for pid in pids:
            buf = io.StringIO()
            try:
                code, ck = chk.run_property(pid, 'quick', tmp, write=False, quiet=True, stream=buf)
            except Exception as e:
                out[pid] = {'code': 'crash %r' % e}
                continue
            known, _ = load_known(pid)
            out[pid] = {'code': code, 'violations': sorted({o.key for o in ck.violations() if o.key not in known}),
                        'errors': ck.errors[:2], 'inconclusive': [o.key for o in ck.inconclusive()][:3]}
        return seed, out
    finally:
        shutil.rmtree(tmp, ignore_errors=True)

def main():
    repo = os.environ.get('PYCSEP_REPO', '/repo')
    man = json.load(open(os.path.join(HERE, 'MANIFEST.json')))
    pids = [c['property_id'] for c in man['checks']]
    have = [p for p in pids if os.path.exists(os.path.join(HERE, 'sa', 'rules', p.lower() + '.py'))]
    # also rule modules not yet in the manifest
    for f in sorted(os.listdir(os.path.join(HERE, 'sa', 'rules'))):
        if f[0] == 'c' and f[1:3].isdigit() and f.endswith('.py') and f[:3].upper() not in have:
            have.append(f[:3].upper())
    seeds = sorted(d for d in os.listdir(os.path.join(HERE, 'seeded')) if os.path.isdir(os.path.join(HERE, 'seeded', d)))
    if len(sys.argv) > 1:
        seeds = [s for s in seeds if any(s.startswith(a) for a in sys.argv[1:])]
    results = {}
    with ProcessPoolExecutor(max_workers=16) as ex:
        for seed, out in ex.map(work, [(s, have, repo) for s in seeds]):
            results[seed] = out
    caught = 0
    for seed in seeds:
        out = results[seed]
        target = seed.split('-')[0]
        if 'error' in out:
            print('%-8s PATCH-ERROR %s' % (seed, out['error'][:200].replace('\n', ' ')))
            continue
        fired = [p for p, r in out.items() if isinstance(r, dict) and r.get('code') == 1]
        own = out.get(target, {})
        status = 'CAUGHT' if fired else ('inconclusive(exit2)' if any(isinstance(r, dict) and r.get('code') == 2 for r in out.values()) else 'MISSED')
        caught += bool(fired)
        status = status + ('' if target in fired or not fired else ' (NOT-BY-OWN)')
        print('%-8s %-20s fired=%s own=%s' % (seed, status, fired, (own.get('violations') or own.get('errors') or own.get('inconclusive') or '')[:2] if isinstance(own, dict) else own))
    print('%d/%d seeds caught by at least one check (checks available: %s)' % (caught, len(seeds), ' '.join(have)))
    json.dump(results, open(os.path.join(HERE, 'seeded', 'last_run.json'), 'w'), indent=1)

if __name__ == '__main__':
    main()
