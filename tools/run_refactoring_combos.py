#!/venv/bin/python
"""Apply random combinations of the stored refactorings (those that apply together) to one scratch copy and run all checks:
a real clean-up commit mixes several of them.  run_refactoring_combos.py [n_combos] [size] [seed]"""
import json, os, random, shutil, subprocess, sys, tempfile
from concurrent.futures import ProcessPoolExecutor
HERE = os.path.dirname(os.path.dirname(os.path.abspath(__file__)))
sys.path.insert(0, HERE)
from sa.selftest.mutants import make_copy
import importlib.machinery
chk = importlib.machinery.SourceFileLoader('verif_check', os.path.join(HERE, 'check')).load_module()
n_combos = int(sys.argv[1]) if len(sys.argv) > 1 else 12
size = int(sys.argv[2]) if len(sys.argv) > 2 else 4
rng = random.Random(int(sys.argv[3]) if len(sys.argv) > 3 else 1)
ids = sorted(d for d in os.listdir(os.path.join(HERE, 'refactorings')) if os.path.exists(os.path.join(HERE, 'refactorings', d, 'patch.diff')))
PIDS = ['C%02d' % i for i in range(1, 21)]


def run_one(args):
    tmp, pid = args
    import io
    buf = io.StringIO()
    code, ck = chk.run_property(pid, 'quick', tmp, write=False, evidence_dir=None, quiet=True, stream=buf)
    known = set()
    from sa.core.report import load_known
    known, _ = load_known(pid)
    viol = [o.key for o in ck.violations() if o.key not in known]
    return pid, code, viol[:2], [str(e)[:150] for e in ck.errors][:1]


bad = 0
for k in range(n_combos):
    tmp = tempfile.mkdtemp(prefix='sa-combo-')
    try:
        make_copy('/repo', tmp)
        picked = []
        for d in rng.sample(ids, len(ids)):
            if len(picked) >= size:
                break
            pf = os.path.join(HERE, 'refactorings', d, 'patch.diff')
            r = subprocess.run(['patch', '-p1', '-s', '--dry-run', '-i', pf], cwd=tmp, capture_output=True)
            if r.returncode == 0:
                subprocess.run(['patch', '-p1', '-s', '-i', pf], cwd=tmp, capture_output=True)
                picked.append(d)
        with ProcessPoolExecutor(max_workers=16) as ex:
            res = list(ex.map(run_one, [(tmp, p) for p in PIDS]))
        alarms = [(p, c, v, e) for p, c, v, e in res if v or c == 2]
        print('combo %2d %-22s %s' % (k, '+'.join(picked), 'silent' if not alarms else 'ALARM ' + str(alarms)[:600]))
        bad += bool(alarms)
    finally:
        shutil.rmtree(tmp, ignore_errors=True)
print('%d combos, %d with an alarm' % (n_combos, bad))
