#!/venv/bin/python
"""Prompt for a fresh sub-agent that writes breaking changes ("seeds") for one property: seed_prompt.py <Cxx> <worktree> [hint-id]
The agent gets the property text and its scratch worktree only - nothing from /verif."""
import json, os, sys
HERE = os.path.dirname(os.path.dirname(os.path.abspath(__file__)))
pid, wt = sys.argv[1], sys.argv[2]
hint_id = sys.argv[3] if len(sys.argv) > 3 else '3'
HINTS = {
    '2': 'Be subtle: prefer interactions between two individually harmless edits, well-meant optimisations (caches, vectorisation, early exits), '
         'changed defaults, and changes in helper functions the anchored functions rely on.',
    '3': 'Look AWAY from the central function named first in the anchors: change callers, wrappers, alternative entry points, sibling '
         'implementations, default arguments, error handling, dtype/shape handling, or code that only runs for one of the configurations listed in '
         'the quantifier (e.g. the other grid type, the file-backed variant, the empty case, the second call). Boundary conditions and '
         'off-by-one conditions on rarely exercised branches are welcome. Each of the three seeds must sit in a different function.',
    '4': 'Aim at details that a reviewer skims over: a numerical constant or tolerance, an off-by-one in a count / index / degrees of '
         'freedom, two arguments of the same type exchanged, integer versus true division, a copy replaced by a view (or the reverse), a '
         'value cached or computed once where it must follow later changes, a default parameter value, the order of two operations that '
         'only matters for one configuration of the quantifier, an exception that is caught too broadly or converted into a default value. '
         'Each of the three seeds must sit in a different function and use a different one of these mechanisms.',
    '5': 'Use ordinary Python / numpy slips that keep the shape of the code: a falsy test (`if not x:` / `x or default`) replacing `is None` '
         'so that 0, 0.0 or an empty array is treated as missing; a mutable default argument or a class-level attribute shared between '
         'instances; returning or storing an alias / view of an internal array that a later call or the caller mutates; dtype narrowing '
         '(float32, int32) or integer arithmetic where floats are needed; a wrong `axis`, `keepdims` or broadcasting slip that only shows for '
         'non-square or single-row data; strict versus non-strict comparison; a slice end off by one; `and`/`or` precedence; a similar but '
         'different variable (observed versus forecast count, start versus end); state that leaks from one call, catalog or iteration to the '
         'next; a change in `__init__`, a property setter, `__eq__` or a copy method that the anchored functions rely on. Each of the three '
         'seeds must sit in a different function and use a different one of these mechanisms; prefer functions that are NOT named in the anchors '
         'but are on the path from the public API to them.',
    '6': 'Make the break need something SPECIFIC to manifest. Use three different ones of these four kinds: (i) TWO cooperating edits in '
         'different functions (preferably different files) that each look harmless alone - a helper that changes its return convention or '
         'units slightly and a caller that is adapted almost everywhere, a default changed in one place and relied on in another, an '
         'axis / ordering / naming convention changed consistently in the writer but not in one of the readers; (ii) a multi-step history - '
         'the second call, a call after an exception was raised and caught, an object reused after it was passed to another API, operations '
         'in an unusual but legal order; (iii) an exception or early exit at a particular point that leaves object state half-updated so '
         'that the NEXT operation misbehaves; (iv) an unusual but legal input of the quantifier - a single element, all-equal values, a value '
         'exactly on a boundary, negative zero, very large or very small numbers, ids / strings with unusual characters, arrays that are '
         'views, non-contiguous, of another dtype, or plain Python lists. At least one of the three seeds must be of kind (i). Each seed must '
         'sit in different functions from the others.',
    '7': 'Replace a construct by a NEAR-EQUIVALENT library call or idiom whose behaviour differs only in a corner, and present it as a '
         'simplification or modernisation. Families to choose from (each of the three seeds must use a different one): numpy.histogram / '
         'digitize / searchsorted in place of the package\'s own binning kernel (or the reverse); numpy.unique / sorted / set where the order '
         'of first appearance matters; argsort / sort with a non-stable kind, or sorting by a key with ties; Python round() (banker\'s '
         'rounding) versus numpy.round versus int(x + 0.5); // or int() versus floor for negative numbers; == on floats versus isclose with '
         'a tolerance; any() / all() / max() / min() / mean() on empty arrays; numpy.sum / cumsum with dtype=, initial= or where=; boolean '
         'masks versus integer index arrays (duplicates, negative indices, empty selections); x[idx] = v versus numpy.put / add.at; len(x) '
         'versus x.size versus x.shape[0] for 2-D or 0-d arrays; dict.get(k, default) or getattr(o, a, default) hiding a missing entry; a '
         'try/except broadened to Exception (or narrowed); zip() truncating the longer argument; integer overflow or truncation in int32 / '
         'float epoch arithmetic; datetime arithmetic through floats (total_seconds, timestamp) instead of timedeltas; string parsing or '
         'formatting assumptions (split() versus split(\',\'), %d versus %02d, strip() eating significant characters, case folding); '
         'numpy.where with one versus three arguments; in-place operators (+=, *=) on arrays that alias an input; list multiplication '
         'creating shared rows. Prefer functions on the path between the public API and the anchors that have no direct unit test.',
    '8': 'Aim at the DEGENERATE MEMBERS of the quantifier, the ones the property explicitly includes but ordinary use rarely meets: an empty '
         'catalog, a single event, a single cell or a single row / column of cells, a single magnitude bin, one synthetic catalog, one '
         'simulation, a forecast whose rates are all zero in some row or column, all events in one bin, the first and the last bin / cell / '
         'record, a value exactly on the first or last edge, a scale factor of 1 or of 0, seed 0, catalog id 0, a file with one record or '
         'one line, a region with one polygon, zero-length selections after filtering. Make changes that are right for every ordinary member '
         'and wrong only for one such degenerate member: a shortcut or vectorisation that is valid for n >= 2; numpy.squeeze / ravel / '
         'atleast_1d / [0] / [-1] / keepdims handling that collapses or mis-shapes a length-1 or length-0 axis; an off-by-one that only '
         'matters for the last element; a division or logarithm that is only wrong when a count is zero; `if x:` on an array or number that '
         'may be 0 or empty; min / max / mean / diff / percentile of fewer than two values; range(len(x) - 1) loops; slices x[1:] / x[:-1] that '
         'become empty; broadcasting that silently works differently when a dimension is 1. Each of the three seeds must break for a '
         'DIFFERENT degenerate member, and ordinary inputs (several events, several cells, several bins) must keep working exactly.',
    '9': 'Aim at CONFUSIONS BETWEEN THINGS OF THE SAME TYPE, which no interpreter and no type checker can see: two arguments of the same '
         'type exchanged at a call site or in a signature (longitude / latitude, start / end, forecast / benchmark, observed / simulated, '
         'row / column, minimum / maximum, numerator / denominator); the components of a tuple or the values of a dict returned, unpacked '
         'or indexed in another order than the other side expects; an axis or a column number exchanged for its neighbour; one of two '
         'similar attributes, methods or helpers used for the other (the scaled versus the stored rates, the spatial versus the '
         'space-magnitude counts, the filtered versus the unfiltered catalog, the epoch versus the datetime, midpoints versus origins, '
         'edges versus centres, the inclusive versus the exclusive tail); a unit or scale silently changed (milliseconds / seconds, days / '
         'years, degrees / radians, natural / decimal logarithm, counts / rates, probability / percent); a sign or direction reversed '
         '(ascending / descending, a - b for b - a, <= for >=) in a place where the usual symmetric test data cannot tell. Prefer sites '
         'where both variants give plausible numbers and the existing tests use symmetric or square inputs (equal numbers of rows and '
         'columns, lon == lat, identical forecasts, a single magnitude bin) that hide the exchange. The three seeds must be three '
         'different kinds of confusion in three different functions.',
    '10': 'Aim at the EXCEPTIONAL AND FALLBACK PATHS of the code: an `except` clause broadened (bare / Exception) so that it also swallows the '
          'error that signals a real violation, or narrowed so that the documented fallback is no longer reached; an error turned into a '
          'default value, a warning or a silently skipped record; the wrong exception type raised, so that the handler one or two frames up '
          '(which decides between "reject", "not-valid" and "retry another format") takes the other branch; a `try` block extended over one '
          'more statement whose failure now triggers the fallback; the order of a check and the side effect it protects exchanged; a '
          '`finally` / cleanup / reset that no longer runs on the error path; a fallback branch (second time format, second reader, '
          'default bins, default region, `.get(key, default)`) that silently computes with something else than what the caller supplied; '
          'validation moved after the point where the invalid value was already used or stored. The ordinary, error-free path must stay '
          'exactly as it is; the three seeds must use three different mechanisms of this family in three different functions.',
}
prop = None
for line in open(os.path.join(HERE, 'properties.jsonl')):
    d = json.loads(line)
    if d['id'] == pid:
        prop = d
text = json.dumps({k: prop[k] for k in ('id', 'title', 'statement', 'quantifier', 'why_tests_cant', 'anchors')}, indent=1)
print(f'''You are working in a scratch git worktree of the pyCSEP repository at {wt} (a detached checkout). Work ONLY inside {wt}: do not touch /repo, /verif or any other directory, do NOT use `git stash`, never commit anything.

Environment: use /venv/bin/python. The package `csep` is installed in /venv pointing at another checkout, so ALWAYS run python with PYTHONPATH={wt} so that YOUR worktree's csep is imported (verify once: `PYTHONPATH={wt} /venv/bin/python -c "import csep; print(csep.__file__)"` must print a path under {wt}). Test suite: `cd {wt} && PYTHONPATH={wt} /venv/bin/python -m pytest -q -p no:cacheprovider --timeout=900 --continue-on-collection-errors`; on the clean tree 154 tests pass, 8 fail and 3 error (those 11 need network data and are expected). pytest may print "Segmentation fault" at interpreter exit after the summary line; that is harmless. There is no network.

Here is a semantic property the code base is supposed to satisfy:

{text}

Task: produce THREE different realistic changes ("seeds") to the source under {wt}/csep/ that each BREAK this property for some input inside its quantifier, while
 (1) the package still imports,
 (2) exactly the same set of tests passes as on the clean tree (the existing tests must not notice),
 (3) the change looks like something a well-meaning developer could commit (an optimisation, a refactoring, a "fix", a new default, a portability tweak) - not sabotage, no dead code, no special-casing of magic values.
{HINTS[hint_id]}
The three seeds must differ from each other in mechanism and location.

For each seed x in a, b, c create the directory {wt}/_seed/x/ with
 - patch.diff : output of `git diff` against the clean checkout (must apply with `git apply` to the clean checkout),
 - demo.py    : standalone script, run as `PYTHONPATH={wt} /venv/bin/python demo.py`; it must go through the public API named under anchors.observe_at, exit 0 on the clean tree and exit 1 with the seed applied, and print what differs,
 - meta.json  : {{"property": "{pid}", "summary": "<one paragraph: what was changed>", "needs": "<the input / configuration / call sequence needed to expose it>", "files": [...], "tests_passed_clean": n, "tests_passed_seeded": n}}.
Verify each seed yourself: apply it, run demo.py (expect exit 1), run the full test suite (same passing set as clean), revert with `git checkout -- csep` (only the untracked _seed/ directory may remain), run demo.py again (expect exit 0).

When done, report the three seeds briefly (what, where, which input exposes it, the numbers). Separately list any input for which the CLEAN checkout already violates the property (with the exact call), if you came across one - do not use those as seeds.''')
