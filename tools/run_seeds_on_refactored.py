#!/venv/bin/python
"""A seeded change must still be reported when the tree around it was refactored: for each seed apply it together with a few random
stored refactorings (those that still apply) to a scratch copy and run the seed's own check.  [n_refactorings] [seed] [prefix…]"""
import io, json, os, random, shutil, subprocess, sys, tempfile
from concurrent.futures import ProcessPoolExecutor
HERE = os.path.dirname(os.path.dirname(os.path.abspath(__file__)))
sys.path.insert(0, HERE)
from sa.selftest.mutants import make_copy
import importlib.machinery
nref = int(sys.argv[1]) if len(sys.argv) > 1 else 3
rseed = int(sys.argv[2]) if len(sys.argv) > 2 else 1
prefixes = sys.argv[3:]
rids = sorted(d for d in os.listdir(os.path.join(HERE, 'refactorings')) if os.path.exists(os.path.join(HERE, 'refactorings', d, 'patch.diff')))
sids = sorted(d for d in os.listdir(os.path.join(HERE, 'seeded')) if os.path.exists(os.path.join(HERE, 'seeded', d, 'patch.diff'))
              and (not prefixes or any(d.startswith(p) for p in prefixes)))


def run(sid):
    chk = importlib.machinery.SourceFileLoader('verif_check', os.path.join(HERE, 'check')).load_module()
    rng = random.Random(hash((sid, rseed)) & 0xffffffff)
    tmp = tempfile.mkdtemp(prefix='sa-sr-')
    try:
        make_copy('/repo', tmp)
        r = subprocess.run(['patch', '-p1', '-s', '-i', os.path.join(HERE, 'seeded', sid, 'patch.diff')], cwd=tmp, capture_output=True)
        if r.returncode != 0:
            return sid, [], None, 'seed does not apply'
        picked = []
        files_of = lambda pf: {l[6:].strip() for l in open(pf) if l.startswith('+++ b/')}
        sfiles = files_of(os.path.join(HERE, 'seeded', sid, 'patch.diff'))
        order = rng.sample(rids, len(rids))
        # refactorings of the seed's own files first: they are the ones that can hide it
        order.sort(key=lambda d: 0 if files_of(os.path.join(HERE, 'refactorings', d, 'patch.diff')) & sfiles else 1)
        for d in order:
            if len(picked) >= nref:
                break
            pf = os.path.join(HERE, 'refactorings', d, 'patch.diff')
            if subprocess.run(['patch', '-p1', '-s', '--dry-run', '-i', pf], cwd=tmp, capture_output=True).returncode == 0:
                subprocess.run(['patch', '-p1', '-s', '-i', pf], cwd=tmp, capture_output=True)
                picked.append(d)
        pid = sid.split('-')[0]
        code, ck = chk.run_property(pid, 'quick', tmp, write=False, quiet=True, stream=io.StringIO())
        from sa.core.report import load_known
        known, _ = load_known(pid)
        viol = sorted({o.key for o in ck.violations() if o.key not in known})
        return sid, picked, code, viol[:2]
    finally:
        shutil.rmtree(tmp, ignore_errors=True)


if __name__ == '__main__':
    bad = 0
    with ProcessPoolExecutor(max_workers=16) as ex:
        for sid, picked, code, viol in ex.map(run, sids):
            ok = code == 1 and viol
            if not ok:
                bad += 1
                print('%-8s + %-20s NOT REPORTED (exit %s) %s' % (sid, '+'.join(picked), code, viol))
    print('%d seeds on refactored trees, %d not reported by their own check' % (len(sids), bad))
