"""C04 - catalog filtering keeps exactly the events that satisfy every statement."""
import ast

from ..core import sym
from ..core.expand import u, call_name, get_arg, bind_args, Expander, is_marker, phi_alternatives
from ..core.loader import Inconclusive, const_value, parents
from .common import (holds_on_every_path, returns, all_nodes, callee, strip_shape, calls_in, guards_of, stmt_of, loops_around, kw,
                     find_assignments, in_loop, dict_literal_items)

EXPLANATION = (
    "Decided: D1 the operator table is exactly {'>':gt,'<':lt,'>=':ge,'<=':le,'==':eq} and is applied as "
    "operators[op](<column>, float(<value>)) with the column on the left, the statement split into (name, op, value) "
    "in that order; D2 conjunction by narrowing: in the list branch each mask is computed from the array it indexes, "
    "the narrowed array starts as the full event array and the loop visits the whole statement list (no slice, break "
    "or early return); D3 a `datetime` statement is rewritten to the origin_time column with the value from "
    "strptime_to_utc_epoch, which composes the string parser with the exact datetime->epoch-ms conversion (shared "
    "C15-D1/D3); D4 filter / filter_spatial never mutate event storage in place, with in_place=False no self.catalog "
    "is assigned and the new instance is built from the filtered rows with the source's id, region and name; D5 "
    "filter_spatial keeps ~mask of region.get_masked(lons, lats); D6 load_catalog(apply_filters=True) applies "
    "filter() then filter_spatial(); D7 every returning path of filter has applied the statements (no path returns "
    "before the mask is computed and stored). NOT decided: float(value) parsing, equality on floats.")
CLAUSES = {'D1': 'operator table and application', 'D2': 'narrowing', 'D3': 'datetime statements', 'D4': 'no in-place mutation',
           'D5': 'spatial complement', 'D6': 'load_catalog order', 'D7': 'no path skips the filtering'}
TRUSTED = ['CPython ast', 'operator module semantics', 'numpy boolean-mask indexing returns a new array, preserving order']
A = 'csep.core.catalogs.AbstractBaseCatalog.'
ROOTS = [A + 'filter', A + 'filter_spatial', 'csep.load_catalog']
TECHNIQUE = 'static analysis: table rule, def-use of the narrowed array, effect (write-set) analysis, CFG definite-assignment on return paths'

WANT_OPS = {'>': 'operator.gt', '<': 'operator.lt', '>=': 'operator.ge', '<=': 'operator.le', '==': 'operator.eq'}


def _table_name(P, f):
    """name of the operator table used by filter(): the local dict or the module constant holding the operator.* functions"""
    for n in all_nodes(f):
        if isinstance(n, ast.Assign) and isinstance(n.value, ast.Dict) and isinstance(n.targets[0], ast.Name) \
                and any(isinstance(v, (ast.Attribute, ast.Name)) and (P.canon(f, v) or '').startswith('operator.') for v in n.value.values):
            return n.targets[0].id
    used = {n.id for n in all_nodes(f) if isinstance(n, ast.Name)}
    for nm, val in f.module.assigns.items():
        if nm in used and isinstance(val, ast.Dict) and any(isinstance(v, (ast.Attribute, ast.Name)) and (P.canon(f.module, v) or '').startswith('operator.')
                                                             for v in val.values):
            return nm
    return 'operators'


def _scopes(P, f):
    """the function and the helper functions defined inside it"""
    pre = f.qualname + '.<locals>.'
    return [f] + [g for q, g in sorted(P.funcs.items()) if q.startswith(pre)]


def rule_operators(ck):
    P = ck.prog
    ck.clause('D1')
    f = P.func(A + 'filter')
    tabs = [n for n in all_nodes(f) if isinstance(n, ast.Assign) and isinstance(n.value, ast.Dict) and isinstance(n.targets[0], ast.Name)
            and any(isinstance(v, (ast.Attribute, ast.Name)) and (P.canon(f, v) or '').startswith('operator.') for v in n.value.values)]
    if not tabs:
        # the table as a module-level constant used by filter()
        used = {n.id for n in all_nodes(f) if isinstance(n, ast.Name)}
        for nm, val in f.module.assigns.items():
            if nm in used and isinstance(val, ast.Dict) and any(isinstance(v, (ast.Attribute, ast.Name)) and (P.canon(f.module, v) or '').startswith('operator.')
                                                                 for v in val.values):
                tabs.append(ast.Assign(targets=[ast.Name(id=nm, ctx=ast.Store())], value=val, lineno=val.lineno, col_offset=0))
    o = ck.ob('C04-D1.table', f, tabs[0].value if tabs else 'operator table', tabs[0] if tabs else f.node)
    if len(tabs) != 1:
        o.fail('cannot find the single operator table of filter()')
        return
    tname = tabs[0].targets[0].id
    got = {k: (P.canon(f, v) or P.canon(f.module, v)) for k, v in dict_literal_items(tabs[0].value)}
    if got == WANT_OPS:
        o.ok('five operators, each mapped to its operator.* function')
    else:
        diff = ['%r -> %s (expected %s)' % (k, got.get(k), WANT_OPS.get(k)) for k in sorted(set(got) | set(WANT_OPS), key=str) if got.get(k) != WANT_OPS.get(k)]
        o.fail('operator table differs: ' + '; '.join(diff))
    # application sites
    apps = [n for n in all_nodes(f) if isinstance(n, ast.Call) and isinstance(n.func, ast.Subscript) and isinstance(n.func.value, ast.Name)
            and n.func.value.id == tname]
    ck.extra['operator_applications'] = len(apps)
    if len(apps) < 2:
        ck.ob('C04-D1.apply', f, 'operator application', f.node).fail('the operator table is applied at %d site(s); the single-statement and the list branch each need one' % len(apps))
    ex = Expander(P, f)
    for a in apps:
        o = ck.ob('C04-D1.apply', f, a, a)
        probs = []
        if len(a.args) != 2:
            probs.append('not a binary application')
        else:
            col, val = a.args
            if not (isinstance(col, ast.Subscript) and isinstance(col.slice, ast.Name)):
                probs.append('left operand `%s` is not an event column' % u(col))
            if not (isinstance(val, ast.Call) and P.canon(f, val.func) == 'builtins.float' and len(val.args) == 1):
                probs.append('the threshold is `%s`; it must be float(<value>) on the right-hand side (an int() truncates, a swap '
                             'reverses the comparison)' % u(val))
            if isinstance(col, ast.Subscript) and isinstance(val, ast.Call) and any(isinstance(x, ast.Subscript) for x in ast.walk(val)):
                probs.append('operands swapped')
        op = a.func.slice
        if not isinstance(op, ast.Name):
            probs.append('operator key is `%s`' % u(op))
        (o.fail('; '.join(probs)) if probs else o.ok('operators[op](column, float(value))'))
    # statement split order
    for g_, n in [(g_, n) for g_ in _scopes(P, f) for n in all_nodes(g_)]:
        if isinstance(n, ast.Assign) and isinstance(n.targets[0], ast.Tuple) and isinstance(n.value, ast.Call) \
                and isinstance(n.value.func, ast.Attribute) and n.value.func.attr == 'split':
            names = [e.id if isinstance(e, ast.Name) else '_' for e in n.targets[0].elts]
            o = ck.ob('C04-D1.split', g_, n, n)
            if len(names) == 3:
                ok = names[1] == apps[0].func.slice.id if apps and isinstance(apps[0].func.slice, ast.Name) else True
                (o.ok('(name, op, value)') if ok and names[0] == 'name' else o.fail('statement is split as %s, expected (name, operator, value)' % names))
            elif len(names) == 4:
                (o.ok('(_, op, date, time)') if names[1] == (apps[0].func.slice.id if apps else names[1]) else o.fail('datetime statement split as %s' % names))
            else:
                o.unknown('split into %d parts' % len(names))


def rule_narrowing(ck):
    P = ck.prog
    ck.clause('D2')
    f = P.func(A + 'filter')
    loops = [n for n in all_nodes(f) if isinstance(n, ast.For)]
    o = ck.ob('C04-D2.loop', f, loops[0] if loops else 'loop over statements', loops[0] if loops else f.node)
    if len(loops) != 1:
        o.fail('expected one loop over the statement list, found %d' % len(loops))
        return
    lp = loops[0]
    ex = Expander(P, f)
    it = ex.expand(lp.iter)
    s = strip_shape(it)
    base = s.args[0] if isinstance(s, ast.Call) and call_name(s) in ('builtins.list', 'builtins.tuple') and s.args else s
    okiter = isinstance(base, ast.Name) or is_marker(base, '__phi__') or (isinstance(base, ast.Attribute) and base.attr == 'filters')
    if isinstance(base, ast.Subscript):
        okiter = False
    bad_ctl = [n for n in ast.walk(lp) if isinstance(n, (ast.Break, ast.Return))]
    if not okiter:
        o.fail('the loop iterates over `%s`, not over the whole statement list' % u(lp.iter))
    elif bad_ctl:
        o.fail('the loop over the statements can stop early (%s): later statements would not be applied' % type(bad_ctl[0]).__name__.lower())
    else:
        o.ok('visits every statement')
    # each narrowing step: V = V[ops[..](V[name], ...)]
    def _app(x):
        return [c for c in ast.walk(x) if isinstance(c, ast.Call) and isinstance(c.func, ast.Subscript) and u(c.func.value) == _table_name(P, f)]
    steps = [n for n in ast.walk(lp) if isinstance(n, ast.Assign) and isinstance(n.value, ast.Subscript) and _app(n.value.slice)]
    if not steps:
        ck.ob('C04-D2.step', f, 'narrowing step', lp).fail('the loop does not narrow the event array')
    for st in steps:
        o = ck.ob('C04-D2.step', f, st, st)
        tgt = st.targets[0]
        src = st.value.value
        mask_cols = [a.value for c in _app(st.value.slice) for a in c.args if isinstance(a, ast.Subscript)]
        names = {u(tgt), u(src)} | {u(m) for m in mask_cols}
        if len(names) == 1:
            o.ok('%s = %s[mask(%s)]' % (u(tgt), u(src), u(src)))
        else:
            o.fail('the mask is computed from `%s` but applied to `%s` (assigned to `%s`): after the first narrowing the arrays '
                   'differ in length/alignment, or earlier statements are forgotten' % (', '.join(sorted(u(m) for m in mask_cols)), u(src), u(tgt)))
    # initial value
    if steps and isinstance(steps[0].targets[0], ast.Name):
        v = steps[0].targets[0].id
        inits = [a for a in find_assignments(f, v) if in_loop(a, f.node) is None and isinstance(a, ast.Assign)
                 and any(isinstance(g[0], ast.Call) and 'isinstance' in u(g[0]) and ('list' in u(g[0])) for g in guards_of(a, f.node))]
        o = ck.ob('C04-D2.init', f, inits[0] if inits else 'initial array', inits[0] if inits else lp)
        if len(inits) != 1:
            o.unknown('cannot find the initialisation of `%s`' % v)
        else:
            e = strip_shape(ex.expand(inits[0].value))
            good = isinstance(e, ast.Attribute) and e.attr in ('catalog', '_catalog', 'data') and u(e.value) == 'self'
            (o.ok('starts from all events') if good else o.fail('the narrowed array starts as `%s`, not as the full event array' % u(inits[0].value)))


def rule_datetime(ck):
    P = ck.prog
    ck.clause('D3')
    f = P.func(A + 'filter')
    ex = Expander(P, f)
    scopes = _scopes(P, f)
    branches = [(g, n) for g in scopes for n in all_nodes(g) if isinstance(n, ast.If) and isinstance(n.test, ast.Compare)
                and const_value(n.test.comparators[0]) == 'datetime']
    o = ck.ob('C04-D3.branches', f, 'datetime handled in the single-statement and in the list branch', f.node)
    # every kind of application site (the single statement, and the loop over a list) must be able to see the rewritten
    # column: the column name reaching it has the constant 'origin_time' among its alternatives
    exi = Expander(P, f, inline_depth=1)
    kinds = {}
    for a in [n for n in all_nodes(f) if isinstance(n, ast.Call) and isinstance(n.func, ast.Subscript) and u(n.func.value) == _table_name(P, f)]:
        col = a.args[0] if a.args else None
        sees = False
        if isinstance(col, ast.Subscript):
            e = exi.expand(col.slice)
            sees = any(isinstance(x, ast.Constant) and x.value == 'origin_time' for x in ast.walk(e))
        k = 'list' if in_loop(a, f.node) is not None else 'single'
        kinds[k] = kinds.get(k, False) or sees
    missing = [k for k in ('single', 'list') if not kinds.get(k)]
    (o.ok('both application kinds reach the origin_time rewrite') if branches and not missing else
     o.fail('datetime statements are not rewritten to origin_time for the %s statement form (handled in %d place(s))'
            % (' and the '.join(missing) or '?', len(branches))))
    for f, b in branches:
        oo = ck.ob('C04-D3.rewrite', f, b.test, b)
        # `if name != 'datetime': <plain> else: <rewrite>` is the same branch with its arms swapped
        arm = b.orelse if (len(b.test.ops) == 1 and isinstance(b.test.ops[0], (ast.NotEq, ast.IsNot))) else b.body
        b = ast.If(test=b.test, body=arm, orelse=[])
        names = [a for a in b.body if isinstance(a, ast.Assign) and isinstance(a.targets[0], ast.Name) and a.targets[0].id == 'name']
        vals = [a for a in b.body if isinstance(a, ast.Assign) and isinstance(a.targets[0], ast.Name) and a.targets[0].id == 'value']
        probs = []
        if not (names and const_value(names[0].value) == 'origin_time'):
            probs.append('the column is not rewritten to origin_time')
        if not (vals and isinstance(vals[0].value, ast.Call) and P.canon(f, vals[0].value.func) == 'csep.utils.time_utils.strptime_to_utc_epoch'):
            probs.append('the instant is not converted with strptime_to_utc_epoch (epoch milliseconds)')
        else:
            a = vals[0].value.args[0] if vals[0].value.args else None
            if not (isinstance(a, ast.Call) and isinstance(a.func, ast.Attribute) and a.func.attr == 'join' and const_value(a.func.value) == ' '
                    and isinstance(a.args[0], ast.List) and [u(x) for x in a.args[0].elts] == ['date', 'time']):
                probs.append('the time string is `%s`, expected " ".join([date, time])' % (u(a) if a is not None else '?'))
        (oo.fail('; '.join(probs)) if probs else oo.ok('origin_time <op> strptime_to_utc_epoch(date time)'))
    from . import c15
    c15.rule_exact(ck, only=('strptime_to_utc_epoch', 'datetime_to_utc_epoch', 'strptime_to_utc_datetime'))
    c15.rule_formats(ck)


def rule_effects(ck):
    P = ck.prog
    ck.clause('D4')
    for q in ('filter', 'filter_spatial'):
        f = P.func(A + q)
        ex = Expander(P, f)
        # aliases of self.catalog
        aliases = {'self.catalog', 'self._catalog', 'self.data'}
        for n in all_nodes(f):
            if isinstance(n, ast.Assign) and isinstance(n.targets[0], ast.Name) and u(n.value) in aliases:
                aliases.add(n.targets[0].id)
        bad = []
        for n in all_nodes(f):
            if isinstance(n, (ast.Assign, ast.AugAssign)):
                tg = n.targets if isinstance(n, ast.Assign) else [n.target]
                for t in tg:
                    if isinstance(t, ast.Subscript) and u(t.value) in aliases:
                        bad.append(n)
                    if isinstance(n, ast.AugAssign) and u(t) in aliases:
                        bad.append(n)
            if isinstance(n, ast.Call) and isinstance(n.func, ast.Attribute) and n.func.attr in ('sort', 'fill', 'resize', 'put', 'itemset', 'partition') \
                    and u(n.func.value) in aliases:
                bad.append(n)
            if isinstance(n, ast.Call) and any(k.arg == 'out' and u(k.value) in aliases for k in n.keywords):
                bad.append(n)
        o = ck.ob('C04-D4.inplace', f, 'no in-place write to event storage', f.node)
        (o.fail('`%s` writes into the catalog\'s event array in place: the source catalog (and any catalog sharing the array) is '
                'modified even with in_place=False' % u(bad[0])[:80]) if bad else o.ok('write set does not include self.catalog[...]'))
        # self.catalog = ... only under in_place
        for a in find_assignments(f, 'self.catalog'):
            o = ck.ob('C04-D4.assign', f, a, a)
            g = guards_of(a, f.node)
            ok = holds_on_every_path(a, 'in_place', f.node)
            val_ok = isinstance(a.value, ast.Name) and a.value.id == 'filtered'
            if not ok:
                o.fail('self.catalog is assigned outside the in_place branch: with in_place=False the original catalog changes')
            elif not val_ok:
                o.fail('self.catalog is assigned `%s`, not the filtered events' % u(a.value))
            else:
                o.ok('only when in_place')
        # the new instance
        for r in returns(f):
            if r.value is None or u(r.value) == 'self':
                continue
            e = r.value
            if isinstance(e, ast.Name):
                defs = [a for a in find_assignments(f, e.id) if isinstance(a, ast.Assign)]
                e = defs[-1].value if defs else e
            o = ck.ob('C04-D4.newinst', f, r.value, r)
            if isinstance(e, ast.Call):
                kws = {k.arg: k.value for k in e.keywords}
                probs = []
                if u(kws.get('data', ast.Constant(None))) not in ('filtered',) and 'filtered' not in u(kws.get('data', ast.Constant(None))):
                    d = kws.get('data')
                    if not (d is not None and _derives_from_filtered(f, d)):
                        probs.append('data=%s is not the filtered events' % (u(d) if d is not None else 'missing'))
                for fld in ('catalog_id', 'region', 'name'):
                    if u(kws.get(fld, ast.Constant(None))) != 'self.' + fld:
                        probs.append('%s is not carried over' % fld)
                if 'self.__class__' not in u(ex.expand(e.func)):
                    probs.append('the instance is not of the source\'s class')
                (o.fail('; '.join(probs)) if probs else o.ok('cls(data=filtered, catalog_id/region/name of the source)'))
            else:
                o.unknown('returns `%s`' % u(r.value))


def _derives_from_filtered(f, d):
    return 'filtered' in {n.id for n in ast.walk(d) if isinstance(n, ast.Name)}


def rule_spatial(ck):
    P = ck.prog
    ck.clause('D5')
    f = P.func(A + 'filter_spatial')
    ex = Expander(P, f)
    fs = find_assignments(f, 'filtered')
    o = ck.ob('C04-D5.complement', f, fs[0] if fs else 'filtered', fs[0] if fs else f.node)
    if len(fs) != 1:
        o.fail('filtered events are assigned %d times' % len(fs))
        return
    e = ex.expand(fs[0].value)
    good = False
    why = 'filtered is `%s`' % u(fs[0].value)
    if isinstance(e, ast.Subscript) and u(strip_shape(e.value)) in ('self.catalog', 'self._catalog'):
        sl = e.slice
        neg = False
        while isinstance(sl, ast.UnaryOp) and isinstance(sl.op, (ast.Invert, ast.Not)):
            neg = not neg
            sl = sl.operand
        if isinstance(sl, ast.Call) and call_name(sl) == 'numpy.logical_not' and sl.args:
            neg = not neg
            sl = sl.args[0]
        if isinstance(sl, ast.Call) and call_name(sl) == '.get_masked' and 'region' in u(sl.func.value):
            args = [u(a) for a in sl.args]
            if not neg:
                why = 'the events for which region.get_masked is True (outside the region) are kept: the complement ~mask must be taken'
            elif len(args) == 2 and 'get_longitudes' in args[0] and 'get_latitudes' in args[1]:
                good = True
            else:
                why = 'get_masked is called with (%s); expected (longitudes, latitudes)' % ', '.join(args)
        else:
            why = 'the index `%s` is not the complement of region.get_masked(lons, lats)' % u(e.slice)[:80]
    (o.ok('self.catalog[~region.get_masked(lons, lats)]') if good else o.fail(why))


def rule_refusals(ck):
    """D6.refusal: load_catalog(apply_filters=True) answers CSEPCatalogException from filter_spatial by applying the statements only - that
    exception therefore means "the catalog has no region" and nothing else.  filter_spatial raises it under a test of the region alone,
    never from a handler that relabels another error (a region class without get_masked, a defect inside the masking); and from_dict stores a
    region only when it rebuilt one - it does not overwrite the region the caller supplied with None"""
    P = ck.prog
    ck.clause('D6')
    f = P.func(A + 'filter_spatial')
    o = ck.ob('C04-D6.refusal', f, '"no region" is raised for a missing region only', f.node)
    relabel = [h for h in all_nodes(f) if isinstance(h, ast.ExceptHandler) and any(
        isinstance(r_, ast.Raise) and r_.exc is not None and 'CSEPCatalogException' in u(r_.exc) for s_ in h.body for r_ in ast.walk(s_))]
    (o.fail('`except %s` in filter_spatial raises CSEPCatalogException: any such error during the masking is then reported as "no region", and '
            'load_catalog(apply_filters=True) silently skips the spatial filter' % (u(relabel[0].type) if relabel[0].type is not None else ''))
     if relabel else o.ok())
    g = P.func(A + 'from_dict')
    o = ck.ob('C04-D6.keepregion', g, 'from_dict never stores None as the region', g.node)
    bad = []
    for n in all_nodes(g):
        if isinstance(n, ast.Call) and u(n.func) == 'setattr' and len(n.args) == 3 and const_value(n.args[2]) is None \
                and (const_value(n.args[1]) == 'region' or not isinstance(n.args[1], ast.Constant)):
            bad.append(n)
        if isinstance(n, ast.Assign) and isinstance(n.targets[0], ast.Attribute) and n.targets[0].attr == 'region' and const_value(n.value) is None:
            bad.append(n)
    (o.fail('`%s` in from_dict: a dictionary without a region erases the region handed in as a keyword, the spatial filter of '
            'load_catalog(region=..., apply_filters=True) then has nothing to filter with and is skipped' % u(bad[0])[:60]) if bad else o.ok())


def rule_region_interface(ck):
    """the spatial filter works for every kind of region a catalog can be bound to: each region class of the package offers the
    methods filter_spatial calls on `self.region` (sibling implementations of one interface)"""
    P = ck.prog
    ck.clause('D5')
    f = P.func(A + 'filter_spatial')
    used = sorted({n.func.attr for n in all_nodes(f) if isinstance(n, ast.Call) and isinstance(n.func, ast.Attribute)
                   and u(n.func.value) in ('self.region', 'region')})
    regions = [c for q, c in sorted(P.classes.items()) if q.startswith('csep.core.regions.') and c.find_method('get_index_of') is not None]
    for c in regions:
        for m in used:
            o = ck.ob('C04-D5.sibling', f, '%s.%s' % (c.short, m), f.node)
            (o.ok() if c.find_method(m) is not None else
             o.fail('filter_spatial calls region.%s(), which %s does not define: spatial filtering of a catalog bound to such a region raises '
                    'AttributeError instead of keeping the events inside the region' % (m, c.short)))


def rule_load(ck):
    P = ck.prog
    ck.clause('D6')
    f = P.func('csep.load_catalog')
    found = False
    for n in all_nodes(f):
        if isinstance(n, ast.If) and isinstance(n.test, ast.Name) and n.test.id == 'apply_filters':
            found = True
            txt = ' '.join(u(s) for s in n.body)
            o = ck.ob('C04-D6.order', f, n.test, n)
            (o.ok('filter() then filter_spatial()') if '.filter().filter_spatial()' in txt else
             o.fail('apply_filters does not run filter() followed by filter_spatial()'))
    if not found:
        ck.ob('C04-D6.order', f, 'apply_filters branch', f.node).fail('load_catalog ignores apply_filters')


def rule_paths(ck):
    P = ck.prog
    ck.clause('D7')
    for q in ('filter', 'filter_spatial'):
        f = P.func(A + q)
        cfg = f.cfg
        for r in returns(f):
            rn = cfg.node_of(r)
            if rn is None:
                continue
            o = ck.ob('C04-D7.path', f, r, r)
            from .generic import maybe_unbound_path
            path = maybe_unbound_path(cfg, rn, 'filtered', True)
            if path is not None:
                lines = [cfg.nodes[i].lineno for i in path if cfg.nodes[i].lineno]
                o.fail('a path (lines %s) returns without having computed the filtered events: the statements are silently not applied '
                       'on that path (e.g. a shortcut keyed on remembered filter strings, which do not prove the events were filtered)'
                       % ' -> '.join(str(x) for x in dict.fromkeys(lines)))
                continue
            if u(r.value) == 'self':
                # must have stored the filtered events
                defs = [n for n in cfg.nodes if 'self.catalog' in n.defs]
                ok = any(cfg.dominates(d, rn) for d in defs)
                (o.ok('self.catalog = filtered dominates return self') if ok else o.fail('returns self without storing the filtered events'))
            else:
                o.ok('filtered events computed on every path to this return')


def rule_every_path_selects(ck):
    """D7.select: `filtered` never reaches the end of filter() as the unfiltered events: an assignment of the event array itself (or a
    copy of it) is only the start of the narrowing - the loop over the statements follows it on every path.  A shortcut such as
    `if statements == self.filters: filtered = self.catalog` trusts remembered strings (which filter(in_place=False) also writes on the
    *source* catalog) instead of applying the statements."""
    P = ck.prog
    ck.clause('D7')
    f = P.func(A + 'filter')
    cfg = f.cfg
    ex = Expander(P, f)
    asg = [a for a in find_assignments(f, 'filtered') if isinstance(a, ast.Assign)]
    loops = [n for n in all_nodes(f) if isinstance(n, ast.For) and any(isinstance(x, ast.Assign) and any(isinstance(t, ast.Name) and t.id == 'filtered' for t in x.targets)
                                                                      for x in ast.walk(n))]
    for a in asg:
        v = strip_shape(a.value)
        while isinstance(v, ast.Call) and (callee(P, f, v) or call_name(v) or '') in ('numpy.copy', 'numpy.array', 'numpy.asarray', 'copy.copy', 'copy.deepcopy') and v.args:
            v = strip_shape(v.args[0])
        if u(v) not in ('self.catalog', 'self._catalog'):
            continue
        if any(a in ast.walk(lp) for lp in loops):
            continue
        o = ck.ob('C04-D7.select', f, a, a)
        an = cfg.node_of(a)
        ok = an is not None and any(cfg.node_of(lp) is not None and cfg.postdominates(cfg.node_of(lp), an) for lp in loops)
        (o.ok('start of the narrowing loop') if ok else
         o.fail('`%s` lets the unfiltered events through to the result: the statements are not applied on that path (remembered filter '
                'strings do not prove that the events were filtered - filter(in_place=False) records them on the source catalog too)' % u(a)[:70]))


def rule_region_mask(ck):
    """filter_spatial relies on region.get_masked flagging exactly the points outside the region (shared C01-D3/D4)."""
    from . import c01
    ck.clause('D5 (shared C01-D3/D4: get_masked flags out-of-box and masked cells)')
    c01.rule_sentinel(ck)
    c01.rule_mask_polarity(ck)
    c01.rule_raw_coordinates(ck)
    c01.rule_single_edge(ck)
    c01.rule_observer_kernel(ck)
    c01.rule_given_region(ck)


RULES = [rule_operators, rule_narrowing, rule_datetime, rule_effects, rule_spatial, rule_refusals, rule_region_interface, rule_load, rule_paths, rule_every_path_selects, rule_region_mask]
