"""C06 - simulated catalogs: exact inverse CDF, conserved counts, seeded."""
import ast

from ..core import sym
from ..core.expand import u, call_name, get_arg, bind_args, Expander, is_marker, phi_alternatives
from ..core.loader import Inconclusive, const_value, parents
from .common import (aliases_of, literal_dnf, returns, all_nodes, callee, strip_shape, calls_in, guards_of, stmt_of, loops_around, kw,
                     find_assignments, result_fields, in_loop, is_none_test)

EXPLANATION = (
    "Decided: D1 every test that draws random numbers takes `seed`, reaches numpy.random.seed(<that parameter>) under "
    "a None-test (never truthiness: seed 0 must seed) and the seeding dominates every draw; public wrappers forward "
    "seed / random_numbers / num_simulations; D2 randomness only from the legacy global numpy.random.{seed, rand, "
    "uniform, poisson, choice}; D3 every sampling site is numpy.searchsorted(weights, u, side='right'); D4 the "
    "weights are a cumulative sum divided by the last element of that same cumulative array (last weight exactly "
    "1.0); D5 no masked array reaches searchsorted's sorted argument, numpy.add.at or a score kernel; D6 every path "
    "in a simulator from entry to an accumulation into the scratch array passes a reset (fill(0) / fresh zeros); "
    "D7 event numbers: int(N_obs) for conditional tests, numpy.random.poisson(forecast total) for the L-test, "
    "len(unique(nonzero(obs))) active cells for binary/Brier, the simulators assert sum == requested number and the "
    "rejection loops count a cell only when it was empty; D8 quantile = sum(simulated <= observed) / num_simulations. "
    "D1.forward the public wrappers hand seed / random_numbers / num_simulations to the kernel unchanged (no rebinding; a conversion under a None test is accepted); D4.double the weights are built in the supplied precision; shared C11-D1/D4 scaled view. "
    "NOT decided: that searchsorted implements the interval rule (numpy contract), distributional correctness, "
    "bit-for-bit determinism across numpy versions.")
CLAUSES = {'D1': 'seed protocol', 'D2': 'RNG sources', 'D3': "side='right'", 'D4': 'self-normalised CDF', 'D5': 'no masked weights',
           'D6': 'buffer reset', 'D7': 'event numbers', 'D8': 'quantile'}
TRUSTED = ['CPython ast', "numpy.searchsorted(side='right') returns i with a[i-1] <= v < a[i]", 'numpy.ma data under a mask is unspecified',
           'numpy.random.seed seeds the legacy global generator']
PE, BE, BR, CE = 'csep.core.poisson_evaluations.', 'csep.core.binomial_evaluations.', 'csep.core.brier_evaluations.', 'csep.core.catalog_evaluations.'
ROOTS = [PE + 'likelihood_test', PE + 'conditional_likelihood_test', PE + 'spatial_test', PE + 'magnitude_test',
         BE + 'binary_spatial_test', BE + 'binary_conditional_likelihood_test', BR + 'brier_score_test',
         CE + 'resampled_magnitude_test', CE + 'MLL_magnitude_test']
TECHNIQUE = 'static analysis: CFG dominance (seed protocol, buffer reset), def-use provenance of the sampling weights, kind (masked/plain) flow'

SEEDED = [PE + '_poisson_likelihood_test', BE + '_binary_likelihood_test', BR + '_brier_score_test',
          CE + 'resampled_magnitude_test', CE + 'MLL_magnitude_test']
SIMULATORS = [PE + '_simulate_catalog', BE + '_simulate_catalog', BR + '_simulate_catalog']
KERNEL_TESTS = [PE + '_poisson_likelihood_test', BE + '_binary_likelihood_test', BR + '_brier_score_test']
DRAWS = {'numpy.random.rand', 'numpy.random.uniform', 'numpy.random.poisson', 'numpy.random.choice',
         'numpy.random.random', 'numpy.random.random_sample', 'numpy.random.randint', 'numpy.random.normal',
         'numpy.random.shuffle', 'numpy.random.permutation', 'numpy.random.multinomial'}
ALLOWED_RNG = {'numpy.random.seed', 'numpy.random.rand', 'numpy.random.uniform', 'numpy.random.poisson', 'numpy.random.choice'}


def _draws_reachable(ck, f):
    """draw call nodes in f and (one level) in package callees"""
    P = ck.prog
    out = [(f, n) for n in all_nodes(f) if isinstance(n, ast.Call) and (callee(P, f, n) or '') in DRAWS]
    for q in ck.cg.edges.get(f.qualname, ()):
        g = P.funcs.get(q)
        if g is not None and g.module is f.module and g is not f:
            out += [(g, n) for n in all_nodes(g) if isinstance(n, ast.Call) and (callee(P, g, n) or '') in DRAWS]
    return out


def rule_seed(ck):
    P = ck.prog
    ck.clause('D1')
    for q in SEEDED:
        f = P.func(q)
        o = ck.ob('C06-D1.param', f, 'takes a seed parameter', f.node)
        if 'seed' not in f.params:
            o.fail('%s draws random numbers but has no `seed` parameter' % f.short)
            continue
        o.ok()
        seeds = calls_in(P, f, 'numpy.random.seed')
        o = ck.ob('C06-D1.seed', f, seeds[0] if seeds else 'numpy.random.seed(seed)', seeds[0] if seeds else f.node)
        if len(seeds) != 1:
            o.fail('%s calls numpy.random.seed %d times; the generator must be seeded exactly once from the seed parameter' % (f.short, len(seeds)))
            continue
        sc = seeds[0]
        arg = sc.args[0] if sc.args else kw(sc, 'seed')
        if not (isinstance(arg, ast.Name) and arg.id == 'seed'):
            o.fail('numpy.random.seed is called with `%s`, not with the caller\'s seed: results are not a function of the seed' % (u(arg) if arg is not None else 'no argument'))
            continue
        # not rebound
        if find_assignments(f, 'seed'):
            o.fail('the seed parameter is rebound before seeding')
            continue
        g = guards_of(sc, f.node)
        N = sym.Normalizer()
        ok = len(g) == 1 and g[0][1] is True and N.nf(g[0][0]) in (N.nf('seed is not None'), N.nf('seed != None'))
        if not g:
            # unconditional seeding with None re-seeds from entropy: acceptable only if seed has no None default
            ok = False
            o.fail('numpy.random.seed(seed) is unconditional: with seed=None every call re-seeds from OS entropy, and the '
                   'None-test is part of the documented protocol')
            continue
        if not ok:
            t = g[0][0]
            o.fail('seeding is guarded by `%s`: the guard must be `seed is not None` - a truthiness or range test skips '
                   'seed 0, which must seed like any other value' % u(t))
            continue
        # dominance over every draw
        cfg = f.cfg
        sn = cfg.stmt_node_containing(sc)
        bad = []
        for (gf, d) in _draws_reachable(ck, f):
            if gf is f:
                dn = cfg.stmt_node_containing(d)
            else:
                # draw inside a callee: the call site in f must come after the seeding
                sites = [n for n in all_nodes(f) if isinstance(n, ast.Call) and callee(P, f, n) == gf.qualname]
                dn = cfg.stmt_node_containing(sites[0]) if sites else None
            # the seed call sits in the true branch of `if seed is not None`; dominance is judged at the if-test
            test_node = cfg.node_of(stmt_of(sc)._parent) if isinstance(getattr(stmt_of(sc), '_parent', None), ast.If) else sn
            if dn is None or test_node is None or not cfg.dominates(test_node, dn) or dn.id < 0:
                bad.append(d)
            elif not _before(cfg, test_node, dn):
                bad.append(d)
        (o.fail('the draw `%s` is not dominated by the seeding: it can run before/without numpy.random.seed(seed)' % u(bad[0])[:60])
         if bad else o.ok('`if seed is not None: numpy.random.seed(seed)` dominates %d draw site(s)' % len(_draws_reachable(ck, f))))
    # public wrappers forward seed / random_numbers / num_simulations
    for q, k in ((BE + 'binary_spatial_test', BE + '_binary_likelihood_test'),
                 (BE + 'binary_conditional_likelihood_test', BE + '_binary_likelihood_test'),
                 (BR + 'brier_score_test', BR + '_brier_score_test'),
                 (PE + 'likelihood_test', PE + '_poisson_likelihood_test'),
                 (PE + 'conditional_likelihood_test', PE + '_poisson_likelihood_test'),
                 (PE + 'spatial_test', PE + '_poisson_likelihood_test'),
                 (PE + 'magnitude_test', PE + '_poisson_likelihood_test')):
        g = P.func(q)
        calls = calls_in(P, g, k)
        o = ck.ob('C06-D1.forward', g, calls[0] if calls else k, calls[0] if calls else g.node)
        if len(calls) != 1:
            o.fail('%s does not call %s exactly once' % (g.short, k.split('.')[-1]))
            continue
        m, ok = bind_args(P.func(k), calls[0])
        miss = [p for p in ('seed', 'random_numbers', 'num_simulations') if not (p in m and isinstance(m[p], ast.Name) and m[p].id == p and p in g.params)]
        # unchanged also means: not rebound on the way (`seed = int(seed) if seed else None` turns seed 0 into "no seed")
        def harmless(a, p):
            # `if p is not None: p = int(p)`: the same value for every argument the kernel accepts, None stays None
            v = a.value if isinstance(a, ast.Assign) else None
            return isinstance(v, ast.Call) and u(v.func) in ('int', 'operator.index') and len(v.args) == 1 and u(v.args[0]) == p and \
                any((not pol) and is_none_test(t, p) or (pol and is_none_test(ast.UnaryOp(op=ast.Not(), operand=t), p)) for t, pol in guards_of(a, g.node))
        rebound = [p for p in ('seed', 'random_numbers', 'num_simulations') if p not in miss and [a for a in find_assignments(g, p) if not harmless(a, p)]]
        if rebound:
            a = find_assignments(g, rebound[0])[0]
            o.fail('%s rebinds `%s` before handing it to the kernel (`%s`): the kernel no longer sees the caller\'s value - a conversion by '
                   'truthiness drops seed 0, any other conversion makes the result a function of something else than the given %s'
                   % (g.short, rebound[0], u(a)[:70], rebound[0]))
            continue
        (o.fail('%s not forwarded unchanged to the kernel: the result is no function of the caller\'s %s' % (', '.join(miss), '/'.join(miss))) if miss else o.ok())


def _before(cfg, a, b):
    return cfg.dominates(a, b) and a is not b


def rule_rng_sources(ck):
    P = ck.prog
    ck.clause('D2')
    n = 0
    for q in sorted(ck.closure):
        f = P.funcs[q]
        if f.module.name not in ('csep.core.poisson_evaluations', 'csep.core.binomial_evaluations', 'csep.core.brier_evaluations',
                                 'csep.core.catalog_evaluations', 'csep.utils.stats', 'csep.utils.calc'):
            continue
        for c in all_nodes(f):
            if not isinstance(c, ast.Call):
                continue
            nm = callee(P, f, c) or ''
            if nm.startswith('numpy.random.') or nm.startswith('random.') or nm in ('time.time_ns', 'os.urandom') or nm.startswith('secrets.'):
                if nm.startswith('time.'):
                    continue
                n += 1
                o = ck.ob('C06-D2.rng', f, c, c)
                if nm in ALLOWED_RNG:
                    o.ok(nm)
                elif nm in ('numpy.random.default_rng', 'numpy.random.Generator', 'numpy.random.RandomState') and c.args and \
                        isinstance(c.args[0], ast.Name) and c.args[0].id == 'seed':
                    o.ok('generator constructed from the seed')
                else:
                    o.fail('randomness from `%s`: it is not governed by numpy.random.seed(seed), so the result is not a '
                           'deterministic function of forecast, catalog and seed' % nm)
    ck.extra['rng_call_sites'] = n


def _simulator(ck, q):
    """the function that does the simulating for `q`: `q` itself, or - when `q` only prepares a fresh scratch array and hands its own
    arguments, unchanged and by name, to another of the three simulators - that one (its obligations are then the delegate's)"""
    P = ck.prog
    f = P.func(q)
    rets = [r for r in returns(f) if r.value is not None]
    body = [s_ for s_ in f.node.body if not (isinstance(s_, ast.Expr) and isinstance(s_.value, ast.Constant))]
    if len(rets) == 1 and len(body) <= 2 and isinstance(rets[0].value, ast.Call):
        tgt = callee(P, f, rets[0].value)
        if tgt in SIMULATORS and tgt != q:
            g = P.func(tgt)
            m, okb = bind_args(g, rets[0].value)
            good = okb
            for prm, arg in (m or {}).items():
                if isinstance(arg, ast.Name) and arg.id == prm and prm in f.params:
                    continue
                if prm == 'sim_fore' and isinstance(arg, ast.Name):
                    defs = find_assignments(f, arg.id)
                    if len(defs) == 1 and isinstance(defs[0], ast.Assign) and isinstance(defs[0].value, ast.Call) \
                            and callee(P, f, defs[0].value) in ('numpy.zeros', 'numpy.zeros_like'):
                        continue
                good = False
            o = ck.ob('C06-D6.delegate', f, rets[0].value, rets[0])
            if good:
                o.ok('hands its own arguments and a fresh zero array to %s' % g.short)
                return g
            o.fail('%s hands `%s` to %s: not its own arguments by name and a fresh zero array' % (f.short, u(rets[0].value)[:70], g.short))
    return f


def rule_sampling(ck):
    P = ck.prog
    nss = 0
    for q in SIMULATORS:
        f = _simulator(ck, q)
        ss = calls_in(P, f, {'numpy.searchsorted', '.searchsorted', 'numpy.digitize'})
        if not ss:
            ck.ob('C06-D3.side', f, 'searchsorted', f.node).fail('%s no longer places events with numpy.searchsorted on the cumulative weights' % f.short)
        for c in ss:
            nss += 1
            ck.clause('D3')
            o = ck.ob('C06-D3.side', f, c, c)
            if callee(P, f, c) == 'numpy.digitize':
                o.fail('numpy.digitize is used instead of searchsorted(side=\'right\')')
                continue
            args = list(c.args)
            if callee(P, f, c) == '.searchsorted':
                args = [c.func.value] + args
            side = args[2] if len(args) > 2 else kw(c, 'side')
            sv = const_value(side) if side is not None else 'left'
            if sv == 'right':
                o.ok("side='right': u in [F_(k-1), F_k) -> bin k")
            else:
                o.fail("searchsorted side=%r: a uniform number equal to a cumulative boundary F_k (in particular u=0 with "
                       "leading zero-rate bins) is placed in bin k instead of k+1, i.e. in a zero-rate bin" % sv)
            # the sorted argument is the weights parameter
            a0 = args[0] if args else None
            if not (isinstance(a0, ast.Name) and a0.id in f.params):
                ck.ob('C06-D3.arg', f, c, c).fail('the sorted argument `%s` is not the sampling-weights parameter' % (u(a0) if a0 is not None else '?'))
    ck.extra['sampling_sites'] = nss


def _weights_arg(P, t, sim_q):
    """expanded sampling-weights argument passed from kernel test t to its simulator"""
    sim = P.func(sim_q)
    calls = calls_in(P, t, sim_q)
    ex = Expander(P, t)
    out = []
    for c in calls:
        m, ok = bind_args(sim, c)
        w = m.get('sampling_weights')
        if w is not None:
            out.append((c, ex.expand(w), m))
    return out


def _masked_sources(e):
    """numpy.ma constructors in an expanded expression that are not neutralised by .filled()/.compressed()/.data"""
    hits = []
    def rec(n, neutral):
        if isinstance(n, ast.Call):
            nm = call_name(n) or ''
            if nm in ('.filled', '.compressed', 'numpy.ma.getdata', 'numpy.ma.filled', 'numpy.ma.compressed'):
                neutral = True
            if nm.startswith('numpy.ma.') and nm not in ('numpy.ma.getdata', 'numpy.ma.filled', 'numpy.ma.compressed') and not neutral:
                hits.append(n)
        if isinstance(n, ast.Attribute) and n.attr == 'data':
            # .data of an origin masked array is plain; of a derived one it is a C16-D1 matter
            neutral = True
        for ch in ast.iter_child_nodes(n):
            rec(ch, neutral)
    rec(e, False)
    return hits


def rule_weights(ck):
    P = ck.prog
    N = sym.Normalizer()
    for tq, sq in zip(KERNEL_TESTS, SIMULATORS):
        t = P.func(tq)
        sites = _weights_arg(P, t, sq)
        if not sites:
            ck.ob('C06-D4.cdf', t, 'sampling weights', t.node).fail('%s does not hand sampling weights to its simulator' % t.short)
            continue
        seen = set()
        for c, w, m in sites:
            k = u(w)
            if k in seen:
                continue
            seen.add(k)
            ck.clause('D4')
            o = ck.ob('C06-D4.cdf', t, w, c)
            # W = C / D with C containing cumsum(R), D = last element of the same C
            s = w
            if not (isinstance(s, ast.BinOp) and isinstance(s.op, ast.Div)):
                o.fail('the sampling weights `%s` are not a cumulative sum divided by its own last element' % u(w)[:90])
                continue
            C, D = s.left, s.right
            cs = [n for n in ast.walk(C) if isinstance(n, ast.Call) and call_name(n) in ('numpy.cumsum', '.cumsum')]
            if not cs:
                o.fail('the numerator of the weights contains no cumulative sum')
                continue
            d = strip_shape(D)
            last = None
            if isinstance(d, ast.Subscript) and const_value(d.slice) == -1:
                last = d.value
            elif isinstance(d, ast.Call) and call_name(d) in ('.max', 'numpy.max', 'numpy.amax'):
                last = d.func.value if call_name(d) == '.max' else d.args[0]
            if last is None or N.nf(last) != N.nf(C):
                o.fail('the cumulative rates are normalised by `%s`, an independently computed total: its rounding differs from '
                       'the cumulative sum\'s, so the last weight can be 1-ulp and the draw nextafter(1,0) falls beyond the last '
                       'bin (or interior boundaries shift); divide by the last element of the same cumulative array' % u(D)[:70])
                continue
            o.ok('cumsum(rates) / cumsum(rates)[-1]')
            ck.clause('D5')
            o = ck.ob('C06-D5.plain', t, w, c)
            ms = _masked_sources(w)
            if ms:
                o.fail('the sampling weights derive from the masked array `%s` without .filled(): searchsorted ignores the mask '
                       'and the data under a derived mask are not normalised, so events are simulated in zero-rate bins' % u(ms[0])[:70])
            else:
                o.ok('plain ndarray (masked input neutralised by filled/compressed/data)' if 'numpy.ma' in u(w) else 'plain ndarray')
            # rates inside the cumsum must be the forecast rates
            r = cs[0].args[0] if call_name(cs[0]) == 'numpy.cumsum' else cs[0].func.value
            fd = t.positional_params[0]
            if fd not in {n.id for n in ast.walk(r) if isinstance(n, ast.Name)}:
                ck.ob('C06-D4.rates', t, r, c).fail('the cumulative sum is not taken over the forecast rates `%s`' % fd)
            else:
                # ... the rates themselves: selection, masking and reshaping only - a transformed quantity (the probability of at least one
                # event, a logarithm, a power) has other cumulative intervals than the forecast
                SHAPE = ('ravel', 'flatten', 'filled', 'masked_where', 'masked_equal', 'masked_less_equal', 'masked_array', 'asarray', 'array', 'reshape',
                         'compressed', 'getdata', 'where', 'copy', 'squeeze', 'astype', 'float64', 'zeros_like', 'asanyarray', 'masked_invalid')
                odd = [n for n in ast.walk(r) if (isinstance(n, ast.BinOp)) or
                       (isinstance(n, ast.Call) and not is_marker(n) and (call_name(n) or (n.func.attr if isinstance(n.func, ast.Attribute) else '')).split('.')[-1] not in SHAPE)]
                oo = ck.ob('C06-D4.rates', t, r, c)
                (oo.fail('the cumulative sum runs over `%s`, a transformation of the rates: the bin an event is placed in is then not the one whose '
                         'cumulative-rate interval holds the random number' % u(odd[0])[:70]) if odd else oo.ok('the forecast rates, selected / reshaped only'))


def rule_reset(ck):
    P = ck.prog
    ck.clause('D6')
    for q in SIMULATORS:
        f = _simulator(ck, q)
        cfg = f.cfg
        # scratch array: parameter sim_fore or a local from numpy.zeros
        arr = 'sim_fore'
        fresh = [n for n in all_nodes(f) if isinstance(n, ast.Assign) and isinstance(n.targets[0], ast.Name) and n.targets[0].id == arr
                 and isinstance(n.value, ast.Call) and callee(P, f, n.value) in ('numpy.zeros', 'numpy.zeros_like')]
        resets = [stmt_of(n) for n in all_nodes(f) if isinstance(n, ast.Call) and isinstance(n.func, ast.Attribute) and n.func.attr == 'fill'
                  and isinstance(n.func.value, ast.Name) and n.func.value.id == arr and n.args and const_value(n.args[0]) == 0]
        reset_nodes = [cfg.node_of(s) for s in resets + fresh if cfg.node_of(s) is not None]
        accs = []
        for n in all_nodes(f):
            if isinstance(n, ast.Call) and callee(P, f, n) == 'numpy.add.at' and n.args and isinstance(n.args[0], ast.Name) and n.args[0].id == arr:
                accs.append(n)
            if isinstance(n, (ast.Assign, ast.AugAssign)):
                tg = n.targets[0] if isinstance(n, ast.Assign) else n.target
                if isinstance(tg, ast.Subscript) and isinstance(tg.value, ast.Name) and tg.value.id == arr:
                    accs.append(n)
        if not accs:
            ck.ob('C06-D6.reset', f, 'accumulation into the scratch array', f.node).unknown('no accumulation found')
        for a in accs:
            o = ck.ob('C06-D6.reset', f, a, a)
            an = cfg.stmt_node_containing(a)
            if any(cfg.dominates(r, an) for r in reset_nodes):
                o.ok('a reset (fill(0) / fresh zeros) dominates this accumulation')
            else:
                o.fail('a path reaches this accumulation without resetting `%s`: events of the previous simulation remain in the '
                       'scratch array and the count assertion / statistics of later simulations are wrong' % arr)
        for r in [x for x in returns(f) if x.value is not None and isinstance(x.value, ast.Name) and x.value.id == arr]:
            o = ck.ob('C06-D6.return', f, r, r)
            rn = cfg.node_of(r)
            (o.ok('every path to this return has reset the scratch array') if any(cfg.dominates(x, rn) for x in reset_nodes) else
             o.fail('a path returns the scratch array without having reset it (e.g. an early return for zero events): the "simulated catalog" '
                    'is the previous simulation\'s catalog'))
        # count assertion
        o = ck.ob('C06-D7.assert', f, 'simulated count is asserted', f.node)
        asserts = [n for n in all_nodes(f) if isinstance(n, ast.Assert)]
        first = f.positional_params[0]
        N = sym.Normalizer()
        ok = any(N.nf(a.test) in (N.nf('%s.sum() == %s' % (arr, first)), N.nf('numpy.sum(%s) == %s' % (arr, first))) for a in asserts)
        (o.ok() if ok else o.fail('the simulator no longer asserts that the simulated catalog holds exactly the requested number `%s`' % first))
        # ... and that number is the one prescribed by the caller: the simulator does not replace it (capping it "so that the loop ends"
        # makes the assertion compare with the replaced value)
        o = ck.ob('C06-D7.prescribed', f, '`%s` is the number the caller prescribed' % first, f.node)
        rebound = [a for a in find_assignments(f, first)
                   if not (isinstance(a, ast.Assign) and isinstance(a.value, ast.Call) and (call_name(a.value) or '').split('.')[-1] == 'int'
                           and len(a.value.args) == 1 and u(a.value.args[0]) == first)]
        (o.fail('`%s` replaces the prescribed number of %s inside the simulator: the catalog is simulated - and asserted - with another number '
                'than the test prescribes' % (u(rebound[0])[:70], 'active cells' if 'cell' in first else 'events')) if rebound else o.ok())
        # rejection loop counts a cell only when it was empty
        for w in [n for n in all_nodes(f) if isinstance(n, ast.While)]:
            o = ck.ob('C06-D7.reject', f, w.test, w)
            # the loop counter: `while c < N`; every write of c in the loop adds one, in a branch taken only when the drawn cell was
            # empty and which marks the cell
            cnt = None
            if isinstance(w.test, ast.Compare) and len(w.test.ops) == 1:
                l_, r_ = w.test.left, w.test.comparators[0]
                if isinstance(w.test.ops[0], ast.Lt) and isinstance(l_, ast.Name) and u(r_) == first:
                    cnt = l_.id
                elif isinstance(w.test.ops[0], ast.Gt) and isinstance(r_, ast.Name) and u(l_) == first:
                    cnt = r_.id
            good = cnt is not None
            incs = [n for n in ast.walk(w) if isinstance(n, (ast.AugAssign, ast.Assign)) and u(n.targets[0] if isinstance(n, ast.Assign) else n.target) == cnt] if cnt else []
            good = good and bool(incs)
            for inc in incs:
                if isinstance(inc, ast.AugAssign):
                    one = isinstance(inc.op, ast.Add) and const_value(inc.value) == 1
                else:
                    one = N.nf(inc.value) == N.nf('%s + 1' % cnt)
                if not one:
                    good = False
                    continue
                idx = None
                for t, pol in guards_of(inc, w):
                    for atom, apol in (literal_dnf(t, pol)[0] if len(literal_dnf(t, pol)) == 1 else []):
                        if isinstance(atom, ast.Compare) and len(atom.ops) == 1 and isinstance(atom.left, ast.Subscript) and u(atom.left.value) == arr \
                                and const_value(atom.comparators[0]) == 0 and (isinstance(atom.ops[0], ast.Eq) == apol) \
                                and isinstance(atom.ops[0], (ast.Eq, ast.NotEq)):
                            idx = u(atom.left.slice)
                if idx is None:
                    good = False
            inits = [a for a in find_assignments(f, cnt) if isinstance(a, ast.Assign) and not any(a is x for x in ast.walk(w))] if cnt else []
            if not (len(inits) == 1 and const_value(inits[0].value) == 0):
                good = False
            (o.ok('loop until N distinct cells; a cell counts only when it was empty') if good else
             o.fail('the rejection loop does not count a cell only when it was empty / does not run until `%s` distinct cells are active' % first))


def rule_event_numbers(ck):
    P = ck.prog
    ck.clause('D7')
    N = sym.Normalizer()
    t = P.func(PE + '_poisson_likelihood_test')
    ex = Expander(P, t)
    fd, od = t.positional_params[0], t.positional_params[1]
    sites = calls_in(P, t, PE + '_simulate_catalog')
    sim = P.func(PE + '_simulate_catalog')
    for c in sites:
        m, ok = bind_args(sim, c)
        e = ex.expand(m[sim.positional_params[0]])
        o = ck.ob('C06-D7.count.poisson', t, m[sim.positional_params[0]], c)
        cond = None
        if isinstance(e, ast.IfExp):
            tst, pos = e.test, True
            while isinstance(tst, ast.UnaryOp) and isinstance(tst.op, ast.Not):
                tst, pos = tst.operand, not pos
            if isinstance(tst, ast.Name) and tst.id == 'use_observed_counts':
                cond = (e.body, e.orelse) if pos else (e.orelse, e.body)
        alts = {N.nf(a).skey() for a in (cond if cond else phi_alternatives(e))}
        want = {N.nf('builtins.int(numpy.sum(%s))' % od).skey(),
                N.nf('builtins.int(numpy.random.poisson(__phi__(numpy.sum(%s), builtins.int(numpy.sum(%s)))))' % (fd, od)).skey()}
        want2 = {N.nf('builtins.int(numpy.sum(%s))' % od).skey(), N.nf('builtins.int(numpy.random.poisson(numpy.sum(%s)))' % fd).skey()}
        if alts == want or alts == want2:
            # which alternative under which flag
            var = m[sim.positional_params[0]]
            good = True
            if cond:
                good = 'poisson' not in u(cond[0]) and 'poisson' in u(cond[1])
            elif isinstance(var, ast.Name):
                for a in find_assignments(t, var.id):
                    g = guards_of(a, t.node)
                    pois = 'poisson' in u(a.value)
                    flag = [pol for tt, pol in g if isinstance(tt, ast.Name) and tt.id == 'use_observed_counts']
                    if not flag or flag[0] == pois:
                        good = False
            (o.ok('int(N_obs) when conditional, Poisson(forecast total) for the L-test') if good else
             o.fail('the choice between the observed number and the Poisson draw is not governed by use_observed_counts'))
        else:
            o.fail('number of events to simulate is %s; it must be int(N_obs) for conditional tests and '
                   'int(numpy.random.poisson(forecast total)) for the L-test' % [sym.show(N.nf(a))[:70] for a in phi_alternatives(e)])
    # every synthetic catalog gets its own draws: a random draw that feeds the simulator stands inside the simulation loop
    for tq, sq in ((PE + '_poisson_likelihood_test', PE + '_simulate_catalog'), (BE + '_binary_likelihood_test', BE + '_simulate_catalog'),
                   (BR + '_brier_score_test', BR + '_simulate_catalog')):
        t = P.func(tq)
        loops = {id(in_loop(c, t.node)): in_loop(c, t.node) for c in calls_in(P, t, sq) if in_loop(c, t.node) is not None}
        o = ck.ob('C06-D7.loop', t, 'one simulator call per synthetic catalog', t.node)
        if len(loops) != 1:
            o.fail('the simulator is not called from one loop over the simulations')
            continue
        o.ok()
        lp = list(loops.values())[0]
        inside = {id(x) for x in ast.walk(lp)}
        for d in [n for n in all_nodes(t) if isinstance(n, ast.Call) and (callee(P, t, n) or '') in DRAWS]:
            oo = ck.ob('C06-D7.fresh', t, d, d)
            (oo.ok('drawn anew for every synthetic catalog') if id(d) in inside else
             oo.fail('`%s` is drawn once, before the simulation loop, and reused for every synthetic catalog: the catalogs no longer '
                     'each carry their own draw (for the L-test all catalogs get the same Poisson number of events and the test '
                     'distribution loses its number variability)' % u(d)[:60]))
    for tq, sq in ((BE + '_binary_likelihood_test', BE + '_simulate_catalog'), (BR + '_brier_score_test', BR + '_simulate_catalog')):
        t = P.func(tq)
        ex = Expander(P, t)
        sim = P.func(sq)
        od = t.positional_params[1]
        for c in calls_in(P, t, sq):
            m, ok = bind_args(sim, c)
            e = ex.expand(m[sim.positional_params[0]])
            o = ck.ob('C06-D7.count.binary', t, m[sim.positional_params[0]], c)
            want = (N.nf('builtins.int(builtins.len(numpy.unique(numpy.nonzero(%s))))' % od), N.nf('builtins.len(numpy.unique(numpy.nonzero(%s)))' % od))
            alts = [N.nf(a) for a in phi_alternatives(e) if not is_marker(a, '__top__')]
            (o.ok('number of active cells of the observation') if alts and all(a in want for a in alts) else
             o.fail('cells to simulate = %s, must be the number of active observed cells len(unique(nonzero(obs)))' % [sym.show(a)[:70] for a in alts]))


def rule_quantile(ck):
    P = ck.prog
    ck.clause('D8')
    N = sym.Normalizer()
    for tq in KERNEL_TESTS:
        t = P.func(tq)
        ex = Expander(P, t)
        rets = [r for r in returns(t) if r.value is not None]
        o = ck.ob('C06-D8.quantile', t, rets[0].value if rets else 'return', rets[0] if rets else t.node)
        if len(rets) != 1 or not isinstance(rets[0].value, ast.Tuple) or len(rets[0].value.elts) != 3:
            o.fail('kernel test does not return (quantile, observed, simulated)')
            continue
        q, obs, sims = rets[0].value.elts
        qe = ex.expand(q)
        if not (isinstance(sims, ast.Name) and isinstance(obs, ast.Name)):
            o.unknown('unexpected return shape')
            continue
        # the list of simulated statistics: appended once per simulation
        want = N.nf('numpy.sum(__S__ <= __O__) / num_simulations')
        got = N.nf(sym.rename(ast.parse(u(q_src(t, q)), mode='eval').body if False else q_src(t, q), {sims.id: '__S__', obs.id: '__O__'}))
        if got == want:
            o.ok('sum(simulated <= observed) / num_simulations')
        else:
            o.fail('quantile is `%s`; it must be the fraction of simulated statistics not exceeding the observed one: '
                   'sum(sim <= obs) / num_simulations' % u(q_src(t, q))[:90])
        apps = [n for n in all_nodes(t) if isinstance(n, ast.Call) and isinstance(n.func, ast.Attribute) and n.func.attr == 'append'
                and isinstance(n.func.value, ast.Name) and n.func.value.id in aliases_of(t, sims.id)]
        oo = ck.ob('C06-D8.dist', t, apps[0] if apps else 'append', apps[0] if apps else t.node)
        good = len(apps) == 1 and len(loops_around(apps[0])) == 1 and not guards_of(apps[0], loops_around(apps[0])[0])
        if good:
            lp = loops_around(apps[0])[0]
            good = isinstance(lp, ast.For) and N.nf(lp.iter) == N.nf('range(num_simulations)')
        (oo.ok('one statistic per simulation, num_simulations simulations') if good else
         oo.fail('the simulated statistics are not appended exactly once in each of num_simulations iterations'))


def q_src(t, q):
    """source-level definition of the quantile variable (one assignment)"""
    if isinstance(q, ast.Name):
        a = find_assignments(t, q.id)
        if len(a) == 1:
            return a[0].value
    return q


def rule_catalog_seeded(ck):
    """resampled / MLL tests: draws only via numpy.random.choice with size=int(n_obs)"""
    P = ck.prog
    ck.clause('D7')
    N = sym.Normalizer()
    for q in (CE + 'resampled_magnitude_test', CE + 'MLL_magnitude_test'):
        f = P.func(q)
        ex = Expander(P, f)
        for c in calls_in(P, f, 'numpy.random.choice'):
            o = ck.ob('C06-D7.resample', f, c, c)
            size = kw(c, 'size', 1)
            se = ex.expand(size) if size is not None else None
            txt = u(se) if se is not None else ''
            ok = se is not None and txt.startswith('builtins.int(numpy.sum(') and 'magnitude_counts' in txt and f.positional_params[1] in txt
            (o.ok('resamples exactly int(N_obs) magnitudes') if ok else
             o.fail('the resampled catalog has size `%s`, it must hold exactly the observed number of events int(N_obs)' % txt[:70]))


def rule_zero_events(ck):
    """D7.empty: a simulated catalog may have no events (an L-test draw of 0, an empty observation in the conditional tests): in the
    simulators nothing takes the minimum / maximum / arg-extremum of a per-event array without an `initial=` or a test that there are
    events - numpy raises "zero-size array to reduction operation" for the empty case and the whole test fails"""
    P = ck.prog
    ck.clause('D7')
    REDUCE = ('numpy.min', 'numpy.max', 'numpy.amin', 'numpy.amax', 'numpy.argmin', 'numpy.argmax', 'numpy.nanmin', 'numpy.nanmax', 'builtins.min', 'builtins.max',
              '.min', '.max', '.argmin', '.argmax')
    for sq in (PE + '_simulate_catalog', BE + '_simulate_catalog', BR + '_simulate_catalog'):
        f = P.func(sq)
        # per-event names: the injected / drawn numbers and whatever is computed from them element-wise
        per_event = {'random_numbers'} & set(f.params)
        changed = True
        while changed:
            changed = False
            for a in all_nodes(f):
                if isinstance(a, ast.Assign) and len(a.targets) == 1 and isinstance(a.targets[0], ast.Name) and a.targets[0].id not in per_event:
                    if any(isinstance(x, ast.Name) and x.id in per_event for x in ast.walk(a.value)) or \
                            any(isinstance(x, ast.Call) and (callee(P, f, x) or '') in ('numpy.random.rand', 'numpy.random.uniform', 'numpy.random.random') for x in ast.walk(a.value)):
                        per_event.add(a.targets[0].id)
                        changed = True
        n = 0
        for c in all_nodes(f):
            if not isinstance(c, ast.Call):
                continue
            nm = callee(P, f, c) or ''
            if nm not in REDUCE and not (isinstance(c.func, ast.Attribute) and ('.' + c.func.attr) in REDUCE):
                continue
            arg = c.args[0] if c.args else (c.func.value if isinstance(c.func, ast.Attribute) else None)
            if arg is None or not any(isinstance(x, ast.Name) and x.id in per_event for x in ast.walk(arg)):
                continue
            if nm in ('builtins.min', 'builtins.max') and len(c.args) > 1:
                continue
            n += 1
            o = ck.ob('C06-D7.empty', f, c, c)
            if kw(c, 'initial') is not None or kw(c, 'default') is not None:
                o.ok('has an initial value')
                continue
            guarded = any(any(w in u(t) for w in ('num_events', 'len(', '.size', 'shape[0]', 'sim_cells')) for t, pol in guards_of(c, f.node))
            (o.ok('guarded by a test on the number of events') if guarded else
             o.fail('`%s` reduces a per-event array that is empty when the catalog to simulate has no events: ValueError (zero-size array to '
                    'reduction operation) instead of an empty simulated catalog' % u(c)[:60]))
        ck.extra.setdefault('extremum_reductions_in_simulators', {})[f.short] = n


def rule_injected_used(ck):
    """D1.injected: whether a simulation uses injected numbers is decided by `random_numbers is None`, not by whether taking row `idx`
    raised: a handler that falls back to drawing from the global generator (too few rows, a 1-d array, a list) makes the result depend
    on the state of that generator although numbers were injected"""
    P = ck.prog
    ck.clause('D1')
    for tq in KERNEL_TESTS:
        t = P.func(tq)
        o = ck.ob('C06-D1.injected', t, 'injected numbers are used for every simulation or refused', t.node)
        bad = []
        for h in [x for x in all_nodes(t) if isinstance(x, ast.ExceptHandler)]:
            if any((isinstance(a_, ast.Assign) and const_value(a_.value) is None) or
                   (isinstance(a_, ast.Call) and (callee(P, t, a_) or '').endswith('_simulate_catalog')) for s_ in h.body for a_ in ast.walk(s_)):
                bad.append(h)
        (o.fail('`except %s` in %s falls back to numbers drawn from the global generator when the injected ones cannot be taken: the result is '
                'then no function of forecast, catalog and the injected numbers' % (u(bad[0].type) if bad[0].type is not None else '', t.short))
         if bad else o.ok())


def rule_precision(ck):
    """D4.double: the cumulative weights are built from the rates in the precision they were supplied in: an interval boundary F_k
    rounded to float32 moves by up to 6e-8 F_k, so a uniform number next to it is placed in the neighbouring bin"""
    from .common import rule_double_precision
    ck.clause('D4')
    rule_double_precision(ck, 'C06-D4.double',
                          modules=('csep.core.poisson_evaluations', 'csep.core.binomial_evaluations', 'csep.core.brier_evaluations', 'csep.core.forecasts'),
                          what='the rates that become the sampling weights')


def rule_rates_view(ck):
    """the weights are computed from forecast.data / its marginals: the scaled view is a fresh array (shared C11-D1, C11-D4)"""
    from . import c11
    ck.clause('shared C11-D1/D4 (the scaled view and its marginals)')
    c11.rule_scaling(ck)
    c11.rule_axes(ck)


RULES = [rule_injected_used, rule_seed, rule_rng_sources, rule_sampling, rule_weights, rule_reset, rule_event_numbers, rule_quantile, rule_catalog_seeded, rule_precision,
         rule_rates_view, rule_zero_events]
