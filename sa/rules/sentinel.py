"""SENTINEL flow rule (DESIGN appendix A1): the -1 that bin1d_vec returns for an out-of-range value must never
reach an index store, numpy.add.at, or an index load whose value survives.

Sources : calls resolving to csep.utils.calc.bin1d_vec (and package functions that return such a result unguarded).
Sinks   : a Subscript whose slice mentions a tainted name (base not the tainted array itself); index of numpy.add.at.
Discharge idioms (enumerated from the tree, see DESIGN):
 g1 dominating `if <any sentinel test of t>: raise`
 g2 per-element guard: the sink is controlled by (or is itself a conjunct of) a conjunction containing `t[i] != -1`
    for each tainted name, or is preceded in its block by `if t[i] == -1: raise/continue`
 g3 the index is t[m] with m derived from (t != -1) / the complement of a disjunction containing (t == -1)
 g4 load only: the loaded value is OR-ed with the sentinel tests, or stored in a variable that is then overwritten
    at where(sentinel tests) with a constant
"""
import ast

from ..core.expand import u, Expander, call_name
from ..core.loader import const_value, parents, walk_scope
from .common import all_nodes, callee, stmt_of, guards_of, calls_in, raises_in

BIN = 'csep.utils.calc.bin1d_vec'


def _is_minus_one(n):
    return const_value(n) == -1


def sentinel_test_names(test, polarity_wanted):
    """Names (or 'name[...]' element forms) for which `test` being <polarity_wanted> implies value != -1... returns
    two sets: names whose sentinel-ness is *asserted* by the test being True, and names *excluded* when True."""
    asserted, excluded = set(), set()

    def base_name(e):
        # t, t[i], (t)
        while isinstance(e, ast.Subscript):
            e = e.value
        return e.id if isinstance(e, ast.Name) else None

    def visit(t, pos):
        if isinstance(t, ast.BoolOp):
            for v in t.values:
                visit(v, pos)
            return
        if isinstance(t, ast.BinOp) and isinstance(t.op, (ast.BitOr, ast.BitAnd)):
            visit(t.left, pos)
            visit(t.right, pos)
            return
        if isinstance(t, ast.UnaryOp) and isinstance(t.op, (ast.Not, ast.Invert)):
            visit(t.operand, not pos)
            return
        if isinstance(t, ast.Call):
            # numpy.any(x) / x.any()
            c = t.func
            if isinstance(c, ast.Attribute) and c.attr == 'any':
                inner = t.args[0] if t.args else c.value
                visit(inner, pos)
                return
            if isinstance(c, ast.Attribute) and c.attr == 'all':
                # all(t == -1) says nothing about a single sentinel element; all(t != -1) excludes every element
                inner = t.args[0] if t.args else c.value
                a, e = sentinel_test_names(inner, True)
                if pos:
                    excluded.update(e)
                else:
                    asserted.update(e)   # not all(t != -1)  ==  any(t == -1)
                return
        if isinstance(t, ast.Compare) and len(t.ops) == 1:
            a, op, b = t.left, t.ops[0], t.comparators[0]
            nm = base_name(a)
            if nm is None and base_name(b) is not None:
                # constant on the left
                nm, a, b = base_name(b), b, a
                op = {ast.Lt: ast.Gt, ast.Gt: ast.Lt, ast.LtE: ast.GtE, ast.GtE: ast.LtE}.get(type(op), type(op))()
            if nm is None:
                return
            cv = const_value(b)
            is_sent = (isinstance(op, ast.Eq) and cv == -1) or (isinstance(op, ast.Lt) and cv == 0) or \
                      (isinstance(op, ast.LtE) and cv == -1)
            is_ok = (isinstance(op, ast.NotEq) and cv == -1) or (isinstance(op, ast.GtE) and cv == 0) or \
                    (isinstance(op, ast.Gt) and cv == -1)
            if is_sent:
                (asserted if pos else excluded).add(nm)
            elif is_ok:
                (excluded if pos else asserted).add(nm)
    visit(test, True)
    return asserted, excluded


def conjuncts(t):
    if isinstance(t, ast.BoolOp) and isinstance(t.op, ast.And):
        out = []
        for v in t.values:
            out.extend(conjuncts(v))
        return out
    if isinstance(t, ast.BinOp) and isinstance(t.op, ast.BitAnd):
        return conjuncts(t.left) + conjuncts(t.right)
    return [t]


def disjuncts(t):
    if isinstance(t, ast.BoolOp) and isinstance(t.op, ast.Or):
        out = []
        for v in t.values:
            out.extend(disjuncts(v))
        return out
    if isinstance(t, ast.BinOp) and isinstance(t.op, ast.BitOr):
        return disjuncts(t.left) + disjuncts(t.right)
    return [t]


def _in_sentinel_test(name_node, stop):
    """is this occurrence only compared against the sentinel (t != -1, t >= 0, ...)?"""
    for p in parents(name_node):
        if isinstance(p, ast.Compare):
            a, e = sentinel_test_names(p, True)
            return bool(a or e)
        if p is stop or isinstance(p, ast.stmt):
            return False
    return False


class Taint:
    def __init__(self, prog, f, sources=None):
        self.prog, self.f = prog, f
        self.ex = Expander(prog, f)
        self.tainted = {}      # name -> source call
        self.masked = {}       # name -> the numpy.ma wrapper that hides the sentinel from comparisons
        src = set(sources or [BIN])

        def strip(v):
            # shape-only wrappers, and numpy.ma wrappers (which keep the -1 in the data but hide it from `== -1` / numpy.any)
            hidden = None
            while isinstance(v, ast.Call):
                if isinstance(v.func, ast.Attribute) and v.func.attr in ('astype', 'copy', 'ravel') and not isinstance(v.func.value, ast.Name):
                    v = v.func.value
                    continue
                if isinstance(v.func, ast.Attribute) and v.func.attr in ('astype', 'copy', 'ravel') and isinstance(v.func.value, ast.Name):
                    break
                c = call_name(v) or callee(prog, f, v) or ''
                if c.startswith('numpy.ma.') and v.args:
                    hidden = hidden or v
                    v = v.args[0]
                    continue
                break
            return v, hidden
        for n in all_nodes(f):
            if isinstance(n, ast.Assign) and len(n.targets) == 1 and isinstance(n.targets[0], ast.Name):
                v = n.value
                while isinstance(v, ast.Call) and isinstance(v.func, ast.Attribute) and v.func.attr in ('astype', 'copy', 'ravel'):
                    v = v.func.value
                if isinstance(v, ast.Call) and callee(prog, f, v) in src:
                    self.tainted[n.targets[0].id] = v
                    continue
                # a package function / method that hands back a bin1d_vec result (possibly wrapped)
                if isinstance(v, ast.Call):
                    q = callee(prog, f, v)
                    g = prog.funcs.get(q) if q else None
                    if g is not None and g is not f and q.startswith('csep.'):
                        try:
                            gex = Expander(prog, g)
                            rets = [r for r in walk_scope(g.node) if isinstance(r, ast.Return) and r.value is not None]
                        except Exception:
                            rets = []
                        for r in rets[:4]:
                            try:
                                rv, hidden = strip(gex.expand(r.value))
                            except Exception:
                                continue
                            while isinstance(rv, ast.Call) and isinstance(rv.func, ast.Attribute) and rv.func.attr in ('astype', 'copy', 'ravel'):
                                rv = rv.func.value
                            if isinstance(rv, ast.Call) and (call_name(rv) in src or callee(prog, g, rv) in src):
                                self.tainted[n.targets[0].id] = v
                                if hidden is not None:
                                    self.masked[n.targets[0].id] = hidden

    # ---- derived masks: variable -> set of tainted names whose sentinel positions it flags (True = bad)
    def bad_masks(self):
        out = {}
        for n in all_nodes(self.f):
            if isinstance(n, ast.Assign) and len(n.targets) == 1 and isinstance(n.targets[0], ast.Name):
                v = n.value
                # numpy.where(cond) wrapper
                if isinstance(v, ast.Call) and callee(self.prog, self.f, v) in ('numpy.where', 'numpy.nonzero', 'numpy.flatnonzero') and len(v.args) == 1:
                    v = v.args[0]
                names = set()
                for d in disjuncts(v):
                    a, e = sentinel_test_names(d, True)
                    names |= a
                if names:
                    out[n.targets[0].id] = names
        return out

    def good_masks(self):
        out = {}
        for n in all_nodes(self.f):
            if isinstance(n, ast.Assign) and len(n.targets) == 1 and isinstance(n.targets[0], ast.Name):
                names = None
                for c in conjuncts(n.value):
                    a, e = sentinel_test_names(c, True)
                    if e:
                        names = (names or set()) | e
                if names:
                    out[n.targets[0].id] = names
        return out


def check_function(ck, f, rule, mode='reject', sources=None, accepted=None, only_role=None):
    """Emit one obligation per index sink fed by a bin1d_vec result in `f`.
    mode 'reject' : discharge needs g1/g2/g3/g4; mode 'drop-ok': additionally accepts dropping (g3) - same set.
    accepted: {construct text: reason}. Returns number of sinks."""
    P = ck.prog
    T = Taint(P, f, sources)
    if not T.tainted:
        return 0
    bad = T.bad_masks()
    good = T.good_masks()
    # a complement held in a temporary: inside = ~bad  (and the reverse)
    for _ in range(2):
        for n in all_nodes(f):
            if isinstance(n, ast.Assign) and len(n.targets) == 1 and isinstance(n.targets[0], ast.Name):
                v = n.value
                inner = None
                if isinstance(v, ast.UnaryOp) and isinstance(v.op, (ast.Invert, ast.Not)) and isinstance(v.operand, ast.Name):
                    inner = v.operand.id
                elif isinstance(v, ast.Call) and isinstance(v.func, ast.Attribute) and v.func.attr in ('logical_not', 'invert') and len(v.args) == 1 \
                        and isinstance(v.args[0], ast.Name):
                    inner = v.args[0].id
                if inner is not None:
                    if inner in bad:
                        good.setdefault(n.targets[0].id, set()).update(bad[inner])
                    if inner in good:
                        bad.setdefault(n.targets[0].id, set()).update(good[inner])
    cfg = f.cfg
    nsinks = 0
    accepted = accepted or {}

    # --- g1: dominating raising tests
    raising_tests = []   # (cfg node, set(names asserted sentinel when branch to raise))
    for n in all_nodes(f):
        if isinstance(n, ast.If):
            body_raises = bool(n.body) and isinstance(n.body[-1], (ast.Raise,)) or any(isinstance(s, ast.Raise) for s in n.body)
            else_raises = bool(n.orelse) and any(isinstance(s, ast.Raise) for s in n.orelse)
            a, e = sentinel_test_names(n.test, True)
            if body_raises and a:
                raising_tests.append((n, a, 'raise'))
            if else_raises and e:
                raising_tests.append((n, e, 'raise'))
            # continue / return in a loop body also removes the element
            if a and n.body and isinstance(n.body[-1], (ast.Continue, ast.Return)):
                raising_tests.append((n, a, 'skip'))

    def names_in_slice(sl):
        return {x.id for x in ast.walk(sl) if isinstance(x, ast.Name) and x.id in T.tainted}

    def dominated_by_raise(sink_stmt, name):
        sn = cfg.node_of(sink_stmt) or cfg.stmt_node_containing(sink_stmt)
        for ifn, names, kind in raising_tests:
            if name in names:
                tn = cfg.node_of(ifn)
                if tn is not None and sn is not None and tn is not sn and cfg.dominates(tn, sn):
                    return True
        return False

    def guarded_elementwise(node, name):
        # controlled by a conjunction containing name[i] != -1 (polarity True) or its negation form
        for test, pol in guards_of(node, f.node):
            a, e = sentinel_test_names(test, True)
            if pol and name in e and all(True for _ in [0]):
                # every conjunct semantics: `e` collects names excluded when the whole test is True only if they
                # appear as top-level conjuncts
                for c in conjuncts(test):
                    a2, e2 = sentinel_test_names(c, True)
                    if name in e2:
                        return True
            if not pol and name in a:
                for d in disjuncts(test):
                    a2, e2 = sentinel_test_names(d, True)
                    if name in a2:
                        return True
        # the sink itself is a conjunct of such a conjunction (value-neutral read)
        for p in parents(node):
            if isinstance(p, ast.BoolOp) and isinstance(p.op, ast.And):
                for c in conjuncts(p):
                    a2, e2 = sentinel_test_names(c, True)
                    if name in e2:
                        return True
            if isinstance(p, ast.stmt):
                break
        return False

    def filtered(expr, name):
        """expr is name[m] with m a good mask / complement of a bad mask / direct (name != -1)"""
        if not (isinstance(expr, ast.Subscript) and isinstance(expr.value, ast.Name) and expr.value.id == name):
            return False
        m = expr.slice
        if isinstance(m, ast.UnaryOp) and isinstance(m.op, (ast.Invert, ast.Not)) and isinstance(m.operand, ast.Name):
            return name in bad.get(m.operand.id, ())
        if isinstance(m, ast.Name):
            return name in good.get(m.id, ())
        for c in conjuncts(m):
            a, e = sentinel_test_names(c, True)
            if name in e:
                return True
        return False

    def neutralised_load(sub, names):
        """g4: the load's value is OR-ed with the sentinel tests of all names, or assigned to V that is later
        overwritten at where(sentinel tests) by a constant."""
        # (a) inside a disjunction with the tests
        for p in parents(sub):
            if (isinstance(p, ast.BinOp) and isinstance(p.op, ast.BitOr)) or (isinstance(p, ast.BoolOp) and isinstance(p.op, ast.Or)):
                top = p
                while True:
                    q = getattr(top, '_parent', None)
                    if (isinstance(q, ast.BinOp) and isinstance(q.op, ast.BitOr)) or (isinstance(q, ast.BoolOp) and isinstance(q.op, ast.Or)):
                        top = q
                    else:
                        break
                got = set()
                for d in disjuncts(top):
                    a, e = sentinel_test_names(d, True)
                    got |= a
                if names <= got:
                    return 'OR-ed with the sentinel tests'
            if isinstance(p, ast.stmt):
                break
        # (b) V = <load...> ; V[W] = const with W a bad mask for all names
        st = stmt_of(sub)
        if isinstance(st, ast.Assign) and len(st.targets) == 1 and isinstance(st.targets[0], ast.Name):
            V = st.targets[0].id
            sn = cfg.node_of(st)
            for n in all_nodes(f):
                if isinstance(n, ast.Assign) and len(n.targets) == 1 and isinstance(n.targets[0], ast.Subscript) \
                        and isinstance(n.targets[0].value, ast.Name) and n.targets[0].value.id == V \
                        and const_value(n.value) is not NotImplemented:
                    w = n.targets[0].slice
                    flagged = set()
                    if isinstance(w, ast.Name):
                        flagged = bad.get(w.id, set())
                    else:
                        for d in disjuncts(w):
                            a, e = sentinel_test_names(d, True)
                            flagged |= a
                    nn = cfg.node_of(n)
                    if names <= flagged and sn is not None and nn is not None and cfg.dominates(sn, nn):
                        # no other use of V between load and overwrite
                        return 'overwritten at the sentinel positions'
        return None

    seen = set()
    for n in all_nodes(f):
        sinks = []
        if isinstance(n, ast.Subscript):
            base = n.value
            if isinstance(base, ast.Name) and base.id in T.tainted:
                continue
            nm = names_in_slice(n.slice)
            if nm:
                sinks.append((n, n.slice, nm, 'store' if isinstance(n.ctx, ast.Store) else 'load'))
        elif isinstance(n, ast.Call) and callee(P, f, n) == 'numpy.add.at' and len(n.args) >= 2:
            nm = names_in_slice(n.args[1])
            if nm:
                sinks.append((n, n.args[1], nm, 'add.at'))
        for node, sl, names, kind in sinks:
            # skip nested subscripts already covered (inner part of a larger slice)
            if id(node) in seen:
                continue
            seen.add(id(node))
            nsinks += 1
            st = stmt_of(node)
            o = ck.ob(rule, f, '%s: %s' % (kind, u(node)[:100]), node)
            key = u(node)
            if key in accepted:
                o.ok('accepted: ' + accepted[key])
                continue
            missing = []
            how = []
            for name in sorted(names):
                if name in T.masked:
                    # comparisons with a masked array are masked where the array is: `numpy.any(t == -1)` never sees the sentinel
                    missing.append(name)
                    continue
                if dominated_by_raise(st, name):
                    how.append('%s: dominating raise' % name)
                    continue
                if guarded_elementwise(node, name):
                    how.append('%s: per-element guard' % name)
                    continue
                # g3: every occurrence of the name in the slice is filtered
                occ = [x for x in ast.walk(sl) if isinstance(x, ast.Name) and x.id == name and not _in_sentinel_test(x, sl)]
                if occ and all(filtered(getattr(x, '_parent', None), name) for x in occ):
                    how.append('%s: filtered by the sentinel mask' % name)
                    continue
                missing.append(name)
            if missing and kind == 'load':
                r = neutralised_load(node, set(missing))
                if r:
                    how.append('%s: %s' % ('/'.join(missing), r))
                    missing = []
            if missing:
                src = u(T.tainted[missing[0]])[:70]
                if missing[0] in T.masked:
                    src += ' (returned through %s: the -1 stays in the data, but every `== -1` test on the masked array is masked there too)' % u(T.masked[missing[0]].func)
                o.fail('index `%s` comes from `%s`, which is -1 for an out-of-range value; nothing on the path rejects, '
                       'drops or neutralises that sentinel before this %s: numpy wraps -1 to the LAST element, so the '
                       'event is silently counted/looked up in another cell or bin' % ('/'.join(missing), src, kind))
            else:
                o.ok('; '.join(how))
    return nsinks
