"""C17 - quadtree grids tile the globe and locate points in their containing tile."""
import ast

from ..core import sym
from ..core.expand import u, call_name, get_arg, bind_args, Expander, is_marker, phi_alternatives
from ..core.loader import Inconclusive, const_value, parents
from .common import (element_of, canon_calls, guard_dnf, returns, all_nodes, callee, strip_shape, calls_in, guards_of, stmt_of, kw, find_assignments, in_loop, loops_around)

EXPLANATION = (
    "Decided: D1 ownership tests (_find_location, _create_tile) are conjunctions lon >= west, lat >= south, lon < east, "
    "lat < north over bounds of one and the same tile - west/south inclusive, east/north exclusive - read as sets, "
    "so the event count that drives refinement uses the same ownership as the lookup; D2 every split issues exactly "
    "the four children q+'0'..q+'3', each once, and the builders start from exactly the roots '0'..'3', each once; "
    "D3 split iff {num_eqs >= threshold+1} and {len(quadkey) <= zoom-1} (integer reading), leaf otherwise - recorded "
    "once; the single-resolution builder splits iff len < zoom; D4 bounds rows are [west, south, east, north], all "
    "four from mercantile.bounds of the same quadkey quadk[i]; get_bbox / get_cell_area / compute_vertex_bounds use "
    "those column roles; _find_location is a pure function of the bounds test (every return derives from it, no "
    "instance state is read or written by a lookup) and returns an element of the match set or the empty match set. "
    "NOT decided: that mercantile's tiles are disjoint and cover the band, areas summing to the band, events exactly "
    "on tile boundaries as float facts. "
    "Also decided (round 5): D4.double bounds keep their precision; D4.areafresh the area computation dominates every return of get_cell_area; G-DEFAULT on the tile builders.")
CLAUSES = {'D1': 'half-open ownership', 'D2': 'four children / four roots, once each', 'D3': 'split predicate', 'D4': 'bounds roles and pure lookup'}
TRUSTED = ['CPython ast', 'mercantile.bounds(tile) -> (west, south, east, north); children of quadkey q are q+0..q+3 and partition it']
R = 'csep.core.regions.'
Q = R + 'QuadtreeGrid2D.'
ROOTS = [Q + 'from_single_resolution', Q + 'from_catalog', Q + 'from_quadkeys', Q + 'get_index_of', Q + 'get_cell_area', Q + 'get_bbox',
         R + '_create_tile', R + '_create_tile_fix_len', R + 'quadtree_grid_bounds']
TECHNIQUE = 'static analysis: set reading of comparison conjunctions, multiset rule on recursive calls, integer reading of the split predicate, purity (effect) rule'


def _conjuncts(e):
    s = e
    if isinstance(s, ast.Call) and call_name_local(s) in ('logical_and',) and len(s.args) == 2:
        return _conjuncts(s.args[0]) + _conjuncts(s.args[1])
    if isinstance(s, ast.BinOp) and isinstance(s.op, ast.BitAnd):
        return _conjuncts(s.left) + _conjuncts(s.right)
    if isinstance(s, ast.BoolOp) and isinstance(s.op, ast.And):
        out = []
        for v in s.values:
            out += _conjuncts(v)
        return out
    return [s]


def call_name_local(c):
    f = c.func
    return f.attr if isinstance(f, ast.Attribute) else (f.id.split('.')[-1] if isinstance(f, ast.Name) else None)


def _ownership(ck, f, expr, roles, rule):
    """roles: {'west': text-of-west-expr, ...}; check the four half-open comparisons"""
    o = ck.ob(rule, f, expr, expr)
    # temporaries holding parts of the conjunction are looked through; the coordinates and the bound objects stay symbolic
    keep = set(f.params) | {t_.split('.')[0].split('[')[0] for t_ in roles.values()}
    try:
        expr = Expander(ck.prog, f, keep=keep, expand_self=False).expand(expr)
    except Exception:
        pass
    cj = _conjuncts(expr)
    got = {}
    probs = []
    for c in cj:
        if not (isinstance(c, ast.Compare) and len(c.ops) == 1):
            probs.append('conjunct `%s` is not a comparison' % u(c))
            continue
        l, op, r = u(c.left), c.ops[0], u(c.comparators[0])
        # normalise to coordinate on the left
        flip = {ast.Lt: ast.Gt, ast.Gt: ast.Lt, ast.LtE: ast.GtE, ast.GtE: ast.LtE}
        side = None
        for name, txt in roles.items():
            if r == txt:
                side = name
                coord, k = l, type(op)
            elif l == txt:
                side = name
                coord, k = r, flip.get(type(op), type(op))
        if side is None:
            probs.append('`%s` does not compare a coordinate with a tile bound' % u(c))
            continue
        got[side] = (coord, k)
    # the coordinates compared are the ones the function was given (no wrapping / shifting before the test)
    for pname in f.params:
        if pname.lower() in ('lon', 'lat', 'lons', 'lats') and find_assignments(f, pname):
            probs.append('`%s` is recomputed before the bounds test (`%s`): the point tested is not the point asked about'
                         % (pname, u(find_assignments(f, pname)[0])[:70]))
    want = {'west': ('lon', ast.GtE), 'south': ('lat', ast.GtE), 'east': ('lon', ast.Lt), 'north': ('lat', ast.Lt)}
    for side, (coord, k) in want.items():
        if side not in got:
            probs.append('no test against the %s bound' % side)
            continue
        gc, gk = got[side]
        if coord not in gc.lower():
            probs.append('the %s bound is compared with `%s`, expected the %s' % (side, gc, 'longitude' if coord == 'lon' else 'latitude'))
        elif gc not in f.params:
            # the point itself, not a shifted / padded copy of it: a tolerance added on one side makes two neighbouring tiles claim the
            # points within it, and which of the two is returned then depends on the order the tiles are stored in
            probs.append('the %s bound is compared with `%s`, not with the coordinate `%s` itself: a point within that allowance of a shared '
                         'edge lies in both neighbouring tiles (or in neither)' % (side, gc[:50], [p_ for p_ in f.params if coord in p_.lower()][:1]))
        if gk is not k:
            sym_ = {ast.GtE: '>=', ast.Lt: '<', ast.Gt: '>', ast.LtE: '<='}
            probs.append('%s bound uses `%s`, ownership is %s-%s (`%s`): a point on a shared edge is owned by %s tiles' % (
                side, sym_.get(gk, '?'), side, 'inclusive' if k is ast.GtE else 'exclusive', sym_[k],
                'both' if gk in (ast.LtE, ast.GtE) else 'neither of the'))
    if len(cj) != 4 and not probs:
        probs.append('%d conjuncts' % len(cj))
    (o.fail('; '.join(probs)) if probs else o.ok('lon>=W, lat>=S, lon<E, lat<N'))
    return not probs


def rule_ownership(ck):
    P = ck.prog
    ck.clause('D1')
    f = P.func(Q + '_find_location')
    locs = [a for a in find_assignments(f, 'loc')]
    if len(locs) != 1:
        ck.ob('C17-D1.lookup', f, 'loc', f.node).fail('_find_location does not compute a single ownership mask')
    else:
        _ownership(ck, f, locs[0].value, {'west': 'self.bounds[:, 0]', 'south': 'self.bounds[:, 1]', 'east': 'self.bounds[:, 2]', 'north': 'self.bounds[:, 3]'}, 'C17-D1.lookup')
    g = P.func(R + '_create_tile')
    eqs = find_assignments(g, 'eqs')
    b = find_assignments(g, 'boundary')
    o = ck.ob('C17-D1.tilebounds', g, b[0] if b else 'boundary', b[0] if b else g.node)
    (o.ok() if len(b) == 1 and u(b[0].value) == 'mercantile.bounds(mercantile.quadkey_to_tile(%s))' % g.positional_params[0] else
     o.fail('the tile bounds are not mercantile.bounds of the tile\'s own quadkey'))
    if len(eqs) != 1:
        ck.ob('C17-D1.count', g, 'eqs', g.node).fail('_create_tile does not compute a single ownership mask')
    else:
        _ownership(ck, g, eqs[0].value, {'west': 'boundary.west', 'south': 'boundary.south', 'east': 'boundary.east', 'north': 'boundary.north'}, 'C17-D1.count')
    # the count is the number of owned events
    ne = find_assignments(g, 'num_eqs')
    o = ck.ob('C17-D1.numeqs', g, ne[0] if ne else 'num_eqs', ne[0] if ne else g.node)
    N = sym.Normalizer()
    ok = len(ne) == 1 and u(ne[0].value) in ('numpy.size(lat[eqs])', 'numpy.size(lon[eqs])', 'numpy.count_nonzero(eqs)', 'numpy.sum(eqs)', 'eqs.sum()', 'len(lat[eqs])', 'len(lon[eqs])')
    (o.ok() if ok else o.fail('num_eqs is `%s`, not the number of events owned by the tile' % (u(ne[0].value) if ne else '?')))


def rule_children(ck):
    P = ck.prog
    ck.clause('D2')
    for q in (R + '_create_tile', R + '_create_tile_fix_len'):
        f = P.func(q)
        rec = [c for c in all_nodes(f) if isinstance(c, ast.Call) and callee(P, f, c) == q]
        o = ck.ob('C17-D2.children', f, '%d recursive calls' % len(rec), f.node)
        qk = f.positional_params[0]
        kids = []
        bad = []
        exk = Expander(P, f)
        for c in rec:
            a = c.args[0] if c.args else None
            if isinstance(a, ast.BinOp) and isinstance(a.op, ast.Add) and u(a.left) == qk and isinstance(a.right, ast.Constant):
                kids.append(a.right.value)
            elif isinstance(a, ast.BinOp) and isinstance(a.op, ast.Add) and u(a.left) == qk and isinstance(a.right, ast.Name) and in_loop(c, f.node) is not None \
                    and isinstance(in_loop(c, f.node), ast.For) and isinstance(in_loop(c, f.node).target, ast.Name) and in_loop(c, f.node).target.id == a.right.id:
                # children issued by a loop over a constant sequence of suffixes
                it = const_value(exk.expand(in_loop(c, f.node).iter))
                lp = in_loop(c, f.node)
                if it is not NotImplemented and isinstance(it, (tuple, list, str)) and not any(isinstance(x, (ast.Break, ast.Continue)) for x in ast.walk(lp)) \
                        and not guards_of(c, lp):
                    kids.extend(list(it))
                else:
                    bad.append('loop over `%s`' % u(lp.iter))
            else:
                bad.append(u(a) if a is not None else '?')
            # other arguments forwarded unchanged
            rest = [u(x) for x in c.args[1:]]
            if rest != f.positional_params[1:]:
                bad.append('arguments %s not forwarded unchanged' % rest)
        if bad or sorted(map(str, kids)) != ['0', '1', '2', '3']:
            o.fail('a split issues the children %s %s; it must issue exactly q+\'0\', q+\'1\', q+\'2\', q+\'3\', each once (a missing child leaves a '
                   'hole, a repeated one overlaps)' % (sorted(kids), bad or ''))
        else:
            o.ok("q+'0'..q+'3', each once")
        # all four under the same (split) branch
        def split_guard(c):
            g = [t for t, pol in guards_of(c, f.node)]
            return id(g[-1]) if g else None
        branches = {split_guard(c) for c in rec}
        oo = ck.ob('C17-D2.branch', f, 'children issued together', f.node)
        (oo.ok() if len(branches) == 1 and None not in branches else oo.fail('the four children are not issued under one split condition'))
    for q, callee_q in ((Q + 'from_catalog', R + '_create_tile'), (Q + 'from_single_resolution', R + '_create_tile_fix_len')):
        f = P.func(q)
        calls = calls_in(P, f, callee_q)
        roots = [const_value(c.args[0]) for c in calls if c.args]
        o = ck.ob('C17-D2.roots', f, roots, f.node)
        same = len({tuple(u(a) for a in c.args[1:]) for c in calls}) == 1
        cond = any(guards_of(c, f.node) for c in calls) or any(in_loop(c, f.node) is not None for c in calls)
        (o.ok() if sorted(map(str, roots)) == ['0', '1', '2', '3'] and same and not cond else
         o.fail('the builder starts from the roots %s; the globe is the four zoom-1 tiles \'0\',\'1\',\'2\',\'3\', each exactly once with the same parameters' % roots))
        ex = Expander(P, f)
        if q == Q + 'from_catalog':
            # the refinement counts the catalog's own epicentres: the same coordinates the lookup would be asked about
            g = P.func(callee_q)
            for c in calls[:1]:
                m, okb = bind_args(g, c)
                for pname, acc in (('lon', 'get_longitudes'), ('lat', 'get_latitudes')):
                    oo = ck.ob('C17-D3.coords', f, '%s handed to the refinement' % pname, c)
                    a = m.get(pname)
                    e = strip_shape(ex.expand(a)) if a is not None else None
                    good = isinstance(e, ast.Call) and isinstance(e.func, ast.Attribute) and e.func.attr == acc and not e.args \
                        and isinstance(e.func.value, ast.Name) and e.func.value.id == f.positional_params[1 if f.positional_params[0] in ('cls', 'self') else 0]
                    (oo.ok('catalog.%s()' % acc) if good else
                     oo.fail('the refinement counts events at `%s`, not at the catalog\'s %s: cells are then split (or kept) by events the '
                             'point lookup places elsewhere, so a cell can exceed the threshold or be split at or below it'
                             % (u(e)[:90] if e is not None else '?', acc[4:])))
            # ... with the threshold and the maximum zoom the caller asked for: a threshold of 0 is a threshold, not a missing argument
            for c in calls[:1]:
                m, okb = bind_args(g, c)
                for pname in ('threshold', 'zoom'):
                    if pname not in f.params or pname not in m:
                        continue
                    oo = ck.ob('C17-D3.asked', f, '%s handed to the refinement' % pname, c)
                    e = ex.expand(m[pname])
                    from ..core.expand import phi_alternatives
                    from .common import is_none_test
                    alts = phi_alternatives(e)
                    defaulted = len(alts) > 1 and any(isinstance(a_, ast.Name) and a_.id == pname for a_ in alts) and \
                        all(any(is_none_test(t_, pname) == pol_ for t_, pol_ in guards_of(d_, f.node)) for d_ in find_assignments(f, pname))
                    (oo.ok('the argument itself') if (isinstance(e, ast.Name) and e.id == pname) or defaulted else
                     oo.fail('the refinement runs with %s = `%s`, not with the value the caller gave: cells are then split at another count '
                             '(or depth) than the one asked for' % (pname, u(e)[:80])))
        # the result is built from the collected quadkeys
        o = ck.ob('C17-D2.collect', f, 'region built from the collected quadkeys', f.node)
        r = [x for x in returns(f) if x.value is not None]
        txt = ' '.join(u(s) for s in f.node.body)
        ok = 'bounds = quadtree_grid_bounds(qk)' in txt and 'compute_vertices_bounds(bounds)' in txt and 'qk = numpy.array(qk)' in txt
        (o.ok() if ok else o.fail('the region is not built from the collected quadkeys and their bounds'))


def rule_split(ck):
    P = ck.prog
    ck.clause('D3')
    N = sym.Normalizer()
    f = P.func(R + '_create_tile')
    rec = [c for c in all_nodes(f) if isinstance(c, ast.Call) and callee(P, f, c) == f.qualname]
    o = ck.ob('C17-D3.predicate', f, 'split iff count > threshold and depth < zoom', f.node)
    qk, thr, zoom = f.positional_params[0], f.positional_params[1], f.positional_params[2]

    def lit(atom, pol):
        e = atom if pol else ast.UnaryOp(op=ast.Not(), operand=atom)
        return N.nf(e).skey()

    def dnf_keys(node):
        return {frozenset(lit(a_, p_) for a_, p_ in conj) for conj in guard_dnf(node, f.node)}
    # integer reading: num_eqs > thr == num_eqs >= thr+1 ; len(q) < zoom == len(q) <= zoom-1 (same normal form)
    A = ast.parse('num_eqs > %s' % thr, mode='eval').body
    B = ast.parse('len(%s) < %s' % (qk, zoom), mode='eval').body
    A2 = ast.parse('num_eqs >= %s + 1' % thr, mode='eval').body
    B2 = ast.parse('len(%s) <= %s - 1' % (qk, zoom), mode='eval').body
    want_split = [{frozenset({lit(a_, True), lit(b_, True)})} for a_ in (A, A2) for b_ in (B, B2)]
    want_leaf = [{frozenset({lit(a_, False)}), frozenset({lit(b_, False)})} for a_ in (A, A2) for b_ in (B, B2)]
    if not rec:
        o.fail('no recursive call: cells are never split')
        return
    got = dnf_keys(rec[0])
    if got in want_split:
        o.ok('num_eqs > threshold and len(quadkey) < zoom')
    else:
        conds = ' or '.join(' and '.join(('' if p_ else 'not ') + u(a_) for a_, p_ in conj) for conj in guard_dnf(rec[0], f.node)) or 'no condition'
        o.fail('the split condition is `%s`; a cell must be split iff it holds more than `threshold` events and is above the maximum zoom: '
               '>= splits a cell at the threshold, <= exceeds the maximum zoom' % conds)
    # leaf: the quadkey and its count are recorded once, exactly when the cell is not split
    o = ck.ob('C17-D3.leaf', f, 'leaf recorded once', f.node)
    apps = [x for x in all_nodes(f) if isinstance(x, ast.Call) and isinstance(x.func, ast.Attribute) and x.func.attr == 'append']
    ok = sorted(u(a_) for a_ in apps) == sorted(['qk.append(%s)' % qk, 'num.append(num_eqs)']) and all(dnf_keys(a_) in want_leaf for a_ in apps)
    (o.ok() if ok else o.fail('a cell that is not split is not recorded exactly once (or a split cell is recorded as well)'))
    g = P.func(R + '_create_tile_fix_len')
    rec = [c for c in all_nodes(g) if isinstance(c, ast.Call) and callee(P, g, c) == g.qualname]
    o = ck.ob('C17-D3.fixlen', g, 'split iff len < zoom', g.node)
    def litg(atom, pol):
        e = atom if pol else ast.UnaryOp(op=ast.Not(), operand=atom)
        return N.nf(e).skey()

    def dnf_keys_g(node):
        return {frozenset(litg(a_, p_) for a_, p_ in conj) for conj in guard_dnf(node, g.node)}
    Bs = [ast.parse(t_ % (g.positional_params[0], g.positional_params[1]), mode='eval').body for t_ in ('len(%s) < %s', 'len(%s) <= %s - 1')]
    if rec and guard_dnf(rec[0], g.node) != [[]]:
        got = dnf_keys_g(rec[0])
        ok = any(got == {frozenset({litg(b_, True)})} for b_ in Bs)
        conds = ' or '.join(' and '.join(('' if p_ else 'not ') + u(a_) for a_, p_ in conj) for conj in guard_dnf(rec[0], g.node))
        (o.ok() if ok else o.fail('single-resolution split condition is `%s`, must be len(quadkey) < zoom' % conds))
        leaf = [x for x in all_nodes(g) if isinstance(x, ast.Call) and u(x) == 'qk.append(%s)' % g.positional_params[0]]
        oo = ck.ob('C17-D3.fixleaf', g, 'leaf recorded', g.node)
        (oo.ok() if len(leaf) == 1 and any(dnf_keys_g(leaf[0]) == {frozenset({litg(b_, False)})} for b_ in Bs)
         else oo.fail('cells at the target zoom are not recorded exactly once'))
    else:
        o.fail('children issued unconditionally')


def rule_bounds(ck):
    P = ck.prog
    ck.clause('D4')
    f = P.func(R + 'quadtree_grid_bounds')
    ex = Expander(P, f)
    r = [x for x in returns(f) if x.value is not None]
    e = ex.expand(r[0].value) if r else None
    o = ck.ob('C17-D4.rows', f, 'bounds rows = [west, south, east, north] of quadk[i]', r[0] if r else f.node)
    qk = f.positional_params[0]
    # every column of the result, as the generic element of its list: must be <side> of the tile of the *same* quadkey
    order = []
    probs = []

    def flat2(x, depth=0):
        x0 = x
        if isinstance(x, ast.Call) and P.canon(f, x.func) == 'numpy.column_stack' and x.args and isinstance(x.args[0], (ast.Tuple, ast.List)):
            for y in x.args[0].elts:
                flat2(y, depth + 1)
            return
        if isinstance(x, ast.Call) and P.canon(f, x.func) in ('numpy.array', 'numpy.asarray') and x.args:
            return flat2(x.args[0], depth + 1)
        # numpy.array(rows).reshape(-1, 4): the rows as they are
        if isinstance(x, ast.Call) and isinstance(x.func, ast.Attribute) and x.func.attr == 'reshape' and len(x.args) == 2 \
                and const_value(x.args[0]) == -1 and const_value(x.args[1]) == 4:
            return flat2(x.func.value, depth + 1)
        if isinstance(x, ast.Name) and depth < 8:
            defs = [a_ for a_ in find_assignments(f, x.id) if isinstance(a_, ast.Assign)]
            if len(defs) == 1 and isinstance(defs[0].value, ast.Call) and (
                    P.canon(f, defs[0].value.func) in ('numpy.column_stack', 'numpy.array', 'numpy.asarray') or
                    (isinstance(defs[0].value.func, ast.Attribute) and defs[0].value.func.attr == 'reshape')):
                return flat2(defs[0].value, depth + 1)
            # a list of row tuples: one column per component
            if len(defs) == 1 and isinstance(defs[0].value, ast.ListComp) and isinstance(defs[0].value.elt, (ast.Tuple, ast.List)) \
                    and len(defs[0].value.elt.elts) == 4:
                for comp in defs[0].value.elt.elts:
                    col = ast.ListComp(elt=comp, generators=defs[0].value.generators)
                    ast.copy_location(col, defs[0].value)
                    ast.fix_missing_locations(col)
                    col._parent = getattr(defs[0].value, '_parent', None)
                    flat2(col, depth + 1)
                return
        el = element_of(P, f, x0)
        t = u(canon_calls(P, f, el))
        t = t.replace('numpy.asarray(%s)' % qk, qk)
        for side in ('west', 'south', 'east', 'north'):
            if t == 'mercantile.bounds(mercantile.quadkey_to_tile(__elem__(%s))).%s' % (qk, side):
                order.append(side)
                return
        order.append('?')
        probs.append('column `%s` holds `%s`' % (u(x0)[:30], t[:90]))
    if r:
        flat2(r[0].value)
    if order == ['west', 'south', 'east', 'north']:
        o.ok()
    else:
        o.fail('bounds columns are %s (%s); every row must be [west, south, east, north] of the same quadkey quadk[i]' % (order, '; '.join(probs)))
    # consumers
    g = P.func(Q + 'get_cell_area')
    o = ck.ob('C17-D4.area', g, 'area from (lon1, lat1, lon2, lat2) = bounds row', g.node)
    areas = [a_ for a_ in all_nodes(g) if isinstance(a_, ast.Assign) and isinstance(a_.targets[0], ast.Attribute) and a_.targets[0].attr == 'cell_area']
    good = False
    for a_ in areas:
        if isinstance(a_.value, ast.List) and not a_.value.elts:
            continue
        el = element_of(P, g, a_.value)
        if u(el).replace(' ', '') == 'geographical_area_from_bounds(__elem__(self.bounds)[0],__elem__(self.bounds)[1],__elem__(self.bounds)[2],__elem__(self.bounds)[3])':
            good = True
    (o.ok() if good else o.fail('cell areas are not computed from the four bounds of each cell in order'))
    # the areas handed out are those computed in this call: the computation is not skipped when areas were stored before (the array that
    # was handed out earlier may have been normalised in place by its receiver - `w = grid.get_cell_area(); w /= w.sum()`)
    o = ck.ob('C17-D4.areafresh', g, 'areas are computed at every call', g.node)
    rets = [x for x in returns(g) if x.value is not None]
    cfg = g.cfg
    comp = []
    for c_ in all_nodes(g):
        if isinstance(c_, ast.Call) and (callee(P, g, c_) or '').endswith('geographical_area_from_bounds'):
            top = stmt_of(c_)
            # a computation written as a loop: the loop statement is what has to be passed on the way to the return
            for lp in loops_around(top):
                top = lp
            comp.append(top)
    bad = [x for x in rets if not any(cfg.node_of(a_) is not None and cfg.stmt_node_containing(x.value) is not None and
                                      cfg.dominates(cfg.node_of(a_), cfg.stmt_node_containing(x.value)) for a_ in comp)]
    (o.fail('a return of get_cell_area is not preceded by the computation on every path: the stored array is handed out again as it is') if (bad or not comp)
     else o.ok('the computation dominates every return'))
    # the area of a cell is zero only for a degenerate cell: the shortcut is taken on exact equality of two corner coordinates, not on
    # closeness (numpy.isclose allows 1e-5 of the value - 1.8e-3 degrees at lon 180 - which is wider than a zoom-18 tile)
    ga = P.funcs.get(R + 'geographical_area_from_bounds')
    if ga is not None:
        for r_ in returns(ga):
            if r_.value is not None and const_value(r_.value) == 0:
                o = ck.ob('C17-D4.areazero', ga, r_, r_)
                bad = None
                for t_, pol_ in guards_of(r_, ga.node):
                    for x in ast.walk(t_):
                        if isinstance(x, ast.Call):
                            bad = bad or x
                        if isinstance(x, ast.Compare) and not all(isinstance(op_, (ast.Eq, ast.NotEq)) for op_ in x.ops):
                            bad = bad or x
                (o.fail('the zero-area shortcut is taken on `%s`: cells narrower than that tolerance (fine tiles far from the origin) get area 0 and the '
                        'areas no longer add up to the covered band' % u(bad)[:60]) if bad is not None else o.ok('exact equality of two corners'))
    b = P.func(Q + 'get_bbox')
    r = [x for x in returns(b) if x.value is not None]
    o = ck.ob('C17-D4.bbox', b, r[0].value if r else 'bbox', r[0] if r else b.node)
    want = '(min(self.bounds[:, 0]), max(self.bounds[:, 2]), min(self.bounds[:, 1]), max(self.bounds[:, 3]))'
    wrong = [x for x in r if u(x.value) != want]
    (o.ok() if r and not wrong else o.fail('get_bbox returns `%s`, expected (min west, max east, min south, max north) of the tile bounds on every path (other '
                                           'attributes - the cell origins kept by get_cartesian - lack the east / north edges of the last cells)'
                                           % (u(wrong[0].value)[:80] if wrong else '?')))
    v = P.func(R + 'compute_vertex_bounds')
    r = [x for x in returns(v) if x.value is not None]
    ex = Expander(P, v)
    o = ck.ob('C17-D4.vertices', v, 'first vertex = (west, south)', r[0] if r else v.node)
    e = ex.expand(r[0].value) if r else None
    p = v.positional_params[0]
    ok = isinstance(e, ast.Tuple) and len(e.elts) == 4 and u(e.elts[0]) == '(%s[0], %s[1])' % (p, p)
    (o.ok() if ok else o.fail('the first polygon vertex (the cell origin) is not (west, south)'))
    rule_point_lookup(ck)


def rule_point_lookup(ck):
    """the point lookup: a pure function of the tile bounds, asked once per point with the coordinates as given, every answer kept"""
    P = ck.prog
    fl = P.func(Q + '_find_location')
    gi = P.func(Q + 'get_index_of')
    for f in (fl, gi):
        writes = [n for n in all_nodes(f) if isinstance(n, ast.Attribute) and isinstance(n.ctx, (ast.Store, ast.Del)) and u(n.value) == 'self']
        o = ck.ob('C17-D4.pure', f, 'lookup writes no instance state', f.node)
        (o.fail('`%s` stores `self.%s`: the answer to a lookup would depend on earlier lookups' % (f.short, writes[0].attr)) if writes else o.ok())
    reads = {n.attr for n in all_nodes(fl) if isinstance(n, ast.Attribute) and isinstance(n.ctx, ast.Load) and u(n.value) == 'self'}
    o = ck.ob('C17-D4.reads', fl, sorted(reads), fl.node)
    (o.ok('reads only self.bounds') if reads <= {'bounds'} else
     o.fail('_find_location consults %s besides the tile bounds: cell membership must be decided by the half-open bounds test alone '
            '(polygon containment treats edges differently)' % sorted(reads - {'bounds'})))
    ex = Expander(P, fl)
    for r in returns(fl):
        if r.value is None:
            continue
        o = ck.ob('C17-D4.result', fl, r.value, r)
        e = ex.expand(r.value)
        t = u(e)
        base_ok = 'numpy.where(' in t and ('numpy.logical_and' in t or '&' in t)
        inner = strip_shape(e)
        elem = isinstance(inner, ast.Subscript) and isinstance(const_value(inner.slice), int)
        (o.ok('an element of the match set' if elem else 'the (empty) match set') if base_ok else
         o.fail('`%s` is returned without deriving from the bounds test' % u(r.value)))
    # get_index_of goes through _find_location for every point
    o = ck.ob('C17-D4.each', gi, 'every point is located by _find_location', gi.node)
    calls = [n for n in all_nodes(gi) if isinstance(n, ast.Call) and callee(P, gi, n) == Q + '_find_location']
    ok = len(calls) == 2 and any(u(c.args[0]) == 'lons[i]' and u(c.args[1]) == 'lats[i]' for c in calls) and any(u(c.args[0]) == 'lons' and u(c.args[1]) == 'lats' for c in calls)
    # one pass over the points in order: a for loop or a comprehension over range(len(lons))
    lp = [n for n in all_nodes(gi) if isinstance(n, ast.For)]
    comps = [g_ for n in all_nodes(gi) if isinstance(n, (ast.ListComp, ast.GeneratorExp)) for g_ in n.generators]
    passes = [u(x.iter) for x in lp] + [u(g_.iter) for g_ in comps if not g_.ifs]
    ok = ok and passes == ['range(len(lons))']
    (o.ok() if ok else o.fail('get_index_of does not call _find_location(lon_i, lat_i) for every point in order'))
    # ... with the coordinates it was given: nothing folds, shifts or rounds a longitude / latitude on the way (a point on the last
    # edge of the range, lon = 180, would be moved into the first column)
    exg = Expander(P, gi)
    pl, pt = [p_ for p_ in gi.positional_params if p_ != 'self'][:2]
    for c in calls:
        for a, pn in zip(c.args[:2], (pl, pt)):
            oo = ck.ob('C17-D4.asgiven', gi, '%s reaches _find_location as given' % pn, c)
            try:
                e = exg.expand(a)
            except Inconclusive as ex_:
                oo.unknown(str(ex_))
                continue
            def values(x):
                # the expression without its subscript positions (lats[i]: `i` is a position, not a coordinate)
                yield x
                for fld, val in ast.iter_fields(x):
                    if isinstance(x, ast.Subscript) and fld == 'slice':
                        continue
                    for y in (val if isinstance(val, list) else [val]):
                        if isinstance(y, ast.AST):
                            yield from values(y)
            walk_ = list(values(e))
            bad = [x for x in walk_ if isinstance(x, (ast.BinOp, ast.IfExp)) or
                   (isinstance(x, ast.Call) and (call_name(x) or '').split('.')[-1] in ('where', 'mod', 'fmod', 'remainder', 'round', 'around', 'floor', 'ceil', 'clip', 'abs'))]
            roots = {n.id for n in walk_ if isinstance(n, ast.Name) and n.id in (pl, pt)}
            (oo.fail('the %s handed to the bounds test is `%s`, not the coordinate that was asked about' % (pn, u(e)[:80])) if bad or roots != {pn} else
             oo.ok('unchanged'))
    # ... and every answer is kept: the index 0 is a cell like any other, not "nothing found"
    from .common import value_conditions
    ok_ = ck.ob('C17-D4.keep', gi, 'no located index is dropped by a truth test', gi.node)
    drop = []
    for v, n in value_conditions(gi):
        try:
            t = u(exg.expand(v))
        except Inconclusive:
            t = u(v)
        if isinstance(v, ast.Name):
            t += ' ' + ' '.join(u(d_.value) for d_ in find_assignments(gi, v.id) if isinstance(d_, ast.Assign))
        if '_find_location' in t and not any(w in u(v) for w in ('.size', 'len(', '.shape')):
            drop.append((v, n))
    (ok_.fail('`%s` is used as a condition: it is false for the cell with index 0, whose events are then treated as lying outside the grid' % u(drop[0][0])[:50])
     if drop else ok_.ok())


def rule_precision(ck):
    """C17-D4.double: coordinates, bounds and edges stay in the precision they were supplied in - no conversion to a narrower numeric type
    (a bound rounded to float32 moves by up to 4e-6 degrees, so points next to it change owner)"""
    from .common import rule_double_precision
    ck.clause('D4')
    rule_double_precision(ck, 'C17-D4.double', modules=('csep.core.regions',), what='tile bounds and coordinates')


def rule_rows_belong_to_keys(ck):
    """row i of `bounds` (hence polygon i and area i) belongs to `quadkeys[i]`: the constructors hand the keys on in the order they were
    given - no sorting / de-duplication between the key list and the bounds computed from it (shared C20-D3.keeporder)"""
    from . import c20
    ck.clause('D4 (shared C20-D3.keeporder: bounds are computed from the keys in the order they are stored)')
    c20.rule_keeporder(ck)


RULES = [rule_ownership, rule_children, rule_split, rule_bounds, rule_precision, rule_rows_belong_to_keys]
