"""C18 - evaluation results and regions survive serialization."""
import ast
import re

from ..core import sym
from ..core.expand import u, call_name, get_arg, bind_args, Expander, is_marker, phi_alternatives
from ..core.loader import Inconclusive, const_value, parents
from .common import (guarded_values, read_tables, returns, all_nodes, callee, strip_shape, calls_in, guards_of, stmt_of, kw, find_assignments,
                     dict_literal_items, in_loop)

EXPLANATION = (
    "Decided: D1 factory exhaustiveness: for every class C of the EvaluationResult hierarchy the string C.__name__ "
    "(what named_type stores under 'type') is a key of the loader's factory and maps to C; an unknown type must not "
    "silently fall back to another class; D2 field agreement name by name: every key k written by to_dict comes from "
    "self.k ('type' from named_type), from_dict passes adict[k] to the constructor parameter k, the constructor "
    "stores parameter k in self.k, and every subclass forwards **kwargs unchanged; D3 every result constructed "
    "anywhere in the package is of a class in the hierarchy (so D1 covers every evaluation function that can produce "
    "one); D4 write_json -> FileSystem.save(object.to_dict()) -> json.dump(..., default=str) and the loader reads the "
    "same file with json.load; D5 region dictionary: to_dict writes class_id, dh, name and the polygon origins as "
    "{'lon': origin[0], 'lat': origin[1]} in polygon order, from_dict reads [lon, lat] in list order, passes dh "
    "through and applies no order-changing operation (unique/sort/set) before from_origins; the catalog's "
    "region_loader knows every region class that writes a class_id. NOT decided: JSON representability of each "
    "stored value (numpy scalars fall to default=str, tuples become lists). "
    "Also decided (round 5): D5.todict to_dict stores nothing on the region and returns a fresh dictionary; D5.fromdict from_dict returns the region built from its argument (no class-level table).")
CLAUSES = {'D1': 'factory exhaustiveness', 'D2': 'field agreement', 'D3': 'construction sites', 'D4': 'json plumbing', 'D5': 'region dictionary'}
TRUSTED = ['CPython ast', 'json.dump / json.load', 'class hierarchy read from the source (no metaclasses)']
ROOTS = ['csep.load_evaluation_result', 'csep.core.repositories.write_json', 'csep.core.repositories.FileSystem.save',
         'csep.models.EvaluationResult.to_dict', 'csep.models.EvaluationResult.from_dict',
         'csep.core.regions.CartesianGrid2D.to_dict', 'csep.core.regions.CartesianGrid2D.from_dict']
TECHNIQUE = 'static analysis: table rules over the class hierarchy, dict literals and constructor signatures; order-preservation flow rule'

BASE = 'csep.models.EvaluationResult'


def _factory(P, f):
    """{key: canonical class} from a dict literal / dict comprehension over a tuple of classes; also the lookup style"""
    ex = Expander(P, f)
    fac = None
    for nm, (its, node) in read_tables(P, f).items():
        items = {k: P.canon(f, v) for k, v in its.items() if not isinstance(v, ast.Constant) and P.canon(f, v) in P.classes}
        if len(items) >= 2:
            fac = (nm, items, node)
    if fac is not None:
        return fac
    for n in all_nodes(f):
        if isinstance(n, ast.Assign) and isinstance(n.targets[0], ast.Name):
            v = n.value
            if isinstance(v, ast.Dict):
                items = {}
                for k, val in dict_literal_items(v):
                    c = P.canon(f, val)
                    if c in P.classes:
                        items[k] = c
                if len(items) >= 2:
                    fac = (n.targets[0].id, items, n)
            elif isinstance(v, ast.DictComp) and len(v.generators) == 1:
                it = ex.expand(v.generators[0].iter)
                tv = v.generators[0].target
                if isinstance(it, (ast.Tuple, ast.List)) and isinstance(tv, ast.Name) and u(v.key) == '%s.__name__' % tv.id and u(v.value) == tv.id:
                    items = {}
                    for e in it.elts:
                        c = e.id if isinstance(e, ast.Name) else None
                        if c in P.classes:
                            items[c.split('.')[-1]] = c
                    fac = (n.targets[0].id, items, n)
    return fac


def rule_factory(ck):
    P = ck.prog
    ck.clause('D1')
    f = P.func('csep.load_evaluation_result')
    base = P.cls(BASE)
    hierarchy = base.subclasses()
    fac = _factory(P, f)
    o = ck.ob('C18-D1.table', f, fac[2].value if fac else 'evaluation_result_factory', fac[2] if fac else f.node)
    if fac is None:
        o.unknown('cannot read the class factory of load_evaluation_result as a dict literal / comprehension over classes')
        return
    name, items, node = fac
    o.ok('%d keys' % len(items))
    for c in hierarchy:
        oo = ck.ob('C18-D1.class', f, c.node.name, node)
        key = c.node.name
        if items.get(key) == c.qualname:
            oo.ok()
        elif key in items:
            oo.fail('the key %r maps to %s, not to the class of that name' % (key, items[key]))
        else:
            oo.fail('no key %r: a %s written with write_json cannot be loaded back as its class (the stored type is the class name)' % (key, key))
    for k, v in items.items():
        if k != 'default' and v.split('.')[-1] != k and k not in [c.node.name for c in hierarchy]:
            ck.note('factory alias key %r -> %s' % (k, v))
    # lookup: factory[type] (KeyError on unknown) or .get with the base class only for a missing type
    gets = [n for n in all_nodes(f) if isinstance(n, ast.Call) and isinstance(n.func, ast.Attribute) and n.func.attr == 'get' and u(n.func.value) == name]
    for g in gets:
        oo = ck.ob('C18-D1.fallback', f, g, g)
        oo.fail('the factory is consulted with .get(..., default): a result whose class is missing from the table is silently loaded as '
                'another class instead of failing') if len(g.args) > 1 or g.keywords else oo.ok()
    # the type key read from the file is 'type'
    o = ck.ob('C18-D1.key', f, "json_dict['type']", f.node)
    (o.ok() if any(isinstance(n, ast.Subscript) and const_value(n.slice) == 'type' for n in all_nodes(f)) else o.fail("the class name is not read from the 'type' entry"))
    # the fields go to from_dict as they were decoded: no entry is replaced, and none decides a branch by its truth value (an observed
    # statistic of 0, a lowest magnitude of 0.0 and an empty distribution are results, not missing entries)
    from .common import value_conditions
    loaded = {a.targets[0].id for a in all_nodes(f) if isinstance(a, ast.Assign) and isinstance(a.targets[0], ast.Name)
              and isinstance(a.value, ast.Call) and (callee(P, f, a.value) or '') in ('json.load', 'json.loads')}
    ol = ck.ob('C18-D1.asloaded', f, 'the decoded fields reach from_dict unchanged', f.node)
    stores = [n for n in all_nodes(f) if isinstance(n, ast.Subscript) and isinstance(n.ctx, (ast.Store, ast.Del)) and isinstance(n.value, ast.Name) and n.value.id in loaded
              and const_value(n.slice) != 'type']
    truth = [v for v, n in value_conditions(f) if any(isinstance(x, ast.Name) and x.id in loaded for x in ast.walk(v)) and not (isinstance(v, ast.Name) and v.id in loaded)]
    if truth:
        ol.fail('`%s` is used as a condition: a field that holds 0 / 0.0 / [] is taken for a missing one' % u(truth[0])[:60])
    elif stores:
        ol.fail('`%s` is overwritten after decoding: the result is built from other values than the file holds' % u(stores[0])[:60])
    else:
        ol.ok()
    o = ck.ob('C18-D1.fromdict', f, 'result = factory[type].from_dict(json_dict)', f.node)
    ok = any(isinstance(n, ast.Call) and isinstance(n.func, ast.Attribute) and n.func.attr == 'from_dict' and name in u(n.func.value) for n in all_nodes(f))
    (o.ok() if ok else o.fail('the loaded dictionary is not handed to <class>.from_dict'))


def rule_fields(ck):
    P = ck.prog
    ck.clause('D2')
    base = P.cls(BASE)
    init = base.methods['__init__']
    td = base.methods['to_dict']
    fd = base.methods['from_dict']
    params = [p for p in init.positional_params[1:]]
    # constructor stores parameter k in self.k
    stored = {}
    for n in all_nodes(init):
        if isinstance(n, ast.Assign) and isinstance(n.targets[0], ast.Attribute) and u(n.targets[0].value) == 'self':
            stored[n.targets[0].attr] = u(n.value)
    for p in params:
        o = ck.ob('C18-D2.init', init, 'self.%s = %s' % (p, stored.get(p)), init.node)
        (o.ok() if stored.get(p) == p else o.fail('constructor parameter `%s` is stored as self.%s = %s' % (p, p, stored.get(p))))
    o = ck.ob('C18-D2.named', init, 'named_type', init.node)
    (o.ok() if stored.get('named_type') == 'self.__class__.__name__' else o.fail('named_type is `%s`, not the class name' % stored.get('named_type')))
    # to_dict keys
    ex = Expander(P, td)
    r = [x for x in returns(td) if x.value is not None]
    d = ex.expand(r[0].value) if r else None
    o = ck.ob('C18-D2.todict', td, 'to_dict returns a dict literal', r[0] if r else td.node)
    if not isinstance(d, ast.Dict):
        o.unknown('to_dict does not return a dict literal')
        return
    o.ok()
    written = {}
    for k, v in dict_literal_items(d):
        written[k] = v
    for p in params:
        o = ck.ob('C18-D2.write', td, p, r[0])
        if p not in written:
            o.fail('to_dict does not write `%s`: the field is lost on a round trip' % p)
            continue
        v = written[p]
        txt = u(v)
        if p == 'test_distribution':
            good = 'self.test_distribution' in txt and 'self.' not in txt.replace('self.test_distribution', '')
            # a distribution is written as a sequence whatever its length: one simulation / one synthetic catalog gives one value
            scal = [a_ for a_ in phi_alternatives(v) if isinstance(strip_shape(a_), ast.Subscript) or
                    (isinstance(a_, ast.Call) and (call_name(a_) or '').split('.')[-1] in ('item', 'float', 'int', 'squeeze', 'max', 'min', 'sum', 'mean'))]
            conv = [a_ for a_ in phi_alternatives(v) if any(isinstance(x, ast.Call) and (call_name(x) or '').split('.')[-1] in ('asarray', 'array', 'asanyarray', 'fromiter')
                                                           for x in ast.walk(a_))]
            if good and conv:
                o.fail('the test distribution is written as `%s` on one path: numpy gives a sequence one element type, so a pair such as '
                       "('poisson', 10.04) comes back as two strings; list(...) keeps each element as it is" % u(conv[0])[:60])
                continue
            if good and scal:
                o.fail('the test distribution is written as `%s` on one path: a one-element distribution comes back as a bare number' % u(scal[0])[:60])
                continue
        else:
            good = txt == 'self.' + p
        (o.ok() if good else o.fail('the key %r is written from `%s`, not from self.%s' % (p, txt[:60], p)))
    o = ck.ob('C18-D2.type', td, "'type'", r[0])
    (o.ok() if 'type' in written and u(written['type']) == 'self.named_type' else o.fail("'type' is not written from self.named_type"))
    extra = [k for k in written if k not in params and k != 'type']
    if extra:
        ck.note('to_dict writes extra keys %s' % extra)
    # from_dict reads adict[k] into parameter k
    calls = [n for n in all_nodes(fd) if isinstance(n, ast.Call) and u(n.func) == 'cls']
    o = ck.ob('C18-D2.fromdict', fd, calls[0] if calls else 'cls(...)', calls[0] if calls else fd.node)
    if len(calls) != 1:
        o.fail('from_dict does not build the result with cls(...)')
    else:
        m, ok = bind_args(init, calls[0], bound_method=True)
        a = fd.positional_params[1]
        probs = []
        for p in params:
            v = m.get(p)
            src = strip_shape(v) if v is not None else None
            if isinstance(src, ast.Subscript) and u(src.value) == a and const_value(src.slice) == p:
                continue
            if v is init.defaults().get(p):
                probs.append('%s is not restored from the dictionary' % p)
            else:
                probs.append('parameter %s receives `%s`, expected %s[%r]' % (p, u(v)[:40] if v is not None else '?', a, p))
        (o.fail('; '.join(probs)) if probs else o.ok('every constructor parameter k receives adict[k]'))
    # subclasses forward **kwargs
    for c in base.subclasses(strict=True):
        i = c.methods.get('__init__')
        o = ck.ob('C18-D2.forward', c.qualname, '__init__ forwards **kwargs', c.node)
        if i is None:
            o.ok('inherits the constructor')
            continue
        sup = [n for n in all_nodes(i) if isinstance(n, ast.Call) and u(n.func) == 'super().__init__']
        good = len(sup) == 1 and i.node.args.kwarg is not None and any(k.arg is None and u(k.value) == i.node.args.kwarg.arg for k in sup[0].keywords) \
            and not [k for k in sup[0].keywords if k.arg is not None] and not sup[0].args
        (o.ok() if good else o.fail('%s.__init__ does not forward its keyword arguments unchanged to EvaluationResult.__init__' % c.node.name))
        for meth in ('to_dict', 'from_dict'):
            if meth in c.methods:
                ck.ob('C18-D2.override', c.qualname, meth, c.methods[meth].node).fail('%s overrides %s; field agreement with the base class is no longer guaranteed' % (c.node.name, meth))


def rule_sites(ck):
    P = ck.prog
    ck.clause('D3')
    hier = {c.qualname for c in P.cls(BASE).subclasses()}
    n = 0
    for f in P.funcs.values():
        if f.module.name in ('csep.utils.plots', 'csep.models', 'csep'):
            continue
        if not f.module.name.startswith('csep.core.') and f.module.name != 'csep.utils.calc':
            continue
        rf = None
        for c in all_nodes(f):
            if isinstance(c, ast.Call):
                q = P.canon(f, c.func)
                if q in P.classes and (q.endswith('Result') or q in hier):
                    n += 1
                    o = ck.ob('C18-D3.site', f, c.func, c)
                    (o.ok(q.split('.')[-1]) if q in hier else o.fail('%s builds a %s, which is not part of the EvaluationResult hierarchy the loader knows' % (f.short, q)))
    ck.extra['result_construction_sites'] = n


def rule_json(ck):
    P = ck.prog
    ck.clause('D4')
    w = P.func('csep.core.repositories.write_json')
    o = ck.ob('C18-D4.write', w, 'FileSystem(url=fname).save(object.to_dict())', w.node)
    txt = ' '.join(u(s) for s in w.node.body)
    ex = Expander(P, w)
    saves = [n for n in all_nodes(w) if isinstance(n, ast.Call) and isinstance(n.func, ast.Attribute) and n.func.attr == 'save']
    good = len(saves) == 1 and kw(saves[0], 'data', 0) is not None and u(kw(saves[0], 'data', 0)) == '%s.to_dict()' % w.positional_params[0] and \
        re.search(r'FileSystem\((url=)?%s\)' % re.escape(w.positional_params[1]), u(ex.expand(saves[0].func.value))) is not None
    (o.ok() if good else o.fail('write_json does not save object.to_dict() through FileSystem(url=fname)'))
    s = P.func('csep.core.repositories.FileSystem.save')
    dumps = calls_in(P, s, 'json.dump')
    o = ck.ob('C18-D4.dump', s, dumps[0] if dumps else 'json.dump', dumps[0] if dumps else s.node)
    dflt = kw(dumps[0], 'default') if dumps else None
    good = len(dumps) == 1 and u(dumps[0].args[0]) == s.positional_params[1] and dflt is not None
    if good:
        # written to self.url opened for writing
        withs = [n for n in all_nodes(s) if isinstance(n, ast.With) and any(x is dumps[0] for x in ast.walk(n))]
        good = bool(withs) and 'open(self.url, \'w\')' in u(withs[0].items[0].context_expr)
    (o.ok("json.dump(data, f, default=...) into self.url") if good else o.fail('save does not json.dump the given dictionary (with a default= handler) into the repository url'))
    # nan and +-inf are legitimate statistics ('not-valid' results, an event in a zero-rate bin): they are written (allow_nan stays on) and an
    # error of the dump is not swallowed - write_json ignores the return value, so a half-written file would pass for a written one
    on = ck.ob('C18-D4.nonfinite', s, 'non-finite statistics are written, dump errors are raised', dumps[0] if dumps else s.node)
    an = kw(dumps[0], 'allow_nan') if dumps else None
    swallow = [h for h in all_nodes(s) if isinstance(h, ast.ExceptHandler) and not any(isinstance(x, ast.Raise) for st_ in h.body for x in ast.walk(st_))
               and any(x is dumps[0] for t_ in all_nodes(s) if isinstance(t_, ast.Try) and h in t_.handlers for st_ in t_.body for x in ast.walk(st_))] if dumps else []
    if an is not None and const_value(an) is not True:
        on.fail('json.dump(..., allow_nan=%s): a result whose statistic is nan or -inf cannot be written' % u(an))
    elif swallow:
        on.fail('`except %s` around the dump does not raise: a failed write leaves a truncated file and reports nothing' % (u(swallow[0].type) if swallow[0].type is not None else ''))
    else:
        on.ok()
    # numbers stay numbers: result fields are filled from numpy reductions (min_mw = numpy.min(magnitudes), counts, sums); a numpy
    # scalar that is not a float subclass (any integer dtype, float32) is unknown to json and goes through the default handler
    srcs = 0
    for f in P.funcs.values():
        if f.module.name in ('csep.core.poisson_evaluations', 'csep.core.binomial_evaluations', 'csep.core.brier_evaluations', 'csep.core.catalog_evaluations'):
            for a in all_nodes(f):
                if isinstance(a, ast.Assign) and isinstance(a.targets[0], ast.Attribute) and a.targets[0].attr == 'min_mw' \
                        and isinstance(a.value, ast.Call) and (callee(P, f, a.value) or '').startswith('numpy.'):
                    srcs += 1
    ck.extra['numpy_scalar_result_fields'] = srcs
    o = ck.ob('C18-D4.numbers', s, 'numpy scalars are written as numbers', dumps[0] if dumps else s.node)
    if dflt is None or srcs == 0:
        o.unknown('no default handler / no numpy-valued result field found (%d)' % srcs)
    else:
        h = P.canon(s, dflt) if isinstance(dflt, (ast.Name, ast.Attribute)) else None
        if h == 'builtins.str':
            o.fail('json.dump(..., default=str): every numpy scalar json does not know (integer dtypes, float32 - e.g. min_mw = numpy.min of '
                   'integer magnitude edges, %d result fields are numpy reductions) is written as text and loads back as a string' % srcs)
        elif h in P.funcs:
            g = P.funcs[h]
            prm = g.positional_params[0] if g.positional_params else None
            good = False
            # every value the handler can return, with the isinstance tests selecting it (if statement, guard clause or conditional expression)
            for r in returns(g):
                if r.value is None:
                    continue
                for val, gs in guarded_values(P, g, r.value, r, g.node):
                    for txt, pol in gs:
                        if not pol:
                            continue
                        try:
                            t = ast.parse(txt, mode='eval').body
                        except SyntaxError:
                            continue
                        if not (isinstance(t, ast.Call) and u(t.func) == 'isinstance' and len(t.args) == 2 and u(t.args[0]) == prm):
                            continue
                        kexpr = t.args[1]
                        if isinstance(kexpr, ast.Name):
                            # a module constant naming the tuple of types
                            for st_ in g.module.tree.body:
                                if isinstance(st_, ast.Assign) and len(st_.targets) == 1 and isinstance(st_.targets[0], ast.Name) \
                                        and st_.targets[0].id == kexpr.id and isinstance(st_.value, ast.Tuple):
                                    kexpr = st_.value
                        kinds = [P.canon(g, k_) for k_ in (kexpr.elts if isinstance(kexpr, ast.Tuple) else [kexpr])]
                        conv = isinstance(val, ast.Call) and (
                            (isinstance(val.func, ast.Attribute) and val.func.attr in ('tolist', 'item') and u(val.func.value) == prm)
                            or (u(val.func) in ('int', 'float') and len(val.args) == 1 and u(val.args[0]) == prm))
                        if ('numpy.generic' in kinds or {'numpy.integer', 'numpy.floating'} <= set(kinds)) and conv:
                            good = True
            (o.ok('%s maps numpy.generic to its Python number' % g.short) if good else
             o.fail('the default handler %s does not turn numpy scalars (numpy.generic) into Python numbers with .item()/.tolist()' % g.short))
        else:
            o.unknown('unrecognised default handler `%s`' % u(dflt))
    l = P.func('csep.load_evaluation_result')
    from .common import memoising_decorators
    for q in ('csep.load_evaluation_result', 'csep.models.EvaluationResult.from_dict', 'csep.core.regions.CartesianGrid2D.from_dict'):
        g = P.func(q)
        memo = memoising_decorators(P, g)
        o = ck.ob('C18-D4.fresh', g, 'decoded from its argument at every call', g.node)
        (o.fail('%s is decorated with `%s`: a second load of the same path returns the object decoded the first time, whatever has been '
                'written to the file since - a result written with write_json to a path that was loaded before does not come back'
                % (g.short, u(memo[0]))) if memo else o.ok())
    loads = calls_in(P, l, 'json.load')
    o = ck.ob('C18-D4.load', l, loads[0] if loads else 'json.load', loads[0] if loads else l.node)
    (o.ok() if len(loads) == 1 else o.fail('the result file is not read with json.load'))


def rule_number_kinds(ck):
    """statistics are ordinary double-precision numbers: an extended-precision numpy scalar (longdouble / float128) has no Python
    number to turn into (`.tolist()` / `.item()` return the scalar itself), so a result holding one cannot be written"""
    P = ck.prog
    ck.clause('D4')
    n = 0
    for mod in ('csep.core.poisson_evaluations', 'csep.core.binomial_evaluations', 'csep.core.brier_evaluations', 'csep.core.catalog_evaluations',
                'csep.utils.stats', 'csep.utils.calc'):
        for f in P.funcs_in(mod):
            for a in all_nodes(f):
                if isinstance(a, (ast.Attribute, ast.Name)):
                    q = P.canon(f, a) if isinstance(a, ast.Attribute) else None
                    if q in ('numpy.longdouble', 'numpy.float128', 'numpy.clongdouble', 'numpy.complex256', 'numpy.longfloat'):
                        n += 1
                        ck.ob('C18-D4.kinds', f, stmt_of(a) or a, a).fail('%s computes in %s: the statistic reaches the result object as an extended-'
                                                                          'precision scalar that json (and the default handler) cannot turn into a number' % (f.short, q))
                if isinstance(a, ast.Constant) and a.value in ('longdouble', 'float128', 'g'):
                    p_ = getattr(a, '_parent', None)
                    if isinstance(p_, ast.keyword) and p_.arg == 'dtype':
                        n += 1
                        ck.ob('C18-D4.kinds', f, stmt_of(a) or a, a).fail('%s computes in dtype=%r' % (f.short, a.value))
    o = ck.ob('C18-D4.kinds', P.func('csep.core.repositories.FileSystem.save'), 'no extended-precision dtype in the evaluation kernels', None)
    (o.ok() if n == 0 else o.fail('%d uses of extended-precision dtypes' % n))


def rule_region(ck):
    _rule_region_todict(ck)
    _rule_region_fromdict(ck)


def _rule_region_todict(ck):
    P = ck.prog
    ck.clause('D5')
    t = P.func('csep.core.regions.CartesianGrid2D.to_dict')
    ex = Expander(P, t)
    r = [x for x in returns(t) if x.value is not None]
    d = ex.expand(r[0].value)
    o = ck.ob('C18-D5.todict', t, 'region to_dict', r[0])
    # a fresh dictionary at every call: a dictionary kept on the region and handed out again is edited by its first receiver (the usual
    # way to derive a cut-out or renamed region through from_dict) and the region's own dictionary form changes with it
    from .common import receiver_writes
    w = receiver_writes(t)
    if w:
        o.fail('to_dict stores on the region (`%s`) and hands out the stored dictionary: an edit of a returned dictionary changes what every '
               'later to_dict() returns, so from_dict(region.to_dict()) no longer rebuilds the cells of this region' % u(w[0])[:70])
        return
    if not isinstance(d, ast.Dict):
        o.unknown('not a dict literal')
        return
    items = dict(dict_literal_items(d))
    probs = []
    if 'class_id' not in items or u(items['class_id']) != 'self.__class__.__name__':
        probs.append('class_id is not the class name')
    if 'dh' not in items or 'self.dh' not in u(items['dh']):
        probs.append('dh is not written')
    if 'name' not in items or 'self.name' not in u(items['name']):
        probs.append('name is not written')
    pol = items.get('polygons')
    if not (isinstance(pol, ast.ListComp) and isinstance(pol.elt, ast.Dict) and u(pol.generators[0].iter) == 'self.polygons' and not pol.generators[0].ifs):
        probs.append('polygons are not written as one dictionary per polygon in polygon order')
    else:
        e = dict(dict_literal_items(pol.elt))
        v = pol.generators[0].target.id
        def core(x):
            # float(...) of a double is the double; nothing else may stand between the stored origin and the dictionary
            while isinstance(x, ast.Call) and (call_name(x) or '') in ('builtins.float', 'float', 'numpy.float64') and len(x.args) == 1 and not x.keywords:
                x = x.args[0]
            return x
        lo, la = core(e.get('lon', ast.Constant(0))), core(e.get('lat', ast.Constant(0)))
        if 'origin[0]' not in u(lo) or 'origin[1]' not in u(la):
            probs.append("origins are written as lon=%s lat=%s; the origin is (lon, lat) = (origin[0], origin[1])" % (u(e.get('lon')) if 'lon' in e else '?', u(e.get('lat')) if 'lat' in e else '?'))
        elif u(lo) != '%s.origin[0]' % v or u(la) != '%s.origin[1]' % v:
            probs.append('the origins are written as lon=`%s`, lat=`%s`, not as the stored numbers: the lattice rebuilt from altered origins has '
                         'its edges elsewhere (rounding to 6 decimals moves them by up to 5e-7 degrees), so points on or next to a cell edge are '
                         'assigned to another cell than by the original region' % (u(e['lon'])[:50], u(e['lat'])[:50]))
    dhv = items.get('dh')
    if dhv is not None:
        x = dhv
        while isinstance(x, ast.Call) and (call_name(x) or '') in ('builtins.float', 'float', 'numpy.float64') and len(x.args) == 1 and not x.keywords:
            x = x.args[0]
        if 'self.dh' in u(dhv) and u(x) != 'self.dh':
            probs.append('dh is written as `%s`, not as the stored spacing' % u(dhv)[:50])
    (o.fail('; '.join(probs)) if probs else o.ok("{'name','dh','polygons':[{'lat':origin[1],'lon':origin[0]}...],'class_id'}"))


def _rule_region_fromdict(ck):
    P = ck.prog
    ck.clause('D5')
    f = P.func('csep.core.regions.CartesianGrid2D.from_dict')
    exf = Expander(P, f)
    calls = [n for n in all_nodes(f) if isinstance(n, ast.Call) and isinstance(n.func, ast.Attribute) and n.func.attr == 'from_origins']
    o = ck.ob('C18-D5.fromdict', f, calls[0] if calls else 'from_origins', calls[0] if calls else f.node)
    if len(calls) != 1:
        o.fail('from_dict does not rebuild the region through from_origins')
        return
    c = calls[0]
    org = exf.expand(c.args[0]) if c.args else None
    probs = []
    # rebuilt from *this* dictionary at every call: what is returned is the from_origins(...) result, not an entry of a table kept on
    # the class (a memo keyed by name / spacing / size hands the first region to every later dictionary that looks alike)
    from .common import receiver_writes, is_class_level_mutable
    shared = [n for n in all_nodes(f) if isinstance(n, ast.Attribute) and isinstance(n.value, ast.Name) and n.value.id in ('cls', 'self')
              and is_class_level_mutable(f, n.attr)]
    if shared:
        probs.append('from_dict keeps regions in the class-level `%s`: a later dictionary with the same key gets the region built from an earlier one'
                     % shared[0].attr)
    for r_ in returns(f):
        rv = exf.expand(r_.value) if r_.value is not None else None
        alts = phi_alternatives(rv) if rv is not None else []
        if any(not (isinstance(a_, ast.Call) and isinstance(a_.func, ast.Attribute) and a_.func.attr in ('from_origins',)) and not
               (isinstance(a_, ast.Call) and u(a_.func) in ('cls',)) for a_ in alts) and not shared:
            probs.append('from_dict returns `%s`, not the region built by from_origins from its argument' % u(r_.value)[:60])
    txt = u(org) if org is not None else ''
    reorder = [n for n in ast.walk(org) if isinstance(n, ast.Call) and (call_name(n) or '') in (
        'numpy.unique', 'numpy.sort', 'builtins.sorted', 'builtins.set', 'numpy.lexsort', 'numpy.argsort', '.sort', 'builtins.reversed', 'numpy.flip')] if org is not None else []
    if reorder:
        probs.append('the origins pass through `%s` before the region is rebuilt: cells are renumbered, so the rebuilt region assigns points to '
                     'other cell indices than the original' % u(reorder[0])[:60])
    if "[adict['lon'], adict['lat']]" not in txt and "['lon']" not in txt:
        probs.append('origins are not read as [lon, lat]')
    else:
        lc = [n for n in ast.walk(org) if isinstance(n, ast.ListComp)]
        if lc and isinstance(lc[0].elt, (ast.List, ast.Tuple)) and [const_value(x.slice) for x in lc[0].elt.elts if isinstance(x, ast.Subscript)] != ['lon', 'lat']:
            probs.append('origins are read as %s, expected [lon, lat]' % u(lc[0].elt))
        if lc and lc[0].generators[0].ifs:
            probs.append('some polygons are filtered out')
    dh = kw(c, 'dh', 1)
    dhe = exf.expand(dh) if dh is not None else None
    if dhe is None or "adict.get('dh'" not in u(dhe):
        probs.append('dh is not passed through from the dictionary (a re-inferred spacing can differ)')
    (o.fail('; '.join(probs)) if probs else o.ok('from_origins([[lon, lat] ...] in list order, dh=adict[dh])'))
    # ... and a dictionary without the spacing is refused: from_origins would infer it from the first two stored cells, i.e. from the order
    # the cells happen to be listed in
    od = ck.ob('C18-D5.dhrequired', f, 'a dictionary without dh is refused', c)
    cfg_ = f.cfg
    guards = [n for n in all_nodes(f) if isinstance(n, ast.If) and 'dh' in u(n.test) and 'None' in u(n.test) and any(isinstance(x, ast.Raise) for x in n.body)]
    okd = any(cfg_.node_of(g_) is not None and cfg_.stmt_node_containing(c) is not None and cfg_.dominates(cfg_.node_of(g_), cfg_.stmt_node_containing(c)) for g_ in guards)
    (od.ok('raises before from_origins') if okd else
     od.fail('from_dict hands a missing dh (None) to from_origins, which takes the spacing from the first two origins as stored: the same cells '
             'in another order rebuild another lattice'))
    # region_loader of catalogs knows every class writing a class_id
    cf = P.func('csep.core.catalogs.AbstractBaseCatalog.from_dict')
    tabs = [n for n in all_nodes(cf) if isinstance(n, ast.Assign) and isinstance(n.value, ast.Dict)]
    writers = []
    for c in P.classes.values():
        m = c.methods.get('to_dict')
        if m is not None and c.module.name == 'csep.core.regions' and "'class_id'" in ast.unparse(m.node):
            writers.append(c)
    o = ck.ob('C18-D5.loader', cf, tabs[0].value if tabs else 'region_loader', tabs[0] if tabs else cf.node)
    items = dict((k, P.canon(cf, v)) for k, v in dict_literal_items(tabs[0].value)) if tabs else {}
    miss = [c.node.name for c in writers if items.get(c.node.name) != c.qualname]
    (o.fail('region classes %s write a class_id the catalog loader does not know' % miss) if miss else o.ok('%d region class(es) with class_id, all known' % len(writers)))


RULES = [rule_factory, rule_fields, rule_sites, rule_json, rule_number_kinds, rule_region]
