"""Helpers shared by the property rules."""
import ast
import copy

from ..core.loader import walk_scope, parents, Inconclusive, AnchorMissing, const_value, FuncInfo
from ..core.expand import Expander, u, call_name, dotted, is_marker, phi_alternatives, get_arg, bind_args, mk
from ..core import sym

ROUNDERS = {'round', 'rint', 'ceil', 'trunc', 'floor', 'int'}


def returns(f):
    return [n for n in walk_scope(f.node) if isinstance(n, ast.Return)]


def all_nodes(f):
    """All AST nodes of the function's own scope, including lambdas/comprehensions, excluding nested defs."""
    out = []
    def rec(n):
        for ch in ast.iter_child_nodes(n):
            if isinstance(ch, (ast.FunctionDef, ast.AsyncFunctionDef, ast.ClassDef)):
                continue
            out.append(ch)
            rec(ch)
    rec(f.node)
    return out


def callee(prog, f, call):
    """Canonical callee name: dotted global ('numpy.sum', 'csep.utils.calc.bin1d_vec') or '.method'."""
    c = prog.canon(f, call.func)
    if c is not None:
        return c
    if isinstance(call.func, ast.Attribute):
        fn = call.func
        if isinstance(fn.value, ast.Name) and fn.value.id in ('self', 'cls') and getattr(f, 'cls', None) is not None \
                and fn.value.id in f.params[:1]:
            m = f.cls.find_method(fn.attr)
            if m is not None:
                return m.qualname          # the method of the receiver's own class (answers to its reference name)
        return '.' + call.func.attr
    return None


def calls_in(prog, f, names):
    names = {names} if isinstance(names, str) else set(names)
    return [n for n in all_nodes(f) if isinstance(n, ast.Call) and callee(prog, f, n) in names]


def stmt_of(node):
    """Innermost statement containing the node."""
    n = node
    while n is not None and not isinstance(n, ast.stmt):
        n = getattr(n, '_parent', None)
    return n


def explicit_guards_of(node, stop=None):
    """[(test expr, polarity)] of the if/while/ifexp ancestors controlling `node`, innermost first."""
    out = []
    child = node
    for p in parents(node):
        if p is stop or isinstance(p, (ast.FunctionDef, ast.AsyncFunctionDef, ast.Lambda)):
            break
        if isinstance(p, (ast.If, ast.While)):
            if any(child is s for s in p.body):
                out.append((p.test, True))
            elif any(child is s for s in p.orelse):
                out.append((p.test, False))
        elif isinstance(p, ast.IfExp):
            if child is p.body:
                out.append((p.test, True))
            elif child is p.orelse:
                out.append((p.test, False))
        child = p
    return out


def literal_dnf(test, pol=True, limit=64):
    """disjunctive normal form of a boolean test: [[(atom, polarity), ...], ...]; atoms are non-boolean-operator nodes"""
    if isinstance(test, ast.UnaryOp) and isinstance(test.op, ast.Not):
        return literal_dnf(test.operand, not pol, limit)
    if isinstance(test, ast.BoolOp):
        parts = [literal_dnf(v, pol, limit) for v in test.values]
        is_or = isinstance(test.op, ast.Or) == pol
        if is_or:
            out = [c for p_ in parts for c in p_]
        else:
            out = [[]]
            for p_ in parts:
                out = [a + b for a in out for b in p_]
                if len(out) > limit:
                    raise Inconclusive('guard too large for a disjunctive normal form')
        return out
    return [[(test, pol)]]


def guard_dnf(node, stop=None):
    """DNF of the conjunction of all guards controlling `node`"""
    out = [[]]
    for t, pol in guards_of(node, stop):
        d = literal_dnf(t, pol)
        out = [a + b for a in out for b in d]
        if len(out) > 64:
            raise Inconclusive('guard too large for a disjunctive normal form')
    return out


def holds_on_every_path(node, name, stop=None):
    """does the flag `name` hold (is truthy) on every path to `node`?  Read from the disjunctive normal form of all guards, so that
    `if name:` around the node, `if not name: return` before it, and `if not name: ... else: <node>` are the same fact."""
    try:
        d = guard_dnf(node, stop)
    except Inconclusive:
        return False
    return bool(d) and all(any(isinstance(a, ast.Name) and a.id == name and pol for a, pol in conj) for conj in d)


def guards_of(node, stop=None):
    """the conditions under which `node` runs: the if/while/ifexp ancestors (innermost first) and the negated tests of earlier
    sibling guard clauses `if c: return/raise/continue/break` (a guard clause and a nested if are the same control structure)"""
    return implicit_guards(node, stop)


def implicit_guards(node, stop=None):
    """guards_of plus the negated tests of earlier sibling `if c: return/raise/continue/break` statements (fall-through guards)"""
    out = list(explicit_guards_of(node, stop))
    child = node
    for p in parents(node):
        for field in ('body', 'orelse', 'finalbody'):
            blk = getattr(p, field, None)
            if isinstance(blk, list) and any(child is s for s in blk):
                for s in blk:
                    if s is child:
                        break
                    if isinstance(s, ast.If) and not s.orelse and s.body and isinstance(s.body[-1], (ast.Return, ast.Raise, ast.Continue, ast.Break)):
                        out.append((s.test, False))
        if p is stop or isinstance(p, (ast.FunctionDef, ast.AsyncFunctionDef, ast.Lambda)):
            break
        child = p
    return out


def substitute(node, mapping):
    """copy of an expression with parameter names replaced by argument expressions"""
    from ..core.sym import clone

    class T(ast.NodeTransformer):
        def visit_Name(self, n):
            if n.id in mapping and isinstance(n.ctx, ast.Load):
                return clone(mapping[n.id])
            return n
    return T().visit(clone(node))


def guarded_values(P, f, value, at, stop=None):
    """[(value expr, [(literal text, polarity)])]: the alternatives of `value` (evaluated at statement `at` of f) with the
    conditions selecting each; a call of a package helper with several returns is split per return"""
    base = []
    for t, pol in implicit_guards(at, stop):
        for conj in [literal_dnf(t, pol)]:
            if len(conj) == 1:
                base.extend((u(a), pl) for a, pl in conj[0])
    if isinstance(value, ast.IfExp):
        out = []
        for v, pol in ((value.body, True), (value.orelse, False)):
            d = literal_dnf(value.test, pol)
            extra = [(u(a), pl) for a, pl in d[0]] if len(d) == 1 else []
            out.extend((v2, base + extra + g2) for v2, g2 in guarded_values(P, f, v, at, stop=at))
        return [(v, [x for x in g if x not in base] + base) for v, g in out]
    if isinstance(value, ast.Call):
        c = callee(P, f, value)
        g = P.funcs.get(c) if c else None
        if g is not None and c.startswith('csep.'):
            rets = [r for r in returns(g) if r.value is not None]
            m, okb = bind_args(g, value)
            if okb and 1 <= len(rets) <= 4:
                out = []
                for r in rets:
                    gs = []
                    for t, pol in implicit_guards(r, g.node):
                        d = literal_dnf(substitute(t, m), pol)
                        if len(d) == 1:
                            gs.extend((u(a), pl) for a, pl in d[0])
                    out.append((substitute(r.value, m), base + gs))
                return out
    return [(value, base)]


def accumulation_as_sum(f, var):
    """`var = 0; for t in it: var += term` (one unconditional loop, no break/continue, nothing else writes var)
    -> the equivalent expression sum([term for t in it]); None if the shape differs"""
    asg = find_assignments(f, var)
    inits = [a for a in asg if isinstance(a, ast.Assign)]
    augs = [a for a in asg if isinstance(a, ast.AugAssign)]
    if len(inits) != 1 or len(augs) != 1 or len(asg) != 2 or const_value(inits[0].value) != 0 or not isinstance(augs[0].op, ast.Add):
        return None
    lp = in_loop(augs[0], f.node)
    if not isinstance(lp, ast.For) or lp.orelse or in_loop(inits[0], f.node) is not None or in_loop(lp, f.node) is not None:
        return None
    if not any(augs[0] is s_ for s_ in lp.body):
        return None          # conditional accumulation
    if any(isinstance(x, (ast.Break, ast.Continue, ast.Return)) for x in ast.walk(lp)):
        return None
    if not isinstance(lp.target, ast.Name):
        return None
    # the term may only read the loop variable and loop-invariant names
    written = {t.id for s_ in ast.walk(lp) for t in ast.walk(s_) if isinstance(t, ast.Name) and isinstance(t.ctx, ast.Store)}
    reads = {t.id for t in ast.walk(augs[0].value) if isinstance(t, ast.Name)}
    if (reads & written) - {lp.target.id}:
        return None
    if f.cfg.node_of(inits[0]) is None or not f.cfg.dominates(f.cfg.node_of(inits[0]), f.cfg.node_of(lp)):
        return None
    comp = ast.ListComp(elt=augs[0].value, generators=[ast.comprehension(target=lp.target, iter=lp.iter, ifs=[], is_async=0)])
    return ast.Call(func=ast.Name(id='sum', ctx=ast.Load()), args=[comp], keywords=[])


def dispatch_targets(P, f, key):
    """the package functions a format key may dispatch to inside f: the entry of a {key: function} table, or the function
    values assigned on the branches of an if-chain that the key can reach (tests `v == 'k'`, `v in (...)` are read)"""
    out = set()
    for n in all_nodes(f):
        if isinstance(n, ast.Assign) and isinstance(n.value, ast.Dict):
            for k_, v_ in dict_literal_items(n.value):
                if k_ == key and not isinstance(v_, ast.Constant):
                    q = P.canon(f, v_)
                    if q:
                        out.add(q)
    for n in all_nodes(f):
        if isinstance(n, ast.Assign) and len(n.targets) == 1 and isinstance(n.targets[0], ast.Name) and isinstance(n.value, (ast.Name, ast.Attribute)):
            q = P.canon(f, n.value)
            if q not in P.funcs:
                continue
            compatible = True
            for t, pol in guards_of(n, f.node):
                for conj in [literal_dnf(t, pol)]:
                    if len(conj) != 1:
                        continue
                    for a_, pl in conj[0]:
                        if isinstance(a_, ast.Compare) and len(a_.ops) == 1:
                            cv = const_value(a_.comparators[0])
                            if isinstance(a_.ops[0], (ast.Eq, ast.NotEq)) and isinstance(cv, str):
                                hit = (cv == key) == isinstance(a_.ops[0], ast.Eq)
                                if hit != pl:
                                    compatible = False
                            elif isinstance(a_.ops[0], (ast.In, ast.NotIn)) and isinstance(cv, (tuple, list)):
                                hit = (key in cv) == isinstance(a_.ops[0], ast.In)
                                if hit != pl:
                                    compatible = False
            if compatible:
                out.add(q)
    return out


def memoising_decorators(P, f):
    """decorators of f that keep its result for later calls (functools.lru_cache / cache / cached_property, or anything whose
    name says cache / memo)"""
    out = []
    for d in getattr(f.node, 'decorator_list', []):
        core = d.func if isinstance(d, ast.Call) else d
        try:
            full = P.canon(f.parent or f, core) if f.parent is not None else (P.canon_name_in_module(f.module, core) if hasattr(P, 'canon_name_in_module') else None)
        except Exception:
            full = None
        txt = (full or u(core)).lower()
        if any(k in txt for k in ('cache', 'memo')):
            out.append(d)
    return out


def table_key(P, f, k):
    """the value of a table key: a constant, or `<package class>.__name__`; NotImplemented otherwise"""
    key = const_value(k)
    if key is NotImplemented and isinstance(k, ast.Attribute) and k.attr == '__name__':
        q = P.canon(f, k.value)
        key = q.split('.')[-1] if q in P.classes else NotImplemented
    return key


def read_tables(P, f):
    """the dictionary-valued locals of f that act as lookup tables: {name: ({key: value node}, defining statement)}.
    Read are a dict display (also `{}` / dict()) and the unconditional item stores `name[key] = value` that follow it; a key is
    a constant or `<package class>.__name__`"""
    out = {}
    for n in all_nodes(f):
        if isinstance(n, ast.Assign) and len(n.targets) == 1 and isinstance(n.targets[0], ast.Name) and \
                (isinstance(n.value, ast.Dict) or (isinstance(n.value, ast.Call) and u(n.value.func) == 'dict' and not n.value.args and not n.value.keywords)):
            items = {}
            for k_, v_ in (zip(n.value.keys, n.value.values) if isinstance(n.value, ast.Dict) else []):
                key = table_key(P, f, k_) if k_ is not None else NotImplemented
                if key is not NotImplemented:
                    items[key] = v_
            out[n.targets[0].id] = (items, n)
    for n in all_nodes(f):
        if isinstance(n, ast.Assign) and len(n.targets) == 1 and isinstance(n.targets[0], ast.Subscript) and isinstance(n.targets[0].value, ast.Name) \
                and n.targets[0].value.id in out and not explicit_guards_of(n, f.node) and in_loop(n, f.node) is None:
            k = n.targets[0].slice
            key = table_key(P, f, k)
            if key is not NotImplemented:
                out[n.targets[0].value.id][0][key] = n.value
    return out


REORDER_METHODS = {'sort_values', 'sort_index', 'sort', 'sample', 'drop_duplicates', 'dropna', 'groupby', 'reindex', 'nlargest', 'nsmallest',
                   'query', 'head', 'tail', 'drop', 'unique', 'shuffle', 'argsort', 'take', 'truncate', 'resample', 'merge', 'join', 'explode'}
REORDER_FUNCS = ('builtins.sorted', 'builtins.reversed', 'builtins.set', 'numpy.sort', 'numpy.unique', 'numpy.argsort', 'numpy.flip',
                 'numpy.random.shuffle', 'numpy.random.permutation', 'numpy.lexsort')


def reordering_calls(P, f):
    """calls inside f that can change the order or the multiplicity of the elements of a sequence"""
    bad = []
    for c in all_nodes(f):
        if isinstance(c, ast.Call):
            nm = c.func.attr if isinstance(c.func, ast.Attribute) else None
            full = callee(P, f, c) or ''
            if (nm in REORDER_METHODS and not (isinstance(c.func, ast.Attribute) and isinstance(c.func.value, ast.Constant))) or full in REORDER_FUNCS:
                bad.append(c)
        if isinstance(c, ast.Subscript) and isinstance(c.slice, ast.Slice) and c.slice.step is not None:
            bad.append(c)
    return bad


def parameter_writes(P, f):
    """statements of f that write into an object received as a parameter (slice / item store, augmented assignment, out=,
    in-place methods): the caller's array changes"""
    params = set(f.positional_params) - {'self', 'cls'}
    rebound = {a.targets[0].id for a in all_nodes(f) if isinstance(a, ast.Assign) and len(a.targets) == 1 and isinstance(a.targets[0], ast.Name)}
    params -= rebound          # a parameter that is rebound to a fresh object first (x = numpy.asarray(x).copy()) is not tracked
    bad = []
    for n in all_nodes(f):
        if isinstance(n, (ast.Assign, ast.AugAssign)):
            tg = n.targets if isinstance(n, ast.Assign) else [n.target]
            for t in tg:
                base = t
                while isinstance(base, (ast.Subscript, ast.Attribute)):
                    base = base.value
                if isinstance(t, (ast.Subscript, ast.Attribute)) and isinstance(base, ast.Name) and base.id in params:
                    bad.append(n)
                if isinstance(n, ast.AugAssign) and isinstance(t, ast.Name) and t.id in params:
                    bad.append(n)
        if isinstance(n, ast.Call):
            o_ = kw(n, 'out')
            if o_ is not None and isinstance(o_, ast.Name) and o_.id in params:
                bad.append(n)
            if isinstance(n.func, ast.Attribute) and n.func.attr in ('sort', 'fill', 'resize', 'put', 'itemset', 'partition', 'clear', 'append', 'extend', 'pop') \
                    and isinstance(n.func.value, ast.Name) and n.func.value.id in params:
                bad.append(n)
    return bad


MUTATORS = ('sort', 'fill', 'resize', 'put', 'itemset', 'partition', 'clear', 'append', 'extend', 'pop', 'update', 'setdefault', 'add', 'insert',
            'remove', 'discard', 'popitem')


def receiver_writes(f):
    """statements / calls of a method that change the state reachable from its receiver (`self` / `cls`): attribute stores, item or
    slice stores into an attribute (self._memo[key] = v), augmented assignments, in-place methods of an attribute"""
    if not f.positional_params or f.positional_params[0] not in ('self', 'cls'):
        return []
    me = f.positional_params[0]
    out = []
    for n in all_nodes(f):
        if isinstance(n, (ast.Assign, ast.AugAssign, ast.AnnAssign, ast.Delete)):
            tg = n.targets if isinstance(n, (ast.Assign, ast.Delete)) else [n.target]
            for t in tg:
                for t_ in (t.elts if isinstance(t, (ast.Tuple, ast.List)) else [t]):
                    base = t_
                    while isinstance(base, (ast.Subscript, ast.Attribute)):
                        base = base.value
                    if isinstance(t_, (ast.Subscript, ast.Attribute)) and isinstance(base, ast.Name) and base.id == me:
                        out.append(n)
        if isinstance(n, ast.Call) and isinstance(n.func, ast.Attribute) and n.func.attr in MUTATORS:
            base = n.func.value
            depth = 0
            while isinstance(base, (ast.Subscript, ast.Attribute)):
                base = base.value
                depth += 1
            if depth >= 1 and isinstance(base, ast.Name) and base.id == me:
                out.append(n)
        if isinstance(n, ast.Call):
            o_ = kw(n, 'out')
            if o_ is not None:
                base = o_
                while isinstance(base, (ast.Subscript, ast.Attribute)):
                    base = base.value
                if isinstance(base, ast.Name) and base.id == me and base is not o_:
                    out.append(n)
    return out


def is_class_level_mutable(f, attr):
    """is `attr` bound in the class body of f's class to a mutable display (dict / list / set) or a dict()/list()/set() call?"""
    c = getattr(f, 'cls', None)
    if c is None:
        return False
    for st in c.node.body:
        if isinstance(st, ast.Assign) and any(isinstance(t, ast.Name) and t.id == attr for t in st.targets):
            v = st.value
            if isinstance(v, (ast.Dict, ast.List, ast.Set)) or (isinstance(v, ast.Call) and u(v.func) in ('dict', 'list', 'set', 'collections.defaultdict', 'defaultdict')):
                return True
    return False


def aliases_of(f, name):
    """the local names that are the same object as `name` through plain rebinding (`name = other`, the only definition)"""
    out = {name}
    todo = [name]
    while todo:
        cur = todo.pop()
        defs = find_assignments(f, cur)
        if len(defs) == 1 and isinstance(defs[0], ast.Assign) and isinstance(defs[0].value, ast.Name) and defs[0].value.id not in out:
            out.add(defs[0].value.id)
            todo.append(defs[0].value.id)
    return out


def alternatives(e):
    """the values an expanded expression may take: __phi__ arguments and both arms of conditional expressions, flattened"""
    if is_marker(e, '__phi__'):
        return [x for a_ in e.args for x in alternatives(a_)]
    if isinstance(e, ast.IfExp):
        return alternatives(e.body) + alternatives(e.orelse)
    return [e]


def literal_nf(N, atom, pol):
    """normal form of a guard literal (atom, polarity): `not a > b` and `a <= b` coincide"""
    return N.nf(atom if pol else ast.UnaryOp(op=ast.Not(), operand=atom))


def is_none_test(t, name):
    """is `t` the test `name is None` (also `name == None`)?"""
    while isinstance(t, ast.UnaryOp) and isinstance(t.op, ast.Not) and isinstance(t.operand, ast.UnaryOp) and isinstance(t.operand.op, ast.Not):
        t = t.operand.operand
    neg = False
    if isinstance(t, ast.UnaryOp) and isinstance(t.op, ast.Not):
        t, neg = t.operand, True
    if isinstance(t, ast.Compare) and len(t.ops) == 1 and isinstance(t.left, ast.Name) and t.left.id == name \
            and isinstance(t.comparators[0], ast.Constant) and t.comparators[0].value is None:
        pos = isinstance(t.ops[0], (ast.Is, ast.Eq))
        if isinstance(t.ops[0], (ast.Is, ast.Eq, ast.IsNot, ast.NotEq)):
            return pos != neg
    return False


def canon_calls(P, f, expr):
    """copy of an expression in which the callees that resolve to global names are written canonically (np.x -> numpy.x)"""
    from ..core.sym import clone

    class T(ast.NodeTransformer):
        def visit_Call(self, c):
            self.generic_visit(c)
            if isinstance(c.func, (ast.Name, ast.Attribute)) and not (isinstance(c.func, ast.Name) and c.func.id.startswith('__')):
                q = P.canon(f, c.func)
                if q is not None and not q.startswith('?undefined'):
                    c.func = ast.Name(id=q, ctx=ast.Load())
            return c
    return T().visit(clone(expr))


def accumulation_as_list(f, var):
    """`var = []; for t in it: var.append(term)` (one unconditional loop, no break/continue, nothing else touches var before the
    loop ends) -> the equivalent list comprehension `[term for t in it]`; None if the shape differs"""
    r = accumulation_alternatives(f, var)
    return r[0][0] if r is not None and len(r) == 1 else None


def accumulation_alternatives(f, var):
    """like accumulation_as_list, for a list filled by one loop per branch of an if/else: [(comprehension, loop statement)],
    the loops being mutually exclusive; None if the shape differs"""
    if var.isidentifier():
        inits = [a for a in find_assignments(f, var) if isinstance(a, ast.Assign)]
    else:
        # a container slot such as out['catalog']
        inits = [a for a in all_nodes(f) if isinstance(a, ast.Assign) and len(a.targets) == 1 and u(a.targets[0]) == var]
    if len(inits) != 1 or not (isinstance(inits[0].value, ast.List) and not inits[0].value.elts or
                               (isinstance(inits[0].value, ast.Call) and u(inits[0].value.func) == 'list' and not inits[0].value.args)):
        return None
    apps = [n for n in all_nodes(f) if isinstance(n, ast.Call) and isinstance(n.func, ast.Attribute) and n.func.attr in ('append', 'extend', 'insert')
            and u(n.func.value) == var]
    if not apps or len(apps) > 4 or in_loop(inits[0], f.node) is not None:
        return None
    out = []
    for app in apps:
        if app.func.attr != 'append' or len(app.args) != 1:
            return None
        st = stmt_of(app)
        lp = in_loop(st, f.node)
        if not isinstance(st, ast.Expr) or not isinstance(lp, ast.For) or lp.orelse or in_loop(lp, f.node) is not None:
            return None
        if not any(st is s_ for s_ in lp.body):
            return None
        if any(isinstance(x, (ast.Break, ast.Continue, ast.Return)) for x in ast.walk(lp)):
            return None
        # the appended term may depend on temporaries computed earlier in the same iteration: substitute them
        term = app.args[0]
        local = {}
        for s_ in lp.body:
            if s_ is st:
                break
            if isinstance(s_, ast.Assign) and len(s_.targets) == 1 and isinstance(s_.targets[0], ast.Name):
                local[s_.targets[0].id] = substitute(s_.value, local)
            elif isinstance(s_, (ast.If, ast.For, ast.While, ast.Try, ast.With)):
                stored = {t.id for t in ast.walk(s_) if isinstance(t, ast.Name) and isinstance(t.ctx, ast.Store)}
                if stored & {t.id for t in ast.walk(term) if isinstance(t, ast.Name)}:
                    return None
        term = substitute(term, local)
        out.append((ast.ListComp(elt=term, generators=[ast.comprehension(target=lp.target, iter=lp.iter, ifs=[], is_async=0)]), lp))
    # several loops: pairwise in opposite arms of one test
    for i in range(len(out)):
        for j in range(i + 1, len(out)):
            gi = {(id(t), pol) for t, pol in explicit_guards_of(out[i][1], f.node)}
            gj = {(id(t), pol) for t, pol in explicit_guards_of(out[j][1], f.node)}
            if not any((t, not pol) in gj for t, pol in gi):
                return None
    return out


def element_of(P, f, expr, depth=0):
    """generic element of a sequence-valued expression of function f, over markers: `__elem__(X)` = the current element of the
    input sequence X (all sequences derived from one X by order-preserving maps share the marker, so equal markers mean
    'same position'); comprehensions, append-loops, range(len(X)) indexing and array wrappers are seen through"""
    from ..core.expand import mk
    e = expr
    while True:
        if isinstance(e, ast.Call) and (P.canon(f, e.func) in ('numpy.array', 'numpy.asarray', 'builtins.list', 'builtins.tuple')) and len(e.args) >= 1:
            e = e.args[0]
            continue
        break
    if depth > 6:
        return mk('__elem__', e)
    if isinstance(e, ast.Name):
        acc = accumulation_as_list(f, e.id)
        if acc is not None:
            return element_of(P, f, acc, depth + 1)
        defs = [a for a in find_assignments(f, e.id) if isinstance(a, ast.Assign)]
        if len(defs) == 1 and len(find_assignments(f, e.id)) == 1 and e.id not in f.params:
            return element_of(P, f, defs[0].value, depth + 1)
        return mk('__elem__', e)
    if isinstance(e, (ast.ListComp, ast.GeneratorExp)) and len(e.generators) == 1 and not e.generators[0].ifs:
        g = e.generators[0]
        it = g.iter
        if isinstance(it, ast.Call) and P.canon(f, it.func) == 'builtins.range' and len(it.args) == 1:
            n = it.args[0]
            base = None
            if isinstance(n, ast.Call) and P.canon(f, n.func) == 'builtins.len' and n.args:
                base = n.args[0]
            elif isinstance(n, ast.Subscript) and isinstance(n.value, ast.Attribute) and n.value.attr == 'shape' and const_value(n.slice) == 0:
                base = n.value.value
            if base is not None and isinstance(g.target, ast.Name):
                # X[i] for i in range(len(X))  ->  element of X
                class R(ast.NodeTransformer):
                    def visit_Subscript(self, s_):
                        self.generic_visit(s_)
                        if isinstance(s_.slice, ast.Name) and s_.slice.id == g.target.id and u(s_.value) == u(base):
                            return element_of(P, f, base, depth + 1)
                        return s_
                from ..core.sym import clone
                return R().visit(clone(e.elt))
            return mk('__elem__', e)
        if isinstance(g.target, ast.Name):
            inner = element_of(P, f, it, depth + 1)
            return substitute(e.elt, {g.target.id: inner})
        return mk('__elem__', e)
    return mk('__elem__', e)


def in_loop(node, stop=None):
    for p in parents(node):
        if p is stop or isinstance(p, (ast.FunctionDef, ast.AsyncFunctionDef)):
            return None
        if isinstance(p, (ast.For, ast.While)):
            return p
    return None


def loops_around(node):
    out = []
    for p in parents(node):
        if isinstance(p, (ast.FunctionDef, ast.AsyncFunctionDef)):
            break
        if isinstance(p, (ast.For, ast.While)):
            out.append(p)
    return out


def kw(call, name, pos=None, default=None):
    return get_arg(call, pos, name, default)


def is_true(node):
    return isinstance(node, ast.Constant) and node.value is True


def is_const(node, value):
    v = const_value(node) if node is not None else NotImplemented
    return v is not NotImplemented and type(v) in (int, float, bool) and v == value


SHAPE_CALLS = {'numpy.asarray', 'numpy.array', 'numpy.copy', 'numpy.ravel', 'numpy.ascontiguousarray',
               'numpy.asanyarray', 'numpy.atleast_1d', 'numpy.squeeze', 'builtins.float', 'numpy.float64'}
SHAPE_METHODS = {'ravel', 'copy', 'flatten', 'squeeze'}


def strip_shape(e, also_astype=True):
    """Peel value-preserving wrappers from an (expanded) expression."""
    while True:
        if isinstance(e, ast.Call):
            n = call_name(e)
            if n in SHAPE_CALLS and e.args:
                e = e.args[0]
                continue
            if n and n[0] == '.' and n[1:] in SHAPE_METHODS and not e.args:
                e = e.func.value
                continue
            if also_astype and n == '.astype':
                e = e.func.value
                continue
            if n == '.reshape':
                e = e.func.value
                continue
        return e


def expander(prog, f, depth=0, filt=None):
    return Expander(prog, f, inline_depth=depth, inline_filter=filt)


def normalizer(**k):
    return sym.Normalizer(**k)


OPAQUE_TAGS = ('top', 'loop')


def opaque_in(poly):
    """Atoms that make a mismatch inconclusive rather than a definite difference."""
    out = []
    for a in poly.all_atoms():
        if isinstance(a, tuple) and a and a[0] in OPAQUE_TAGS:
            out.append(sym.show_atom(a))
        if isinstance(a, tuple) and a and a[0] == 'call' and isinstance(a[1], str) and a[1].startswith('.'):
            out.append(sym.show_atom(a))
    return out


def compare_nf(ob, got, specs, N=None, what='value'):
    """Discharge `ob` if NF(got) equals NF of one of `specs` (strings or ASTs); violation if it differs and is
    built from known vocabulary; inconclusive if opaque constructs are involved."""
    N = N or sym.Normalizer()
    g = N.nf(got)
    specs = specs if isinstance(specs, (list, tuple)) else [specs]
    nfs = [N.nf(s) for s in specs]
    for s in nfs:
        if g == s:
            ob.ok('%s normalises to %s' % (what, sym.show(s)))
            return True
    known = set()
    for sp in nfs:
        known.update(opaque_in(sp))
    op = [x for x in opaque_in(g) if x not in known]
    msg = '%s normalises to `%s`, expected `%s`' % (what, sym.show(g), sym.show(nfs[0]))
    if op:
        ob.unknown(msg + ' (opaque constructs: %s)' % ', '.join(op[:3]))
    else:
        ob.fail(msg)
    return False


def linear_coeffs(poly):
    """{atom: coefficient} for degree-one single-atom monomials; plus 'const' and 'other' (list of monomials)."""
    out, other = {}, []
    const = sym.ZERO
    for m, c in poly.t.items():
        if m == ():
            const = c
        elif len(m) == 1 and m[0][1] == 1:
            out[m[0][0]] = c
        else:
            other.append((m, c))
    return out, const, other


def atom_n(name):
    return ('n', name)


def find_assignments(f, name):
    """Assign/AugAssign/AnnAssign statements of the function that bind `name` (plain or 'self.attr')."""
    out = []
    for n in all_nodes(f):
        if isinstance(n, ast.Assign):
            for t in n.targets:
                if _binds(t, name):
                    out.append(n)
        elif isinstance(n, (ast.AugAssign, ast.AnnAssign)):
            if _binds(n.target, name):
                out.append(n)
    return out


def _binds(t, name):
    if isinstance(t, ast.Name):
        return t.id == name
    if isinstance(t, ast.Attribute) and isinstance(t.value, ast.Name):
        return t.value.id + '.' + t.attr == name
    if isinstance(t, (ast.Tuple, ast.List)):
        return any(_binds(e, name) for e in t.elts)
    return False


def subscript_stores(f, base=None):
    """Assign/AugAssign statements whose target is a Subscript (optionally of variable `base`)."""
    out = []
    for n in all_nodes(f):
        tg = []
        if isinstance(n, ast.Assign):
            tg = n.targets
        elif isinstance(n, ast.AugAssign):
            tg = [n.target]
        for t in tg:
            if isinstance(t, ast.Subscript):
                b = t.value
                if base is None or (isinstance(b, ast.Name) and b.id == base):
                    out.append((n, t))
    return out


def raises_in(body):
    return [n for s in body for n in ast.walk(s) if isinstance(n, ast.Raise)]


def raise_class(r):
    e = r.exc
    if isinstance(e, ast.Call):
        e = e.func
    if isinstance(e, ast.Name):
        return e.id
    if isinstance(e, ast.Attribute):
        return e.attr
    return None


def dict_literal_items(d):
    """[(key python value or NotImplemented, value node)]"""
    return [(const_value(k) if k is not None else NotImplemented, v) for k, v in zip(d.keys, d.values)]


def text_has(e, *stems):
    s = u(e).lower() if not isinstance(e, str) else e.lower()
    return any(st in s for st in stems)


def role_of(e):
    """Coordinate / magnitude role of an (expanded) expression judged from the vocabulary of its leaves."""
    s = u(e).lower()
    roles = set()
    import re
    toks = set(re.findall(r'[a-z_][a-z_0-9]*', s))
    def has(*stems):
        return any(any(st in t for st in stems) for t in toks)
    if has('lon', 'lng') or toks & {'xs', 'binx', 'x'}:
        roles.add('lon')
    if has('lat') or toks & {'ys', 'biny', 'y'}:
        roles.add('lat')
    if has('mag', 'mw'):
        roles.add('mag')
    return roles


# ------------------------------------------------------------------------------------------ result objects
RESULT_FIELDS = ('test_distribution', 'name', 'observed_statistic', 'quantile', 'status', 'obs_catalog_repr',
                 'sim_name', 'obs_name', 'min_mw')


def result_fields(prog, f, ex=None):
    """Fields of the evaluation-result object(s) a public test function returns.
    -> list of dicts {field: (expanded expr, node)} - one per returned object construction site.
    Handles `r = EvaluationResult(); r.x = ...; return r` and `return Cls(x=..., ...)`."""
    ex = ex or Expander(prog, f)
    out = []
    model_classes = {q for q, c in prog.classes.items() if c.module.name == 'csep.models'}
    for ret in returns(f):
        if ret.value is None:
            continue
        v = ret.value
        if isinstance(v, ast.Constant) and v.value is None:
            out.append({'__none__': (v, ret), '__ret__': ret})
            continue
        ctor = None
        varname = None
        if isinstance(v, ast.Name):
            varname = v.id
            node = f.cfg.node_of(ret)
            for d in f.cfg.defs_reaching(node, varname):
                dn = f.cfg.nodes[d]
                if isinstance(dn.ast, ast.Assign) and isinstance(dn.ast.value, ast.Call):
                    ctor = dn.ast.value
        elif isinstance(v, ast.Call):
            ctor = v
        if ctor is None:
            continue
        cname = prog.canon(f, ctor.func)
        if cname not in model_classes:
            continue
        fields = {'__class__': (cname, ctor), '__ret__': ret}
        for k in ctor.keywords:
            if k.arg:
                fields[k.arg] = (ex.expand(k.value), k.value)
        # Cls(**fields) with `fields` a local dictionary: its display and the constant-key item stores after it are the keyword arguments
        for k in ctor.keywords:
            if k.arg is None and isinstance(k.value, ast.Name):
                dname = k.value.id
                defs_ = [a_ for a_ in find_assignments(f, dname) if isinstance(a_, ast.Assign)]
                if len(defs_) == 1 and isinstance(defs_[0].value, ast.Dict) and all(kk is not None and isinstance(const_value(kk), str) for kk in defs_[0].value.keys):
                    for kk, vv in zip(defs_[0].value.keys, defs_[0].value.values):
                        fields[const_value(kk)] = (ex.expand(vv), vv)
                    for n in all_nodes(f):
                        if isinstance(n, ast.Assign) and len(n.targets) == 1 and isinstance(n.targets[0], ast.Subscript) and isinstance(n.targets[0].value, ast.Name) \
                                and n.targets[0].value.id == dname and isinstance(const_value(n.targets[0].slice), str):
                            fld = const_value(n.targets[0].slice)
                            val = (ex.expand(n.value), n.value)
                            if fld in fields and isinstance(fields[fld], tuple):
                                fields[fld] = (mk('__phi__', fields[fld][0], val[0]), n.value)
                            else:
                                fields[fld] = val
        init = prog.classes[cname].find_method('__init__') if cname in prog.classes else None
        if init is not None and ctor.args and not any(isinstance(a_, ast.Starred) for a_ in ctor.args):
            for pname, a_ in zip(init.positional_params[1:], ctor.args):
                fields.setdefault(pname, (ex.expand(a_), a_))
        if varname:
            rnode = f.cfg.node_of(ret)
            for n in all_nodes(f):
                if isinstance(n, ast.Assign) and len(n.targets) == 1 and isinstance(n.targets[0], ast.Attribute) \
                        and isinstance(n.targets[0].value, ast.Name) and n.targets[0].value.id == varname:
                    sn = f.cfg.node_of(n)
                    if sn is not None and rnode is not None and (f.cfg.can_reach(sn, rnode) or sn is rnode):
                        fld = n.targets[0].attr
                        val = (ex.expand(n.value), n.value)
                        if fld in fields and isinstance(fields[fld], tuple) and fld not in ('__class__',):
                            # several assignments (e.g. under try/except): keep all as phi
                            prev = fields[fld][0]
                            fields[fld] = (mk('__phi__', prev, val[0]), n.value)
                        else:
                            fields[fld] = val
        out.append(fields)
    return out


# ---------------------------------------------------------------------------------------------------------------------
# path-sensitive constant propagation over the acyclic statement structure of a function

def _stored_in(stmts):
    out = set()
    for s in stmts:
        for n in ast.walk(s):
            if isinstance(n, ast.Name) and isinstance(n.ctx, (ast.Store, ast.Del)):
                out.add(n.id)
    return out


def _fold(e):
    """constant folding of `+` on literals (strings, numbers) and of conditional expressions with a literal test"""
    class F(ast.NodeTransformer):
        def visit_BinOp(self, n):
            self.generic_visit(n)
            if isinstance(n.op, ast.Add) and isinstance(n.left, ast.Constant) and isinstance(n.right, ast.Constant) \
                    and type(n.left.value) is type(n.right.value) and isinstance(n.left.value, (str, int, float)):
                return ast.Constant(value=n.left.value + n.right.value)
            return n
    return F().visit(e)


def _split_ifexp(e):
    """[(expr without top-level conditional expressions, [(test, pol)])]"""
    if isinstance(e, ast.IfExp):
        out = []
        for v, pol in ((e.body, True), (e.orelse, False)):
            for v2, g in _split_ifexp(v):
                out.append((v2, [(e.test, pol)] + g))
        return out
    if isinstance(e, ast.BinOp):
        out = []
        for l, gl in _split_ifexp(e.left):
            for r, gr in _split_ifexp(e.right):
                out.append((ast.BinOp(left=l, op=e.op, right=r), gl + gr))
        return out
    return [(e, [])]


def path_values(f, want='return', limit=256):
    """Enumerate the paths through the if-structure of f with an environment of def-use substituted, constant-folded values.
    want='return': [(conds, returned expr)] for every value-returning path; want=<name>: [(conds, value of the local)] at every
    normal exit (fall-through or return).  conds = [(literal text, polarity)] with the path's earlier bindings substituted in.
    Loops, try and with blocks are not entered: the names they store become unknown (`__top__`) - sound, not precise.
    Raising paths are dropped.  More than `limit` paths -> Inconclusive."""
    # names whose values matter: the target and, transitively, whatever its assignments read
    relevant = None
    if want != 'return':
        relevant = {want}
        changed = True
        while changed:
            changed = False
            for n in all_nodes(f):
                tg = None
                if isinstance(n, ast.Assign):
                    tg = [x for t in n.targets for x in ast.walk(t) if isinstance(x, ast.Name)]
                elif isinstance(n, ast.AugAssign) and isinstance(n.target, ast.Name):
                    tg = [n.target]
                if tg and any(t.id in relevant for t in tg):
                    for x in ast.walk(n.value):
                        if isinstance(x, ast.Name) and x.id not in relevant:
                            relevant.add(x.id)
                            changed = True
    results = []

    def lits(test, pol, env):
        d = literal_dnf(substitute(test, env), pol)
        if len(d) == 1:
            return [(u(a), pl) for a, pl in d[0]]
        return [('(%s)' % u(substitute(test, env)), pol)]

    def matters(stmt):
        if relevant is None:
            return True
        if any(isinstance(n, (ast.Return, ast.Raise)) for n in ast.walk(stmt)):
            return True
        return bool(_stored_in([stmt]) & relevant)

    def run(stmts, env, conds, k):
        """k: continuation taking (env, conds)"""
        if len(results) > limit:
            raise Inconclusive('too many paths through %s' % f.qualname)
        if not stmts:
            return k(env, conds)
        s, rest = stmts[0], stmts[1:]
        if isinstance(s, ast.Return):
            if want == 'return':
                if s.value is not None:
                    for v, g in _split_ifexp(substitute(s.value, env)):
                        results.append((conds + [x for t, p in g for x in lits(t, p, {})], _fold(v)))
            elif want in env:
                results.append((conds, env[want]))
            return
        if isinstance(s, ast.Raise):
            return
        if isinstance(s, ast.If):
            if not matters(s):
                return run(rest, env, conds, k)
            run(s.body + rest, dict(env), conds + lits(s.test, True, env), k)
            run(s.orelse + rest, dict(env), conds + lits(s.test, False, env), k)
            return
        if isinstance(s, ast.Assign) and len(s.targets) == 1 and isinstance(s.targets[0], ast.Name):
            alts = _split_ifexp(substitute(s.value, env))
            if len(alts) == 1 or not matters(s):
                env = dict(env)
                env[s.targets[0].id] = _fold(substitute(s.value, env))
                return run(rest, env, conds, k)
            for v, g in alts:
                e2 = dict(env)
                e2[s.targets[0].id] = _fold(v)
                run(rest, e2, conds + [x for t, p in g for x in lits(t, p, {})], k)
            return
        if isinstance(s, ast.AugAssign) and isinstance(s.target, ast.Name):
            cur = env.get(s.target.id, ast.Name(id=s.target.id, ctx=ast.Load()))
            env = dict(env)
            env[s.target.id] = _fold(ast.BinOp(left=cur, op=s.op, right=substitute(s.value, env)))
            return run(rest, env, conds, k)
        # anything else: the names it stores become unknown
        st = _stored_in([s])
        if st:
            env = dict(env)
            for n_ in st:
                env[n_] = mk('__top__', ast.Constant(value=n_))
        if any(isinstance(n, ast.Return) for n in ast.walk(s)) and not isinstance(s, (ast.FunctionDef, ast.ClassDef)):
            raise Inconclusive('a return inside a loop/try/with of %s' % f.qualname)
        return run(rest, env, conds, k)

    def at_end(env, conds):
        if want != 'return':
            results.append((conds, env.get(want, ast.Name(id=want, ctx=ast.Load()))))
    run(list(f.node.body), {}, [], at_end)
    return results


NARROW_DTYPES = ('numpy.float32', 'numpy.float16', 'numpy.half', 'numpy.single', 'numpy.int8', 'numpy.int16', 'numpy.uint8', 'numpy.uint16',
                 'numpy.int32', 'numpy.uint32', 'numpy.intc')
NARROW_CODES = ('float32', 'float16', 'f4', 'f2', 'half', 'single', 'f', 'e', 'int8', 'int16', 'int32', 'i1', 'i2', 'i4', 'uint8', 'uint16', 'uint32',
                '<f4', '<f2', '=f4')


def narrow_dtype_uses(P, f):
    """nodes of f that name a reduced-precision numpy type (float32 / float16 / small integers) as a conversion target: a dtype=
    keyword, the argument of astype / asarray / array / zeros..., or the type called as a function"""
    out = []
    for a in all_nodes(f):
        q = None
        if isinstance(a, ast.Attribute):
            q = P.canon(f, a)
        elif isinstance(a, ast.Name):
            q = P.canon(f, a)
        if q in NARROW_DTYPES:
            p_ = getattr(a, '_parent', None)
            # inside a structured dtype description of a file format (a list of (name, type) pairs) the type describes the file, not a conversion
            inside_struct = False
            x = a
            while x is not None and not isinstance(x, ast.stmt):
                if isinstance(x, ast.Tuple) and len(x.elts) == 2 and isinstance(x.elts[0], ast.Constant) and isinstance(x.elts[0].value, str):
                    inside_struct = True
                x = getattr(x, '_parent', None)
            if not inside_struct:
                out.append((a, q))
        if isinstance(a, ast.Constant) and isinstance(a.value, str) and a.value in NARROW_CODES:
            p_ = getattr(a, '_parent', None)
            if (isinstance(p_, ast.keyword) and p_.arg == 'dtype') or \
                    (isinstance(p_, ast.Call) and isinstance(p_.func, ast.Attribute) and p_.func.attr in ('astype', 'view') and a in p_.args):
                out.append((a, a.value))
    return out


def rule_double_precision(ck, rule_id, quals=(), modules=(), what='rates, counts and statistics'):
    """no function on the path of the property converts numbers to a narrower numeric type: a value that went through float32 is
    another number (relative error 6e-8 instead of 1e-16), so the result is no longer the documented function of the input"""
    P = ck.prog
    fs = [P.func(q) for q in quals]
    for m in modules:
        fs.extend(P.funcs_in(m))
    n = 0
    seen = set()
    for f in fs:
        if f.qualname in seen:
            continue
        seen.add(f.qualname)
        for a, q in narrow_dtype_uses(P, f):
            n += 1
            ck.ob(rule_id, f, stmt_of(a) or a, a).fail(
                '%s converts to %s: %s are rounded to a narrower type (float32 keeps 7 digits), so everything computed from them differs from the '
                'value defined on the numbers that were supplied' % (f.short, q, what))
    o = ck.ob(rule_id, fs[0] if fs else 'package', 'no conversion to a narrower numeric type (%d functions read)' % len(seen), None)
    (o.ok() if n == 0 else o.fail('%d conversion(s) to a reduced-precision type' % n))


PREDICATE_CALLS = ('isinstance', 'hasattr', 'callable', 'issubclass', 'isnan', 'isna', 'isnull', 'notna', 'notnull', 'isfinite', 'isinf', 'any', 'all',
                   'isscalar', 'startswith', 'endswith', 'exists', 'isfile', 'isdir', 'is_integer')


def truthiness_tests(e):
    """the places inside an expression where a *value* is used as a condition (`x if v else y`, `v or y`, `v and y`): the operand is
    neither a comparison nor a predicate call.  A value that may legitimately be 0 / 0.0 / '' (an id, a seed, a magnitude) is then
    treated as missing.  Returns [(node, the operand used as a condition)]."""
    out = []

    def is_value(t):
        while isinstance(t, ast.UnaryOp) and isinstance(t.op, ast.Not):
            t = t.operand
        if isinstance(t, ast.Compare):
            return False
        if isinstance(t, ast.BoolOp):
            return any(is_value(v) for v in t.values)
        if isinstance(t, ast.Call):
            nm = t.func.attr if isinstance(t.func, ast.Attribute) else (t.func.id if isinstance(t.func, ast.Name) else '')
            if nm in PREDICATE_CALLS or is_marker(t):
                return False
        if isinstance(t, ast.Constant):
            return False
        return True
    for n in ast.walk(e):
        if isinstance(n, ast.IfExp) and is_value(n.test):
            out.append((n, n.test))
        elif isinstance(n, ast.BoolOp):
            p_ = getattr(n, '_parent', None)
            used_as_test = isinstance(p_, (ast.If, ast.While, ast.IfExp)) and getattr(p_, 'test', None) is n
            if not used_as_test:
                for v in n.values[:-1]:
                    if is_value(v):
                        out.append((n, v))
    return out


def value_conditions(f):
    """every place in function `f` where a *value* decides a branch: the atoms of if / while / conditional-expression tests and the
    non-final operands of `or` / `and` used for their value, as far as they are neither comparisons nor predicates.  `any(v)` / `v.any()`
    / `all(v)` / `bool(v)` count as the truth value of `v` (an array holding the index 0 is "nothing found").  Returns
    [(the value expression, the controlling node)]."""
    out = []

    def atoms(t):
        for conj in literal_dnf(t):
            for a, pol in conj:
                yield a

    def value_of(a):
        if isinstance(a, (ast.Compare, ast.Constant)):
            return None
        if isinstance(a, ast.Call):
            nm = a.func.attr if isinstance(a.func, ast.Attribute) else (a.func.id if isinstance(a.func, ast.Name) else '')
            if nm in ('any', 'all', 'bool', 'count_nonzero'):
                if a.args:
                    return a.args[0]
                if isinstance(a.func, ast.Attribute):
                    return a.func.value
                return None
            if nm in PREDICATE_CALLS or is_marker(a):
                return None
        return a
    for n in all_nodes(f):
        tests = []
        if isinstance(n, (ast.If, ast.While, ast.IfExp)):
            tests = [n.test]
        elif isinstance(n, ast.BoolOp):
            p_ = getattr(n, '_parent', None)
            as_test = isinstance(p_, (ast.If, ast.While, ast.IfExp)) and getattr(p_, 'test', None) is n
            as_test = as_test or isinstance(p_, ast.BoolOp) or (isinstance(p_, ast.UnaryOp) and isinstance(p_.op, ast.Not))
            if not as_test:
                tests = list(n.values[:-1])
        elif isinstance(n, ast.comprehension):
            tests = list(n.ifs)
        elif isinstance(n, ast.Assert):
            tests = []
        for t in tests:
            try:
                for a in atoms(t):
                    v = value_of(a)
                    if v is not None:
                        out.append((v, n))
            except Inconclusive:
                continue
    return out


# ---------------------------------------------------------------------------------------------------------------------
# partial evaluation of table look-ups and comprehensions over literal tables

def peval(expr, env=None):
    """Partially evaluate an expression under bindings of names to literals: constant subscripts of dict / tuple / list displays,
    bool() / tuple() / list() of literals, conditional expressions with a decided test, comparisons of literals, and comprehensions
    over a literal sequence are carried out; everything else stays as it is (with its parts evaluated).  No repository code runs."""
    env = dict(env or {})

    def lit(e):
        v = const_value(e)
        return v is not NotImplemented, v

    class PE(ast.NodeTransformer):
        def visit_Name(self, n):
            if isinstance(n.ctx, ast.Load) and n.id in env:
                return sym.clone(env[n.id])
            return n

        def visit_IfExp(self, n):
            t = self.visit(n.test)
            ok, v = lit(t)
            if ok:
                return self.visit(n.body if v else n.orelse)
            return ast.IfExp(test=t, body=self.visit(n.body), orelse=self.visit(n.orelse))

        def visit_UnaryOp(self, n):
            self.generic_visit(n)
            if isinstance(n.op, ast.Not):
                ok, v = lit(n.operand)
                if ok:
                    return ast.Constant(value=not v)
            return n

        def visit_Compare(self, n):
            self.generic_visit(n)
            if len(n.ops) == 1:
                (ok1, a), (ok2, b) = lit(n.left), lit(n.comparators[0])
                if ok1 and ok2:
                    op = n.ops[0]
                    if isinstance(op, ast.Eq):
                        return ast.Constant(value=a == b)
                    if isinstance(op, ast.NotEq):
                        return ast.Constant(value=a != b)
                    if isinstance(op, ast.Is):
                        return ast.Constant(value=a is b)
                    if isinstance(op, ast.IsNot):
                        return ast.Constant(value=a is not b)
            return n

        def visit_Call(self, n):
            self.generic_visit(n)
            nm = n.func.id if isinstance(n.func, ast.Name) else None
            nm = nm.split('.')[-1] if nm else None
            if nm == 'bool' and len(n.args) == 1 and not n.keywords:
                ok, v = lit(n.args[0])
                if ok:
                    return ast.Constant(value=bool(v))
            if nm in ('tuple', 'list') and len(n.args) == 1 and not n.keywords and isinstance(n.args[0], (ast.Tuple, ast.List)):
                return (ast.Tuple if nm == 'tuple' else ast.List)(elts=n.args[0].elts, ctx=ast.Load())
            return n

        def visit_Subscript(self, n):
            self.generic_visit(n)
            ok, k = lit(n.slice)
            if ok and isinstance(n.value, ast.Dict):
                for kk, vv in zip(n.value.keys, n.value.values):
                    if kk is not None:
                        ok2, k2 = lit(kk)
                        if ok2 and k2 == k and type(k2) is type(k):
                            return vv
            if ok and isinstance(k, int) and not isinstance(k, bool) and isinstance(n.value, (ast.Tuple, ast.List)) and -len(n.value.elts) <= k < len(n.value.elts):
                return n.value.elts[k]
            return n

        def _comp(self, n, elt_fields):
            if len(n.generators) != 1 or n.generators[0].ifs:
                self.generic_visit(n)
                return n
            g = n.generators[0]
            it = self.visit(g.iter)

            def residual():
                g.iter = it
                for f_ in elt_fields:
                    setattr(n, f_, self.visit(getattr(n, f_)))
                return n
            if not isinstance(it, (ast.Tuple, ast.List)) or len(it.elts) > 32:
                return residual()
            tg = g.target
            rows = []
            for e in it.elts:
                b = {}
                if isinstance(tg, ast.Name):
                    b[tg.id] = e
                elif isinstance(tg, (ast.Tuple, ast.List)) and isinstance(e, (ast.Tuple, ast.List)) and len(e.elts) == len(tg.elts) \
                        and all(isinstance(t, ast.Name) for t in tg.elts):
                    b = {t.id: x for t, x in zip(tg.elts, e.elts)}
                else:
                    return residual()
                rows.append(tuple(peval(sym.clone(getattr(n, f_)), dict(env, **b)) for f_ in elt_fields))
            return rows

        def visit_ListComp(self, n):
            r = self._comp(n, ('elt',))
            return ast.List(elts=[x[0] for x in r], ctx=ast.Load()) if isinstance(r, list) else r

        def visit_GeneratorExp(self, n):
            r = self._comp(n, ('elt',))
            return ast.List(elts=[x[0] for x in r], ctx=ast.Load()) if isinstance(r, list) else r

        def visit_DictComp(self, n):
            r = self._comp(n, ('key', 'value'))
            return ast.Dict(keys=[x[0] for x in r], values=[x[1] for x in r]) if isinstance(r, list) else r
    out = PE().visit(sym.clone(expr))
    # a second round lets `tuple([...])` of a freshly unrolled comprehension fold
    return PE().visit(out)


def path_stores(f, var, limit=128):
    """Enumerate the paths through the if-structure of f and collect, per path, the item / slice stores into the local `var`
    (`var[<sel>] = <value>`) with the path's earlier bindings substituted into selector and value.
    -> [(conds, env, [(selector expr, value expr, statement)])].  Same conventions as path_values (loops / try / with are not
    entered; raising paths are dropped; tuple assignments of displays are bound component-wise)."""
    out = []

    def lits(test, pol, env):
        t = _fold(substitute(test, env))
        d = literal_dnf(t, pol)
        if len(d) == 1:
            return [(u(a), pl) for a, pl in d[0]]
        return [('(%s)' % u(t), pol)]

    def run(stmts, env, conds, stores):
        if len(out) > limit:
            raise Inconclusive('too many paths through %s' % f.qualname)
        if not stmts:
            out.append((conds, env, stores))
            return
        s, rest = stmts[0], stmts[1:]
        if isinstance(s, ast.Return):
            out.append((conds, env, stores))
            return
        if isinstance(s, ast.Raise):
            return
        if isinstance(s, ast.If):
            t = substitute(s.test, env)
            c = const_value(t)
            if c is not NotImplemented and isinstance(c, (bool, int, type(None))):
                return run((s.body if c else s.orelse) + rest, env, conds, stores)
            run(s.body + rest, dict(env), conds + lits(s.test, True, env), list(stores))
            run(s.orelse + rest, dict(env), conds + lits(s.test, False, env), list(stores))
            return
        if isinstance(s, ast.Assign) and len(s.targets) == 1:
            t = s.targets[0]
            if isinstance(t, ast.Name):
                env = dict(env)
                env[t.id] = _fold(substitute(s.value, env))
                return run(rest, env, conds, stores)
            if isinstance(t, (ast.Tuple, ast.List)) and isinstance(s.value, (ast.Tuple, ast.List)) and len(t.elts) == len(s.value.elts) \
                    and all(isinstance(x, ast.Name) for x in t.elts):
                vals = [_fold(substitute(v, env)) for v in s.value.elts]
                env = dict(env)
                for x, v in zip(t.elts, vals):
                    env[x.id] = v
                return run(rest, env, conds, stores)
            if isinstance(t, ast.Subscript) and isinstance(t.value, ast.Name) and t.value.id == var:
                e2 = {k: v for k, v in env.items() if k != var}
                stores = stores + [(_fold(substitute(t.slice, e2)), _fold(substitute(s.value, e2)), s)]
                return run(rest, env, conds, stores)
        if isinstance(s, ast.AugAssign) and isinstance(s.target, ast.Name):
            cur = env.get(s.target.id, ast.Name(id=s.target.id, ctx=ast.Load()))
            env = dict(env)
            env[s.target.id] = _fold(ast.BinOp(left=cur, op=s.op, right=substitute(s.value, env)))
            return run(rest, env, conds, stores)
        st = _stored_in([s])
        if st:
            env = dict(env)
            for n_ in st:
                if n_ != var:
                    env[n_] = mk('__top__', ast.Constant(value=n_))
        return run(rest, env, conds, stores)
    run(list(f.node.body), {}, [], [])
    return out
