"""C15 - time conversions exact to the millisecond and order-preserving."""
import ast

from ..core import sym
from ..core.expand import u, call_name, get_arg, bind_args, Expander, is_marker, phi_alternatives
from ..core.loader import Inconclusive, const_value, parents
from .common import (accumulation_as_sum, returns, all_nodes, callee, strip_shape, calls_in, guards_of, stmt_of, kw, find_assignments, compare_nf, path_values)

EXPLANATION = (
    "Decided: D1 no lossy step on a time quantity: no int()/floor/floor-division/truncation is applied to float "
    "seconds (total_seconds(), timestamp()); datetime->epoch-ms is exact integer timedelta arithmetic (or round()), "
    "epoch-ms->datetime divides by exactly 1000 with true division; ms<->days factors are 1000 and 86 400; D2 "
    "fromtimestamp is called with an explicit UTC tz, naive datetimes are tagged UTC before subtraction from a UTC "
    "epoch of 1970-01-01, a non-UTC tzinfo raises; D3 parse_string_format selects the fraction format iff '.' is "
    "present and appends %z iff an offset is present, strptime_to_utc_epoch = datetime_to_utc_epoch o "
    "strptime_to_utc_datetime; D4 decimal_year uses the leap-aware day count of the date's own year and the "
    "preceding months of that year (calendar calls with consistent roles, or a verified cumulative-day table with the "
    "leap day added after February), and equals year + (days + h/24 + m/1440 + (s+us*1e-6)/86400)/days_in_year; the "
    "inverse splits year/fraction with the same leap rule. NOT decided: monotonicity / inverse accuracy of "
    "decimal_year as float facts; that fromtimestamp(ms/1000) lands on the intended microsecond for every ms in "
    "1900..2200; the os.name == 'nt' branch (unreachable on this platform). "
    "Also decided (round 5): D2.local no `.astimezone()` on a value not tested for a tzinfo in time_utils / forecasts / catalogs (naive = UTC, not local time); D1.live get_datetimes converts the stored epoch times at every call; D3/D4 are read path-sensitively (format per combination of '.'/offset, year length per leap test).")
CLAUSES = {'D1': 'no lossy unit step', 'D2': 'UTC discipline', 'D3': 'format sniffing and composition', 'D4': 'decimal year'}
TRUSTED = ['CPython ast', 'datetime: timedelta // timedelta is exact integer arithmetic', 'calendar.isleap / monthrange']
T = 'csep.utils.time_utils.'
ROOTS = [T + 'epoch_time_to_utc_datetime', T + 'datetime_to_utc_epoch', T + 'strptime_to_utc_datetime', T + 'strptime_to_utc_epoch',
         T + 'decimal_year', T + 'decimal_year_to_utc_epoch', T + 'millis_to_days', T + 'days_to_millis',
         'csep.core.catalogs.AbstractBaseCatalog.get_datetimes', 'csep.core.forecasts.CatalogForecast.start_epoch',
         'csep.core.forecasts.CatalogForecast.end_epoch']
TECHNIQUE = 'static analysis: units/exactness typing of time expressions, normal-form identities, table literal verification'

FLOAT_SECONDS = ('.total_seconds', '.timestamp')
TRUNCATORS = {'builtins.int', 'math.floor', 'numpy.floor', 'math.trunc', 'numpy.trunc', 'numpy.int64', 'numpy.fix'}


def _lossy(e):
    """truncating operations applied to float seconds inside expanded expression e -> list of nodes"""
    hits = []
    def has_float_seconds(n):
        return any(isinstance(x, ast.Call) and (call_name(x) or '') in FLOAT_SECONDS for x in ast.walk(n))
    for n in ast.walk(e):
        if isinstance(n, ast.Call) and (call_name(n) or '') in TRUNCATORS and n.args and has_float_seconds(n.args[0]):
            hits.append(n)
        if isinstance(n, ast.BinOp) and isinstance(n.op, ast.FloorDiv) and (has_float_seconds(n.left)):
            hits.append(n)
        if isinstance(n, ast.Call) and (call_name(n) or '') == '.astype' and has_float_seconds(n.func.value):
            hits.append(n)
    return hits


def rule_exact(ck, only=None):
    P = ck.prog
    ck.clause('D1')
    names = ['datetime_to_utc_epoch', 'strptime_to_utc_epoch', 'epoch_time_to_utc_datetime', 'utc_now_epoch',
             'decimal_year_to_utc_epoch', 'strptime_to_utc_datetime']
    for nm in names:
        if only and nm not in only:
            continue
        f = P.func(T + nm)
        ex = Expander(P, f)
        for r in returns(f):
            if r.value is None:
                continue
            e = ex.expand(r.value)
            o = ck.ob('C15-D1.lossless', f, r.value, r)
            hits = _lossy(e)
            if hits:
                o.fail('`%s` truncates float seconds: seconds are not exactly representable in binary, so about 0.6-0.8%% of '
                       'millisecond values (and every negative non-integer value, truncated towards zero) come out one millisecond '
                       'or one second off; use integer timedelta arithmetic or round()' % u(hits[0])[:90])
            else:
                o.ok('no truncation of float seconds')
    if only and 'datetime_to_utc_epoch' not in only:
        return
    # positive form of datetime_to_utc_epoch
    f = P.func(T + 'datetime_to_utc_epoch')
    ex = Expander(P, f)
    main = [r for r in returns(f) if r.value is not None and not (isinstance(r.value, ast.Name) and r.value.id == f.positional_params[0])]
    o = ck.ob('C15-D1.epochms', f, main[0].value if main else 'return', main[0] if main else f.node)
    if len(main) != 1:
        o.unknown('%d non-trivial returns' % len(main))
        return
    e = strip_shape(ex.expand(main[0].value))
    good, why = False, 'the result `%s` is not (dt - epoch) // timedelta(milliseconds=1) nor round(1000*seconds)' % u(main[0].value)[:80]
    def is_delta(x):
        return isinstance(x, ast.BinOp) and isinstance(x.op, ast.Sub) and 'datetime.datetime(1970, 1, 1' in u(x.right)
    if isinstance(e, ast.BinOp) and isinstance(e.op, ast.FloorDiv) and is_delta(e.left):
        unit = e.right
        if isinstance(unit, ast.Call) and call_name(unit) == 'datetime.timedelta':
            kws = {k.arg: const_value(k.value) for k in unit.keywords}
            ms = kws.get('milliseconds', 0) + kws.get('microseconds', 0) / 1000.0 + kws.get('seconds', 0) * 1000.0
            if not unit.args and ms == 1:
                good = True
            else:
                why = 'the time difference is divided by `%s`, which is not one millisecond' % u(unit)
    elif isinstance(e, ast.Call) and call_name(e) in ('builtins.round',) and e.args:
        a = sym.Normalizer().nf(e.args[0])
        st = a.single_term()
        if st is not None and st[1] == 1000 and 'total_seconds' in sym.show(a):
            good = True
    if not good and isinstance(e, ast.BinOp) and isinstance(e.op, ast.Add):
        # the same floor division written on the components of the (normalised) time difference E = dt - epoch:
        # (E.days * 86400 + E.seconds) * 1000 + E.microseconds // 1000   - E.seconds and E.microseconds are never negative
        deltas = {u(x.value) for x in ast.walk(e) if isinstance(x, ast.Attribute) and x.attr in ('days', 'seconds', 'microseconds')}
        if len(deltas) == 1 and all(is_delta(x.value) for x in ast.walk(e) if isinstance(x, ast.Attribute) and x.attr in ('days', 'seconds', 'microseconds')):
            E = deltas.pop()
            txt = u(e).replace(E, 'E').replace('csep.utils.constants.SECONDS_PER_DAY', '86400').replace('SECONDS_PER_DAY', '86400')
            Nn = sym.Normalizer()
            try:
                whole, frac = e.left, e.right
                ok_frac = isinstance(frac, ast.BinOp) and isinstance(frac.op, ast.FloorDiv) and const_value(frac.right) == 1000 \
                    and isinstance(frac.left, ast.Attribute) and frac.left.attr == 'microseconds'
                wtxt = u(whole).replace(E, 'E').replace('csep.utils.constants.SECONDS_PER_DAY', '86400').replace('SECONDS_PER_DAY', '86400')
                ok_whole = Nn.nf(wtxt) == Nn.nf('(E.days * 86400 + E.seconds) * 1000')
                good = ok_frac and ok_whole
            except Exception:
                good = False
    (o.ok('exact integer milliseconds since 1970-01-01 UTC') if good else o.fail(why))


def rule_units(ck):
    P = ck.prog
    ck.clause('D1')
    N = sym.Normalizer()
    cm = P.module('csep.utils.constants')
    spd = cm.assigns.get('SECONDS_PER_DAY')
    o = ck.ob('C15-D1.const', 'csep.utils.constants', 'SECONDS_PER_DAY = %s' % (u(spd) if spd is not None else '?'), spd)
    v = N.nf(spd) if spd is not None else None
    (o.ok('86400') if v is not None and v.is_const() and v.const_value() == 86400 else o.fail('SECONDS_PER_DAY is not 86 400'))
    for nm, spec in (('millis_to_days', '{p} / 86400 / 1000'),
                     ('days_to_millis', '{p} * 86400 * 1000')):
        f = P.func(T + nm)
        ex = Expander(P, f)
        r = [x for x in returns(f) if x.value is not None]
        o = ck.ob('C15-D1.factor', f, r[0].value, r[0])
        compare_nf(o, ex.expand(r[0].value), spec.format(p=f.positional_params[0]), N, what=nm)
    f = P.func(T + 'epoch_time_to_utc_datetime')
    ex = Expander(P, f)
    calls = calls_in(P, f, 'datetime.datetime.fromtimestamp')
    o = ck.ob('C15-D1.ms2s', f, calls[0] if calls else 'fromtimestamp', calls[0] if calls else f.node)
    if len(calls) != 1:
        o.fail('epoch->datetime does not go through datetime.fromtimestamp exactly once')
        return
    a = ex.expand(calls[0].args[0])
    p = f.positional_params[0]
    if N.nf(a) == N.nf('%s / 1000' % p) and not any(isinstance(x, ast.BinOp) and isinstance(x.op, ast.FloorDiv) for x in ast.walk(a)):
        o.ok('milliseconds / 1000 (true division)')
    else:
        o.fail('the timestamp handed to fromtimestamp is `%s`; it must be <ms> / 1000 with true division (floor division drops the '
               'milliseconds, another factor changes the unit)' % u(a))
    # every definition of the returned datetime, on every platform branch, is one of the two exact constructions
    rr = [x for x in returns(f) if x.value is not None and not (isinstance(x.value, ast.Name) and x.value.id == p)]
    forms = ['datetime.datetime.fromtimestamp({p} / 1000, datetime.timezone.utc)',
             'datetime.datetime.fromtimestamp({p} / 1000, tz=datetime.timezone.utc)']
    for arg in ('{p}', 'builtins.float({p})', 'builtins.int({p})'):
        forms.append('datetime.datetime(1970, 1, 1, tzinfo=datetime.timezone.utc) + datetime.timedelta(milliseconds=%s)' % arg)
    NE = sym.Normalizer(erase_shape=False)
    okforms = [NE.nf(ast.parse(t_.format(p=p), mode='eval').body) for t_ in forms]
    def is_utc_epoch(e):
        """datetime(1970, 1, 1[, 0...]) made UTC-aware by tzinfo= or by .replace(tzinfo=utc)"""
        aware = False
        if isinstance(e, ast.Call) and isinstance(e.func, ast.Attribute) and e.func.attr == 'replace' and not e.args \
                and [k_.arg for k_ in e.keywords] == ['tzinfo'] and u(e.keywords[0].value) == 'datetime.timezone.utc':
            aware, e = True, e.func.value
        if not (isinstance(e, ast.Call) and call_name(e) == 'datetime.datetime'):
            return False
        vals = [const_value(a_) for a_ in e.args]
        if vals[:3] != [1970, 1, 1] or any(v_ != 0 for v_ in vals[3:7]):
            return False
        tzk = kw(e, 'tzinfo', 7)
        if tzk is not None and u(tzk) == 'datetime.timezone.utc':
            aware = True
        return aware

    def exact_sum(e):
        if isinstance(e, ast.BinOp) and isinstance(e.op, ast.Add):
            for a_, b_ in ((e.left, e.right), (e.right, e.left)):
                if is_utc_epoch(a_) and isinstance(b_, ast.Call) and call_name(b_) == 'datetime.timedelta' and not b_.args \
                        and [k_.arg for k_ in b_.keywords] == ['milliseconds'] \
                        and u(b_.keywords[0].value) in (p, 'builtins.float(%s)' % p, 'builtins.int(%s)' % p):
                    return True
        return False
    for x in rr:
        for alt in phi_alternatives(ex.expand(x.value)):
            oo = ck.ob('C15-D1.branch', f, u(alt)[:120], x)
            try:
                good = NE.nf(alt) in okforms or exact_sum(alt)
            except Exception:
                good = False
            (oo.ok('exact construction') if good else
             oo.fail('one branch builds the datetime as `%s`: neither fromtimestamp(ms / 1000, UTC) nor UTC epoch + timedelta(milliseconds=ms); '
                     'string surgery on the float seconds misplaces the milliseconds (-1500 ms -> -1 s - 5 ms) and yields a naive '
                     'datetime' % u(alt)[:140]))
    ck.clause('D2')
    o = ck.ob('C15-D2.tz', f, calls[0], calls[0])
    tz = calls[0].args[1] if len(calls[0].args) > 1 else kw(calls[0], 'tz')
    (o.ok('tz=UTC') if tz is not None and u(ex.expand(tz)) == 'datetime.timezone.utc' else
     o.fail('fromtimestamp is called without tz=datetime.timezone.utc: the result would be in the machine\'s local time zone'))


def rule_no_local_time(ck):
    """D2.local: in this package a naive datetime *is* UTC.  `x.astimezone(tz)` reads a naive x as wall-clock time of the machine, so
    wherever times are stored or converted it may only be applied to a value that was tested to carry a tzinfo.  Read in the time
    utilities and in the classes that hold times (forecasts, catalogs)."""
    P = ck.prog
    ck.clause('D2')
    n_funcs = 0
    hits = 0
    for mod in ('csep.utils.time_utils', 'csep.core.forecasts', 'csep.core.catalogs'):
        for f in P.funcs_in(mod):
            n_funcs += 1
            for c in all_nodes(f):
                if isinstance(c, ast.Call) and isinstance(c.func, ast.Attribute) and c.func.attr == 'astimezone':
                    recv = u(c.func.value)
                    aware = any(('tzinfo' in u(t) and recv.split('.')[0] in u(t)) for t, pol in guards_of(c, f.node))
                    hits += 1
                    o = ck.ob('C15-D2.local', f, c, c)
                    (o.ok('receiver tested for a tzinfo') if aware else
                     o.fail('`%s` converts a possibly naive datetime through the local time zone of the machine: the package defines naive = UTC '
                            '(datetime_to_utc_epoch tags it with replace(tzinfo=utc)), so outside UTC the stored time is shifted by the local offset and '
                            'the conversion is not even monotone across a daylight-saving change' % u(c)[:70]))
    o = ck.ob('C15-D2.local', P.func(T + 'datetime_to_utc_epoch'), 'no conversion through the local time zone (%d functions read)' % n_funcs, None)
    o.ok('%d astimezone call(s), each on a value known to be aware' % hits)


def rule_utc(ck):
    P = ck.prog
    rule_no_local_time(ck)
    ck.clause('D2')
    f = P.func(T + 'datetime_to_utc_epoch')
    N = sym.Normalizer()
    tags = [n for n in all_nodes(f) if isinstance(n, ast.If) and 'tzinfo' in u(n.test) and 'None' in u(n.test)]
    o = ck.ob('C15-D2.naive', f, tags[0].test if tags else 'naive datetimes tagged UTC', tags[0] if tags else f.node)
    good = False
    exf = Expander(P, f, keep=set(f.params))
    for t in tags:
        for s in t.body:
            if isinstance(s, ast.Assign) and 'replace(tzinfo=datetime.timezone.utc)' in u(exf.expand(s.value)):
                good = True
    (o.ok('naive -> tzinfo=UTC') if good else o.fail('a naive datetime is not tagged as UTC before the subtraction from the UTC epoch (TypeError or local-time shift)'))
    rs = [n for n in all_nodes(f) if isinstance(n, ast.If) and any(isinstance(s, ast.Raise) for s in n.body) and 'tzinfo' in u(n.test)]
    o = ck.ob('C15-D2.nonutc', f, rs[0].test if rs else 'non-UTC tzinfo raises', rs[0] if rs else f.node)
    (o.ok() if rs and "'UTC'" in u(rs[0].test) else o.fail('a datetime with a non-UTC tzinfo is no longer rejected'))
    g = P.func(T + 'strptime_to_utc_datetime')
    ex = Expander(P, g)
    r = [x for x in returns(g) if x.value is not None]
    # every way out of the parser is the library parser tagged as UTC: a hand-written parse of the fields (fraction digits,
    # two-digit fields, ...) is a second implementation of the time format
    for x in r:
        o = ck.ob('C15-D2.parse', g, x.value, x)
        bad = None
        for alt in phi_alternatives(ex.expand(x.value)):
            txt = u(alt)
            if not ('datetime.datetime.strptime(time_string' in txt.replace('(%s' % g.positional_params[0], '(time_string')
                    and txt.endswith('.replace(tzinfo=datetime.timezone.utc)')):
                bad = txt
        (o.ok('strptime(...).replace(tzinfo=UTC)') if bad is None else
         o.fail('parsed time strings are not returned as strptime(...) tagged UTC on every path: `%s`' % bad[:90]))


def rule_formats(ck):
    P = ck.prog
    ck.clause('D3')
    f = P.func(T + 'parse_string_format')
    p = f.positional_params[0]
    o = ck.ob('C15-D3.sniff', f, 'fraction iff ".", %z iff offset', f.node)
    # path-sensitive constant propagation: the format returned for each combination of (has a '.', ends with an offset)
    fr_lit, off_lit = "'.' in %s" % p, "%s[-6] == '+'" % p
    seen = {}
    probs = []
    try:
        paths = path_values(f)
    except Inconclusive as e:
        paths = []
        probs.append(str(e))
    for conds, val in paths:
        cd = dict(conds)
        other = [c for c in cd if c not in (fr_lit, off_lit)]
        if other:
            probs.append('the format depends on `%s`' % other[0])
            continue
        v = const_value(val)
        for fr in ([cd[fr_lit]] if fr_lit in cd else [True, False]):
            for of in ([cd[off_lit]] if off_lit in cd else [True, False]):
                seen.setdefault((fr, of), set()).add(v if isinstance(v, str) else u(val))
    for fr in (True, False):
        for of in (True, False):
            want = '%Y-%m-%d %H:%M:%S' + ('.%f' if fr else '') + ('%z' if of else '')
            got = seen.get((fr, of), set())
            if got != {want} and not probs:
                if not fr and not of and got:
                    probs.append('base format is %s' % sorted(got))
                elif fr != ('.%f' in ''.join(map(str, got))) or not got:
                    probs.append('the fractional-seconds format is not selected exactly when "." occurs in the string')
                else:
                    probs.append('%z is not appended exactly when the string ends with a +HH:MM offset')
    (o.fail('; '.join(probs)) if probs else o.ok('four combinations, four formats'))
    g = P.func(T + 'strptime_to_utc_epoch')
    ex = Expander(P, g)
    r = [x for x in returns(g) if x.value is not None]
    o = ck.ob('C15-D3.compose', g, r[0].value if r else 'return', r[0] if r else g.node)
    if not r:
        o.fail('strptime_to_utc_epoch returns nothing')
        return
    # every way out is the composition: a second, hand-written reading of the string (a fast path that takes the digits of the
    # fraction itself) is another parser with its own idea of '.5' or of a missing fraction
    bad = None
    for x in r:
        e = ex.expand(x.value)
        for alt in phi_alternatives(e):
            good = isinstance(alt, ast.Call) and call_name(alt) == T + 'datetime_to_utc_epoch' and alt.args and isinstance(alt.args[0], ast.Call) \
                and call_name(alt.args[0]) == T + 'strptime_to_utc_datetime' and alt.args[0].args and u(alt.args[0].args[0]) == g.positional_params[0]
            if not good:
                bad = alt
    (o.ok('datetime_to_utc_epoch(strptime_to_utc_datetime(s, fmt)) on every return') if bad is None else
     o.fail('strptime_to_utc_epoch returns `%s`: every return must compose the string parser with the exact datetime->epoch conversion so that '
            'strings, datetimes and epochs agree to the millisecond' % u(bad)[:100]))


CUM_DAYS = [0, 31, 59, 90, 120, 151, 181, 212, 243, 273, 304, 334, 365]
MONTH_DAYS = [31, 28, 31, 30, 31, 30, 31, 31, 30, 31, 30, 31]


def _same_sum(acc, want):
    """sum([term for v in it]) equal to the wanted comprehension up to the name of the bound variable"""
    w = ast.parse(want, mode='eval').body
    try:
        ca, cw = acc.args[0], w.args[0]
        va, vw = ca.generators[0].target.id, cw.generators[0].target.id
    except Exception:
        return False

    class R(ast.NodeTransformer):
        def visit_Name(self, n):
            return ast.Name(id='__v__', ctx=n.ctx) if n.id == self.v else n
    ra, rw = R(), R()
    ra.v, rw.v = va, vw
    return u(ra.visit(sym.clone(acc))) == u(rw.visit(sym.clone(w)))


def _yearlen_probs(f, var=None):
    """path-sensitive reading of the year length: 366 exactly on the paths where calendar.isleap(...) holds, 365 on the others.
    The variable is whatever local receives the constants 365 / 366 (directly or as the arms of a conditional expression); a
    conditional expression that is used in place is read by itself."""
    def is_len(e):
        v = const_value(e)
        return v is not NotImplemented and isinstance(v, (int, float)) and v in (365, 366)
    names = []
    inline = []
    for n in all_nodes(f):
        if isinstance(n, ast.Assign) and len(n.targets) == 1 and isinstance(n.targets[0], ast.Name):
            v = n.value
            if is_len(v) or (isinstance(v, ast.IfExp) and is_len(v.body) and is_len(v.orelse)):
                if n.targets[0].id not in names:
                    names.append(n.targets[0].id)
        if isinstance(n, ast.IfExp) and is_len(n.body) and is_len(n.orelse):
            p_ = getattr(n, '_parent', None)
            if not (isinstance(p_, ast.Assign) and p_.value is n):
                inline.append(n)
    if var is not None and var not in names:
        names.append(var)
    probs = []
    n_ok = 0
    for e in inline:
        if 'isleap' in u(e.test) and not (isinstance(e.test, ast.UnaryOp)) and const_value(e.body) == 366 and const_value(e.orelse) == 365:
            n_ok += 2
        elif isinstance(e.test, ast.UnaryOp) and isinstance(e.test.op, ast.Not) and 'isleap' in u(e.test) and const_value(e.body) == 365 and const_value(e.orelse) == 366:
            n_ok += 2
        else:
            probs.append('year length `%s` does not give 366 days exactly for leap years' % u(e))
    for nm in names:
        try:
            paths = path_values(f, nm)
        except Inconclusive as e:
            return [str(e)]
        for conds, val in paths:
            leap = [pol for c, pol in conds if 'isleap' in c]
            v = const_value(val)
            if len(leap) != 1 or v is NotImplemented:
                probs.append('year length `%s` is not selected by the leap-year test' % u(val))
            elif v != (366 if leap[0] else 365):
                probs.append('%s days for a %s year' % (v, 'leap' if leap[0] else 'common'))
            else:
                n_ok += 1
    if n_ok < 2 and not probs:
        probs.append('year length values / leap branch do not give 366 days exactly for leap years')
    return probs


def rule_decimal_year(ck):
    P = ck.prog
    ck.clause('D4')
    f = P.func(T + 'decimal_year')
    ex = Expander(P, f)
    d = f.positional_params[0]
    N = sym.Normalizer()
    # leap rule on the date's own year
    leaps = calls_in(P, f, 'calendar.isleap')
    o = ck.ob('C15-D4.leap', f, leaps[0] if leaps else 'calendar.isleap', leaps[0] if leaps else f.node)
    if not leaps or any(u(ex.expand(c.args[0])) != '%s.year' % d for c in leaps):
        o.fail('the length of the year is not decided by calendar.isleap(%s.year)' % d)
    else:
        o.ok()
    ndy = find_assignments(f, 'num_days_per_year')
    o = ck.ob('C15-D4.yearlen', f, 'num_days_per_year in {365, 366}', ndy[0] if ndy else f.node)
    probs = _yearlen_probs(f)
    (o.fail('; '.join(probs[:3])) if probs else o.ok())
    # days in preceding months
    nd = find_assignments(f, 'num_days')
    o = ck.ob('C15-D4.months', f, nd[0] if nd else 'days in preceding months', nd[0] if nd else f.node)
    ok, why = False, 'cannot read the count of days in the preceding months'
    if len(nd) >= 1:
        e = ex.expand(ast.Name(id='num_days', ctx=ast.Load()), at=f.cfg.exit)
        txt = u(e)
        want = "sum([calendar.monthrange(%s.year, i)[1] for i in range(1, %s.month)])" % (d, d)
        acc = accumulation_as_sum(f, 'num_days')
        if txt.replace('builtins.', '') == want:
            ok = True
        elif acc is not None and _same_sum(acc, want):
            ok = 'accumulation loop over calendar.monthrange for months 1..month-1'
        else:
            ok, why = _table_days(P, f, d, e)
        if not ok:
            # days from the first of the year to the first of the month, as a difference of proleptic ordinals
            se = strip_shape(e)
            def _first(c_, month):
                return isinstance(c_, ast.Call) and isinstance(c_.func, ast.Attribute) and c_.func.attr == 'toordinal' and not c_.args \
                    and isinstance(c_.func.value, ast.Call) and call_name(c_.func.value) in ('datetime.date', 'datetime.datetime') \
                    and len(c_.func.value.args) == 3 and not c_.func.value.keywords \
                    and u(c_.func.value.args[0]) == '%s.year' % d and u(c_.func.value.args[1]) == month and const_value(c_.func.value.args[2]) == 1
            if isinstance(se, ast.BinOp) and isinstance(se.op, ast.Sub) and _first(se.left, '%s.month' % d) and _first(se.right, '1'):
                ok = 'ordinal of the first of the month minus ordinal of January 1 of the same year'
    (o.ok('calendar.monthrange over months 1..month-1 of the same year' if ok is True else str(ok)) if ok else o.fail(why))
    # formula
    r = [x for x in returns(f) if x.value is not None and not (isinstance(x.value, ast.Constant))]
    o = ck.ob('C15-D4.formula', f, r[-1].value if r else 'return', r[-1] if r else f.node)
    if r:
        e = ex.expand(r[-1].value)
        spec = ('{d}.year + (__ND__ + ({d}.day - 1) + {d}.hour / 24.0 + {d}.minute / (24.0 * 60.0) + '
                '({d}.second + {d}.microsecond * 1e-06) / (24.0 * 60.0 * 60.0)) / __NY__').format(d=d)
        env = {'__ND__': ex.expand(ast.Name(id='num_days', ctx=ast.Load()), at=f.cfg.node_of(r[-1])),
               '__NY__': ex.expand(ast.Name(id='num_days_per_year', ctx=ast.Load()), at=f.cfg.node_of(r[-1]))}
        compare_nf(o, e, spec, sym.Normalizer(env=env), what='decimal year')
    # inverse
    g = P.func(T + 'decimal_year_to_utc_datetime')
    leaps = calls_in(P, g, 'calendar.isleap')
    o = ck.ob('C15-D4.inverse', g, leaps[0] if leaps else 'calendar.isleap', leaps[0] if leaps else g.node)
    exg = Expander(P, g)
    p = g.positional_params[0]
    good = bool(leaps) and N.nf(exg.expand(leaps[0].args[0])) == N.nf('%s // 1' % p)
    yf = [a for a in find_assignments(g, 'year_frac')]
    good = good and yf and N.nf(yf[0].value) == N.nf('%s %% 1' % p)
    if good and _yearlen_probs(g):
        good = False
    (o.ok('year = y // 1, fraction = y % 1, leap rule on that year') if good else
     o.fail('the inverse does not split the decimal year into (y // 1, y % 1) with the leap rule on that year'))
    r = [x for x in returns(g) if x.value is not None]
    if r:
        e = exg.expand(r[0].value)
        o = ck.ob('C15-D4.inverse-form', g, r[0].value, r[0])
        txt = u(e)
        want_us = [N.nf('__phi__(%s) * 24 * 60 * 60 * 1000000.0 * (%s %% 1)' % (o_, p)) for o_ in ('365.0, 366.0', '366.0, 365.0')]
        tds = [c for c in ast.walk(e) if isinstance(c, ast.Call) and call_name(c) == 'datetime.timedelta']
        class _Phi(ast.NodeTransformer):     # a conditional expression and a phi of two assignments are the same pair of values here
            def visit_IfExp(self, n):
                self.generic_visit(n)
                return ast.Call(func=ast.Name(id='__phi__', ctx=ast.Load()), args=[n.body, n.orelse], keywords=[])
        us = kw(tds[0], 'microseconds') if len(tds) == 1 else None
        # Jan 1, 00:00:00.000000 of the year: the trailing zeros may be written or left to the defaults
        jan1 = any(isinstance(c, ast.Call) and call_name(c) == 'datetime.datetime' and not c.keywords and len(c.args) >= 3
                   and N.nf(c.args[0]) == N.nf('builtins.int(%s // 1)' % p) and [const_value(a_) for a_ in c.args[1:3]] == [1, 1]
                   and all(const_value(a_) == 0 for a_ in c.args[3:]) for c in ast.walk(e))
        good = us is not None and N.nf(_Phi().visit(sym.clone(us))) in want_us and jan1 and txt.endswith('.replace(tzinfo=datetime.timezone.utc)')
        (o.ok('Jan 1 of the year + fraction * year length, tagged UTC') if good else
         o.fail('the inverse is `%s`, expected datetime(year,1,1) + timedelta(microseconds = year_length_us * fraction) in UTC' % txt[:120]))


def _table_days(P, f, d, e):
    """Accept: TABLE[date.month - 1] (+ leap correction 1 when leap and month > 2), TABLE a literal of cumulative days."""
    tabs = {}
    for name, val in f.module.assigns.items():
        v = const_value(val)
        if isinstance(v, (tuple, list)) and len(v) in (12, 13) and all(isinstance(x, int) for x in v):
            tabs[f.module.name + '.' + name] = list(v)
    for n in all_nodes(f):
        if isinstance(n, ast.Assign) and isinstance(n.targets[0], ast.Name):
            v = const_value(n.value)
            if isinstance(v, (tuple, list)) and len(v) in (12, 13) and all(isinstance(x, int) for x in v):
                tabs[n.targets[0].id] = list(v)
    N = sym.Normalizer()
    found = None
    for x in ast.walk(e):
        if isinstance(x, ast.Subscript):
            v = const_value(x.value)
            if isinstance(v, (tuple, list)) and len(v) in (12, 13) and all(isinstance(y, int) for y in v):
                found = (u(x.value)[:30], list(v), x)
            else:
                for k, tv in tabs.items():
                    if u(x.value) in (k, k.split('.')[-1]):
                        found = (k.split('.')[-1], tv, x)
    if found is None:
        return False, 'the days of the preceding months are `%s`: neither calendar.monthrange over months 1..month-1 nor a cumulative-day table' % u(e)[:100]
    name, tab, sub = found
    if tab[:12] != CUM_DAYS[:12]:
        return False, 'the cumulative-day table %s = %s is wrong (expected %s)' % (name, tab, CUM_DAYS[:len(tab)])
    if N.nf(sub.slice) != N.nf('%s.month - 1' % d):
        return False, 'the table is indexed by `%s`, expected month - 1' % u(sub.slice)
    # leap correction: +1 under isleap and month > 2
    corr = [a for a in find_assignments(f, 'num_days') if isinstance(a, ast.AugAssign) or (isinstance(a, ast.Assign) and 'num_days' in u(a.value))]
    for a in corr:
        g = guards_of(a, f.node)
        leap = any('isleap' in u(t) and pol for t, pol in g)
        month_ok = False
        for t, pol in g:
            for c in ast.walk(t):
                if isinstance(c, ast.Compare) and u(c.left) == '%s.month' % d and len(c.ops) == 1:
                    cv = const_value(c.comparators[0])
                    if pol and ((isinstance(c.ops[0], ast.Gt) and cv == 2) or (isinstance(c.ops[0], ast.GtE) and cv == 3)):
                        month_ok = True
        if not leap or not month_ok:
            return False, 'the leap day is added under `%s`; it belongs to dates after February only (month > 2) of a leap year: a ' \
                          'date in February would be shifted by one day' % ' and '.join(u(t) for t, pol in g)
    if not corr:
        return False, 'a cumulative-day table is used without a leap-day correction'
    return 'verified cumulative-day table with leap day after February', ''


def rule_readers_time(ck):
    """jma_csv converts with the parsed offset (strptime %z + timestamp, rounded), forecasts' epochs use the exact conversion."""
    P = ck.prog
    ck.clause('D1')
    for q in ('csep.core.forecasts.CatalogForecast.start_epoch', 'csep.core.forecasts.CatalogForecast.end_epoch'):
        f = P.func(q)
        r = [x for x in returns(f) if x.value is not None]
        o = ck.ob('C15-D1.forecast', f, r[0].value, r[0])
        fld = 'self.start_time' if q.endswith('start_epoch') else 'self.end_time'
        good = isinstance(r[0].value, ast.Call) and P.canon(f, r[0].value.func) == T + 'datetime_to_utc_epoch' and u(r[0].value.args[0]) == fld
        (o.ok() if good else o.fail('%s is not datetime_to_utc_epoch(%s)' % (f.short, fld)))
        from .common import memoising_decorators
        memo = memoising_decorators(P, f)
        oo = ck.ob('C15-D1.live', f, 'converted from %s at every access' % fld, f.node)
        (oo.fail('%s is decorated with `%s`: the epoch is converted once and kept, so after %s is assigned again the epoch no longer is '
                 'datetime_to_utc_epoch(%s) and epoch_time_to_utc_datetime(%s) no longer returns it' % (f.short, u(memo[0]), fld, fld, f.short.split('.')[-1]))
         if memo or f.kind != 'property' else oo.ok('plain property'))
    f = P.func('csep.core.catalogs.AbstractBaseCatalog.get_datetimes')
    r = [x for x in returns(f) if x.value is not None]
    o = ck.ob('C15-D1.get_datetimes', f, r[0].value, r[0])
    txt = u(Expander(P, f).expand(r[0].value))
    (o.ok() if 'epoch_time_to_utc_datetime' in txt and 'get_epoch_times' in txt else o.fail('get_datetimes does not map epoch_time_to_utc_datetime over the epoch times'))
    from .common import receiver_writes
    w = receiver_writes(f)
    priv = [n for n in all_nodes(f) if isinstance(n, ast.Attribute) and isinstance(n.ctx, ast.Load) and isinstance(n.value, ast.Name) and n.value.id == 'self'
            and n.attr.startswith('_') and n.attr != '_catalog']
    oo = ck.ob('C15-D1.live', f, 'converted from the stored epoch times at every call', f.node)
    (oo.fail('get_datetimes keeps its result (`%s`): after the events change (filter in place, assignment to .catalog) it still returns the datetimes '
             'of the old events, so epoch -> datetime -> epoch no longer returns the epoch times the catalog holds' % u(w[0] if w else priv[0])[:60])
     if (w or priv) else oo.ok('nothing stored, nothing remembered'))


def rule_forecast_rows(ck):
    """the origin times of catalog-forecast rows are decoded through the exact string conversion, whole string and both formats (shared
    C12-D4)"""
    from . import c12
    ck.clause('D2 (shared C12-D4: the rows of a catalog-forecast file are decoded with strptime_to_utc_epoch on the whole time string)')
    c12.rule_columns(ck)


def rule_exact_all(ck):
    rule_exact(ck)


RULES = [rule_exact_all, rule_units, rule_utc, rule_formats, rule_decimal_year, rule_readers_time, rule_forecast_rows]
