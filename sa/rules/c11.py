"""C11 - gridded forecast files load into forecasts whose rate lookup matches the file."""
import ast

from ..core import sym
from ..core.expand import u, call_name, get_arg, bind_args, Expander, is_marker, phi_alternatives
from ..core.loader import Inconclusive, const_value, parents
from .common import (alternatives, accumulation_alternatives, dispatch_targets, returns, all_nodes, callee, strip_shape, calls_in, guards_of, stmt_of, kw, find_assignments, compare_nf,
                     dict_literal_items, in_loop, peval)

EXPLANATION = (
    "Decided: D1 scaling is absolute: _data is written only in __init__ and read only by the `data` property, _scale "
    "is plainly assigned in __init__/scale (never *=, never from its previous value), every return of `data` is the "
    "fresh product _data * _scale (the stored array itself is never handed out), scale_to_test_date only calls scale; "
    "D2 file schema of load_ascii: cells = columns [:4], flag = [-1], Mag_0 = [-4], rate = [-2]; origin vertex "
    "(lon0, lat0) in both swap_latlon variants; cells, flags and magnitudes are all kept in first-appearance (file) "
    "order - decided in an ORDER domain {file, sorted} over unique/sort/argsort/indexing - and the rates are reshaped "
    "(cells, magnitude bins); D3 get_rates = data[idx, idm] with idx from get_index_of(lons, lats) and idm from "
    "get_magnitude_index(mags) (open top, raises on -1); D4 spatial_counts sums axis 1, magnitude_counts axis 0, "
    "sum everything; D5 what a loader hands to magnitudes=/data= is numeric; D6 the 'dat' extension maps to "
    "GriddedForecast.load_ascii; D7 the spacing inferred from the first row is snapped before it scales the edge "
    "grid (shared C01-D6) and the lookup kernel is C01/C02's; D8 arrays read from caller-supplied files and used "
    "Round 5: D1.double the stored rates keep their precision; shared C20-D3.keeporder (region constructors keep the cell order of the file) and C17-D1 (one owning tile per point). "
    "with 2-D subscripts are forced to rank 2 (ndmin) unless row 0 is consumed as a header. NOT decided: corner "
    "lookups as float facts.")
CLAUSES = {'D1': 'absolute scaling', 'D2': 'file schema and parallel order', 'D3': 'rate lookup', 'D4': 'axis roles', 'D5': 'numeric magnitudes',
           'D6': 'loader dispatch', 'D7': 'spacing inference', 'D8': 'array rank of file reads'}
TRUSTED = ['CPython ast', 'CSEP1 forecast row layout Lon_0 Lon_1 Lat_0 Lat_1 z_0 z_1 Mag_0 Mag_1 Rate Flag',
           'numpy.unique returns sorted values and first-occurrence indices in that order', 'numpy.loadtxt collapses one-row files without ndmin']
G = 'csep.core.forecasts.'
ROOTS = ['csep.load_gridded_forecast', G + 'GriddedForecast.from_custom', G + 'GriddedForecast.load_ascii', G + 'GriddedForecast.get_rates',
         G + 'GriddedForecast.target_event_rates', G + 'GriddedDataSet.sum', G + 'MarkedGriddedDataSet.spatial_counts',
         G + 'MarkedGriddedDataSet.magnitude_counts', G + 'GriddedDataSet.scale', G + 'GriddedForecast.scale_to_test_date',
         'csep.utils.readers.quadtree_ascii_loader', 'csep.utils.readers.quadtree_csv_loader']
TECHNIQUE = 'static analysis: who-may-write/read rule, ORDER abstract domain over numpy.unique/sort/index expressions, kind/rank flow of file reads'


def rule_scaling(ck):
    P = ck.prog
    ck.clause('D1')
    mod = 'csep.core.forecasts'
    for f in P.funcs_in(mod):
        for n in all_nodes(f):
            if isinstance(n, ast.Attribute) and n.attr in ('_data', '_scale') and u(n.value) == 'self':
                store = isinstance(n.ctx, (ast.Store, ast.Del))
                par = getattr(n, '_parent', None)
                aug = isinstance(par, ast.AugAssign) and par.target is n
                sub_store = isinstance(par, ast.Subscript) and isinstance(par.ctx, ast.Store)
                o = ck.ob('C11-D1.' + n.attr, f, stmt_of(n), n)
                name = f.node.name
                if n.attr == '_data':
                    if store or aug or sub_store:
                        (o.ok('constructor') if name == '__init__' and not aug and not sub_store else
                         o.fail('the stored rates `_data` are modified in %s: scaling must leave the original rates untouched so that the '
                                'last factor always applies to the original' % f.short))
                    else:
                        (o.ok('scaled view') if f.kind == 'property' and name == 'data' else
                         o.fail('%s reads the unscaled `_data` directly instead of the scaled view `data`' % f.short))
                else:
                    if aug:
                        o.fail('`%s` updates the scale factor cumulatively: scale(a) then scale(b) must give original*b, not original*a*b' % u(par))
                    elif store:
                        val = par.value if isinstance(par, ast.Assign) else None
                        if name not in ('__init__', 'scale'):
                            o.fail('_scale is assigned in %s' % f.short)
                        elif val is not None and any(isinstance(x, ast.Attribute) and x.attr in ('_scale', 'data', '_data') for x in ast.walk(val)):
                            o.fail('the new scale factor `%s` is derived from the previous state: scaling becomes cumulative' % u(val))
                        else:
                            o.ok('plain assignment')
                    else:
                        (o.ok('scaled view') if f.kind == 'property' and name == 'data' else o.fail('%s reads _scale outside the data property' % f.short))
    d = P.func(G + 'GriddedDataSet.data')
    N = sym.Normalizer()
    rets = [r for r in returns(d) if r.value is not None]
    if not rets:
        ck.ob('C11-D1.view', d, 'return', d.node).fail('the data property returns nothing')
    for r in rets:
        o = ck.ob('C11-D1.view', d, r.value, r)
        if N.nf(r.value) == N.nf('self._data * self._scale') and isinstance(r.value, ast.BinOp):
            o.ok('fresh product _data * _scale')
        else:
            o.fail('a path of the `data` property returns `%s`: not the product _data * _scale (handing out the stored array itself lets '
                   'any in-place operation of a caller, e.g. `data /= days`, rewrite the forecast permanently)' % u(r.value))
    s = P.func(G + 'GriddedDataSet.scale')
    o = ck.ob('C11-D1.scale', s, 'scale(val) stores val', s.node)
    a = find_assignments(s, 'self._scale')
    (o.ok() if len(a) == 1 and u(a[0].value) == s.positional_params[1] and not guards_of(a[0], s.node) else o.fail('scale(val) does not simply store val'))
    t = P.func(G + 'GriddedForecast.scale_to_test_date')
    o = ck.ob('C11-D1.testdate', t, 'scale_to_test_date only calls scale', t.node)
    writes = [n for n in all_nodes(t) if isinstance(n, ast.Attribute) and isinstance(n.ctx, ast.Store) and u(n.value) == 'self']
    calls = [n for n in all_nodes(t) if isinstance(n, ast.Call) and u(n.func) == 'self.scale']
    (o.ok() if not writes and len(calls) == 1 else o.fail('scale_to_test_date writes state itself or does not go through scale() exactly once'))
    # in-place operations on a value obtained from self.data in forecasts.py
    for f in P.funcs_in(mod):
        aliases = {n.targets[0].id for n in all_nodes(f) if isinstance(n, ast.Assign) and isinstance(n.targets[0], ast.Name) and u(n.value) in ('self.data', 'self._data')}
        for n in all_nodes(f):
            if isinstance(n, ast.AugAssign) and isinstance(n.target, ast.Name) and n.target.id in aliases:
                later = [a for a in find_assignments(f, n.target.id) if isinstance(a, ast.Assign) and a.lineno < n.lineno and u(a.value) not in ('self.data', 'self._data')]
                o = ck.ob('C11-D1.alias', f, n, n)
                (o.ok('operates on a private copy') if later else
                 o.fail('`%s` modifies in place the array obtained from self.data; it is only safe while the property returns a fresh array - '
                        'take a copy or use a binary operation' % u(n)))


# ------------------------------------------------------------------------------------------------ ORDER domain
def order_of(e, env=None):
    """'file' (first-appearance order), 'sorted' (value-sorted order), ('idx', order) for index arrays, or None."""
    s = strip_shape(e)
    if isinstance(s, ast.Subscript):
        base, sl = s.value, s.slice
        if is_marker(base, '__item__'):
            pass
        c = const_value(sl) if not isinstance(sl, (ast.Slice, ast.Tuple)) else NotImplemented
        # unique(...)[k]
        b = strip_shape(base)
        if isinstance(b, ast.Call) and call_name(b) == 'numpy.unique' and c in (0, 1):
            ri = kw(b, 'return_index', 1)
            if ri is not None and const_value(ri) is True:
                return 'sorted' if c == 0 else ('idx', 'sorted')
        io = order_of(sl)
        if isinstance(io, tuple) and io[0] == 'idx':
            bo = order_of(base)
            if bo in (None, 'file'):
                # raw file array (or file-ordered) indexed by an index array: takes the order of the index array
                return io[1] if bo is None or bo == 'file' else None
            if bo == 'sorted' and io[1] == 'unsort':
                return 'file'
            return None
        if isinstance(sl, ast.Slice) or isinstance(sl, ast.Tuple):
            return order_of(base)
        return None
    if is_marker(s, '__item__') and isinstance(s.args[0], ast.Call) and call_name(s.args[0]) == 'numpy.unique':
        k = const_value(s.args[1])
        ri = kw(s.args[0], 'return_index', 1)
        if ri is not None and const_value(ri) is True:
            return 'sorted' if k == 0 else ('idx', 'sorted')
    if isinstance(s, ast.Call):
        nm = call_name(s)
        if nm in ('numpy.sort', 'builtins.sorted') and s.args:
            inner = order_of(s.args[0])
            if isinstance(inner, tuple) and inner[0] == 'idx':
                return ('idx', 'file')      # ascending first-occurrence indices = file order
            return 'sorted'
        if nm == 'numpy.argsort' and s.args:
            inner = order_of(s.args[0])
            if isinstance(inner, tuple) and inner == ('idx', 'sorted'):
                return ('idx', 'unsort')    # permutation taking sorted values back to file order
            return None
        if nm == 'numpy.unique':
            ri = kw(s, 'return_index', 1)
            if ri is None or const_value(ri) is not True:
                return 'sorted'
            return None
    return None


def rule_schema(ck):
    P = ck.prog
    ck.clause('D2')
    f = P.func(G + 'GriddedForecast.load_ascii')
    ex = Expander(P, f)
    N = sym.Normalizer()
    rets = [r for r in returns(f) if r.value is not None]
    if len(rets) != 1:
        raise Inconclusive('load_ascii returns')
    ctor = ex.expand(rets[0].value)
    if not isinstance(ctor, ast.Call):
        raise Inconclusive('load_ascii does not return a constructor call')
    kws = {k.arg: k.value for k in ctor.keywords}
    region = kws.get('region')
    if not (isinstance(region, ast.Call) and call_name(region) == 'csep.core.regions.CartesianGrid2D'):
        ck.ob('C11-D2.region', f, 'region', rets[0]).fail('the forecast region is not a CartesianGrid2D built from the file cells')
        return
    rm, ok = bind_args(P.func('csep.core.regions.CartesianGrid2D.__init__'), region)
    polys, dh, mask = rm.get('polygons'), rm.get('dh'), rm.get('mask')
    mags, data = kws.get('magnitudes'), kws.get('data')
    raw = 'numpy.loadtxt(ascii_fname, ndmin=2)'
    def col(expr):
        """(column selector text, order) of an array derived from the raw file table"""
        s = strip_shape(expr)
        order = order_of(s)
        base = s
        while isinstance(base, ast.Subscript) and not (isinstance(strip_shape(base.value), ast.Call) and call_name(strip_shape(base.value)) in ('numpy.loadtxt', 'numpy.genfromtxt')):
            base = strip_shape(base.value)
            if isinstance(base, ast.Call) and call_name(base) == 'numpy.unique':
                base = strip_shape(base.args[0])
            if is_marker(base, '__item__'):
                base = strip_shape(base.args[0])
                if isinstance(base, ast.Call) and call_name(base) == 'numpy.unique':
                    base = strip_shape(base.args[0])
        sel = u(base.slice).strip('()') if isinstance(base, ast.Subscript) else None
        return sel, order
    # cells
    o = ck.ob('C11-D2.cells', f, 'cell polygons: columns and order', rets[0])
    ptxt = u(polys) if polys is not None else ''
    # the comprehension iterates over unique_poly
    it = None
    for n in ast.walk(polys) if polys is not None else []:
        if isinstance(n, (ast.ListComp, ast.GeneratorExp)):
            for n2 in ast.walk(n.generators[0].iter):
                pass
            inner = n.generators[0].iter
            while isinstance(inner, (ast.ListComp, ast.GeneratorExp)):
                inner = inner.generators[0].iter
            it = inner
    # `bboxes` may itself be a phi of two comprehensions (swap_latlon)
    cell_iters = [n.generators[0].iter for n in ast.walk(polys) if isinstance(n, (ast.ListComp, ast.GeneratorExp))
                  and not isinstance(n.generators[0].iter, (ast.ListComp, ast.GeneratorExp)) and not is_marker(n.generators[0].iter, '__phi__')] if polys is not None else []
    orders = {}
    if not cell_iters:
        o.unknown('cannot find the iteration over the file cells')
    else:
        sel, order = col(cell_iters[0])
        orders['cells'] = order
        if sel != ':, :4':
            o.fail('cells are read from columns `[%s]`, the CSEP layout puts Lon_0 Lon_1 Lat_0 Lat_1 in `[:, :4]`' % sel)
        elif order != 'file':
            o.fail('the cells are kept in %s order, not in the order of first appearance in the file' % (order or 'an unrecognised'))
        else:
            o.ok('columns [:, :4], first-appearance order')
    # origin vertex in both swap variants
    comps = [(n, n, n.generators[0].target) for n in all_nodes(f) if isinstance(n, ast.ListComp) and isinstance(n.elt, ast.Tuple) and len(n.elt.elts) == 4]
    # the same lists written as append loops
    for nm in sorted(f.locals):
        for comp, lp in (accumulation_alternatives(f, nm) or []):
            if isinstance(comp.elt, ast.Tuple) and len(comp.elt.elts) == 4:
                comps.append((comp, lp, lp.target))
    for c, anchor, tgt in comps:
        oo = ck.ob('C11-D2.vertex', f, c.elt.elts[0], anchor)
        swapped = any(isinstance(t, ast.Name) and t.id == 'swap_latlon' and pol for t, pol in guards_of(anchor, f.node))
        v0 = c.elt.elts[0]
        iv = tgt.id if isinstance(tgt, ast.Name) else 'i'
        want = ('%s[2]' % iv, '%s[0]' % iv) if swapped else ('%s[0]' % iv, '%s[2]' % iv)
        got = tuple(u(x) for x in v0.elts) if isinstance(v0, ast.Tuple) else None
        (oo.ok('origin = (lon0, lat0)') if got == want else oo.fail('the first vertex is %s; the cell origin must be (%s, %s) for swap_latlon=%s' % (got, want[0], want[1], swapped)))
    if not comps and polys is not None:
        # corner construction delegated to helpers selected by swap_latlon: read the expanded polygon expression
        exi = Expander(P, f, inline_depth=2)
        pe = exi.expand(rets[0].value)

        def four_tuples(e, swapped):
            if isinstance(e, ast.IfExp) and u(e.test) == 'swap_latlon':
                four_tuples(e.body, True)
                four_tuples(e.orelse, False)
                return
            if isinstance(e, ast.Tuple) and len(e.elts) == 4 and all(isinstance(x, ast.Tuple) and len(x.elts) == 2 for x in e.elts):
                found.append((e, swapped))
                return
            for c_ in ast.iter_child_nodes(e):
                four_tuples(c_, swapped)
        found = []
        four_tuples(pe, None)
        if not found or any(sw_ is None for _, sw_ in found):
            # corner columns taken from a table keyed by the flag (or any other construction that is decided once swap_latlon is
            # known): evaluate the polygon expression for both values of the flag
            found = []
            for sw_ in (False, True):
                pv = peval(pe, {'swap_latlon': ast.Constant(value=sw_)})
                before = len(found)
                four_tuples(pv, sw_)
                found[before:] = [(e_, sw_) for e_, _ in found[before:]]
        for e, swapped in found:
            oo = ck.ob('C11-D2.vertex', f, e.elts[0], rets[0])
            got = tuple(u(x) for x in e.elts[0].elts)
            base = got[0].rsplit('[', 1)[0]
            want = ('%s[2]' % base, '%s[0]' % base) if swapped else ('%s[0]' % base, '%s[2]' % base)
            if swapped is None:
                oo.unknown('cannot tell which swap_latlon variant `%s` belongs to' % u(e.elts[0]))
            else:
                (oo.ok('origin = (lon0, lat0)') if got == want else oo.fail('the first vertex is %s; the cell origin must be (%s, %s) for swap_latlon=%s' % (got, want[0], want[1], swapped)))
    # flags
    o = ck.ob('C11-D2.flags', f, 'cell flags: column and order', rets[0])
    if mask is None:
        o.fail('the flag column is not handed to the region (mask=)')
    else:
        sel, order = col(mask)
        orders['flags'] = order
        if sel != ':, -1':
            o.fail('flags are read from `[%s]`, the flag is the last column' % sel)
        elif order != 'file':
            o.fail('the flags are in %s order while the cells are in file order: a flag lands on another cell (a flag-0 cell answers with '
                   'its rate, a valid cell is rejected)' % (order or 'an unrecognised'))
        else:
            o.ok('column -1, first-appearance order')
    # magnitudes
    o = ck.ob('C11-D2.mags', f, 'magnitude bins: column and order', rets[0])
    if mags is None:
        o.fail('no magnitudes handed to the forecast')
    else:
        sel, order = col(mags)
        orders['mags'] = order
        if sel != ':, -4':
            o.fail('magnitude bin edges are read from `[%s]`; Mag_0 is column -4' % sel)
        elif order != 'file':
            o.fail('magnitude edges are in %s order, not first-appearance order' % (order or 'an unrecognised'))
        else:
            o.ok('column -4 (Mag_0), first-appearance order')
    # rates
    o = ck.ob('C11-D2.rates', f, 'rates: column and reshape', rets[0])
    d = data
    if not (isinstance(d, ast.Call) and call_name(d) == '.reshape' and len(d.args) == 2):
        o.fail('the rates are not reshaped to (cells, magnitude bins): `%s`' % (u(d)[:80] if d is not None else '?'))
    else:
        src = strip_shape(d.func.value)
        sel = u(src.slice).strip('()') if isinstance(src, ast.Subscript) else None
        a0, a1 = u(d.args[0]), u(d.args[1])
        if sel != ':, -2':
            o.fail('rates are read from `[%s]`; the rate is column -2' % sel)
        elif not ('num_nodes' in a0 or 'polygons' in a0 or 'poly' in a0) or 'len(' not in a1 or 'mws' in a0:
            o.fail('rates are reshaped (%s, %s); the file is magnitude-fastest, so the shape must be (cells, magnitude bins)' % (a0[:40], a1[:40]))
        else:
            o.ok('column -2 reshaped (cells, magnitude bins) in file order')
    # dh from the first unique row
    o = ck.ob('C11-D2.dh', f, dh if dh is not None else 'dh', rets[0])
    dtxt = u(dh) if dh is not None else ''
    e = strip_shape(dh) if dh is not None else None
    good = isinstance(e, ast.BinOp) and isinstance(e.op, ast.Sub) and u(e.left).endswith('[0, 3]') and u(e.right).endswith('[0, 2]') and \
        order_of(strip_shape(e.left).value) == 'file'
    if isinstance(e, ast.Call) and call_name(e) in ('builtins.round', 'numpy.round') and e.args:
        ee = strip_shape(e.args[0])
        good = isinstance(ee, ast.BinOp) and isinstance(ee.op, ast.Sub) and u(ee.left).endswith('[0, 3]') and u(ee.right).endswith('[0, 2]')
    (o.ok('Lat_1 - Lat_0 of the first cell') if good else o.fail('the spacing is `%s`, expected Lat_1 - Lat_0 (columns 3 and 2) of the first cell' % dtxt[:80]))
    ck.extra['orders'] = {k: str(v) for k, v in orders.items()}


def rule_lookup(ck):
    P = ck.prog
    ck.clause('D3')
    f = P.func(G + 'GriddedForecast.get_rates')
    ex = Expander(P, f)
    lons, lats, mags = f.positional_params[1:4]
    subs = [n for n in all_nodes(f) if isinstance(n, ast.Subscript) and isinstance(n.slice, ast.Tuple) and len(n.slice.elts) == 2 and
            isinstance(stmt_of(n), ast.Assign)]
    if not subs:
        ck.ob('C11-D3.lookup', f, 'data[idx, idm]', f.node).fail('get_rates no longer looks the rates up as data[cell, magnitude bin]')
    for s in subs:
        o = ck.ob('C11-D3.lookup', f, s, s)
        i0, i1 = ex.expand(s.slice.elts[0]), ex.expand(s.slice.elts[1])
        base = u(s.value)
        if isinstance(s.value, ast.Name) and s.value.id not in f.params:
            # a temporary selecting the source array: every alternative must be the scaled view or the caller's array
            alts = [u(a_) for a_ in alternatives(ex.expand(s.value))]
            if alts and all(a_ in ('self.data', 'data') for a_ in alts) and 'self.data' in alts:
                base = 'self.data'
        probs = []
        if u(i0) != 'self.get_index_of(%s, %s)' % (lons, lats):
            probs.append('the first index is `%s`, expected self.get_index_of(%s, %s)' % (u(i0)[:60], lons, lats))
        if not u(i1).startswith('self.get_magnitude_index(%s' % mags):
            probs.append('the second index is `%s`, expected self.get_magnitude_index(%s)' % (u(i1)[:60], mags))
        if base not in ('self.data', 'data'):
            probs.append('rates are looked up in `%s`' % base)
        (o.fail('; '.join(probs)) if probs else o.ok('%s[cell index, magnitude index]' % base))
    g = P.func(G + 'MarkedGriddedDataSet.get_magnitude_index')
    calls = calls_in(P, g, 'csep.utils.calc.bin1d_vec')
    o = ck.ob('C11-D3.magidx', g, calls[0] if calls else 'bin1d_vec', calls[0] if calls else g.node)
    ok = len(calls) == 1 and u(kw(calls[0], 'bins', 1)) == 'self.magnitudes' and const_value(kw(calls[0], 'right_continuous', 3) or ast.Constant(False)) is True
    (o.ok('open top bin on the forecast magnitudes') if ok else o.fail('magnitudes are not binned on self.magnitudes with right_continuous=True'))
    from . import sentinel
    sentinel.check_function(ck, g, 'C11-D3.sentinel')
    rs = [n for n in all_nodes(g) if isinstance(n, ast.If) and any(isinstance(s, ast.Raise) for s in n.body)]
    o = ck.ob('C11-D3.raise', g, 'below-range magnitude raises', g.node)
    (o.ok() if any(sentinel.sentinel_test_names(n.test, True)[0] for n in rs) else o.fail('a magnitude below the first edge no longer raises: index -1 would return the rate of the last bin'))
    t = P.func(G + 'GriddedForecast.target_event_rates')
    ext = Expander(P, t)
    calls = [n for n in all_nodes(t) if isinstance(n, ast.Call) and u(n.func) == 'self.get_rates']
    o = ck.ob('C11-D3.target', t, calls[0] if calls else 'get_rates', calls[0] if calls else t.node)
    if len(calls) == 1:
        args = [u(ext.expand(a)) for a in calls[0].args]
        c = t.positional_params[1]
        good = args[:3] == ['%s.get_longitudes()' % c, '%s.get_latitudes()' % c, '%s.get_magnitudes()' % c]
        (o.ok() if good else o.fail('get_rates is called with (%s)' % ', '.join(a[:30] for a in args)))
    else:
        o.fail('target_event_rates does not call get_rates once')
    # the total returned with the rates is the sum of the very array the rates were looked up in (scaled or not - together)
    rets = [r for r in returns(t) if isinstance(r.value, ast.Tuple) and len(r.value.elts) == 2]
    o = ck.ob('C11-D3.total', t, rets[0].value if rets else 'return rates, total', rets[0] if rets else t.node)
    if len(rets) != 1 or len(calls) != 1:
        o.fail('target_event_rates does not return (rates, total) from one lookup')
    else:
        exk = Expander(P, t, keep={'data'})
        r0, r1 = exk.expand(rets[0].value.elts[0]), exk.expand(rets[0].value.elts[1])
        src = kw(calls[0], 'data', 3)
        src_txt = u(exk.expand(src)) if src is not None else 'self.data'
        probs = []
        if not (isinstance(r0, ast.Call) and u(r0.func) == 'self.get_rates'):
            probs.append('the returned rates are `%s`, not the looked-up rates themselves' % u(r0)[:70])
        r1s = strip_shape(r1)
        if not (isinstance(r1s, ast.Call) and call_name(r1s) in ('numpy.sum', '.sum') and
                (u(r1s.args[0]) if r1s.args else u(r1s.func.value)) == src_txt):
            probs.append('the returned total is `%s`, not the sum of the array `%s` the rates were looked up in' % (u(r1)[:60], src_txt[:40]))
        (o.fail('; '.join(probs) + ': per-event rates and forecast total must be scaled together') if probs else o.ok('(get_rates(..., data=D), sum(D))'))


def rule_axes(ck):
    P = ck.prog
    ck.clause('D4')
    for name, axis in (('spatial_counts', 1), ('magnitude_counts', 0)):
        f = P.func(G + 'MarkedGriddedDataSet.' + name)
        exa = Expander(P, f, expand_self=False)
        for r in returns(f):
            if r.value is None:
                continue
            rv = exa.expand(r.value)         # a temporary holding the sum is looked through
            sums = [n for n in ast.walk(rv) if isinstance(n, ast.Call) and (call_name(n) in ('numpy.sum', '.sum'))]
            o = ck.ob('C11-D4.' + name, f, r.value, r)
            if len(sums) != 1:
                o.fail('%s does not sum the rates once' % name)
                continue
            s = sums[0]
            is_fn = call_name(s) == 'numpy.sum'
            ax = kw(s, 'axis', 1 if is_fn else 0)
            av = const_value(ax) if ax is not None else None
            src = u(s.args[0]) if is_fn and s.args else u(s.func.value)
            okax = av == axis or (axis == 1 and av == -1) or (axis == 0 and av == -2)
            if src != 'self.data':
                o.fail('%s sums `%s`, not the scaled view self.data' % (name, src))
            elif not okax:
                o.fail('%s sums over axis %s; the rate array is (cells, magnitude bins), so it must sum over axis %d' % (name, av, axis))
            else:
                o.ok('sum over axis %d of self.data' % axis)
    f = P.func(G + 'GriddedDataSet.sum')
    r = [x for x in returns(f) if x.value is not None]
    o = ck.ob('C11-D4.sum', f, r[0].value, r[0])
    (o.ok() if u(r[0].value) == 'numpy.sum(self.data)' else o.fail('the total is `%s`, not numpy.sum(self.data)' % u(r[0].value)))


def rule_loaders(ck):
    P = ck.prog
    ck.clause('D6')
    f = P.func('csep.load_gridded_forecast')
    tabs = [n for n in all_nodes(f) if isinstance(n, ast.Assign) and isinstance(n.value, ast.Dict)]
    o = ck.ob('C11-D6.dispatch', f, tabs[0].value if tabs else 'loader mapping', tabs[0] if tabs else f.node)
    good = dispatch_targets(P, f, 'dat') == {G + 'GriddedForecast.load_ascii'}
    (o.ok("'dat' -> GriddedForecast.load_ascii") if good else o.fail("the 'dat' extension does not map to GriddedForecast.load_ascii"))
    # the keywords of the caller reach the loader as they are: dropping the ones a signature does not name also drops what a
    # `**kwargs` loader would have forwarded (swap_latlon, the dates, the name)
    o = ck.ob('C11-D6.kwargs', f, 'loader(fname, **kwargs) with the caller\'s keywords', f.node)
    kwp = f.node.args.kwarg.arg if f.node.args.kwarg else None
    lc = [c for c in all_nodes(f) if isinstance(c, ast.Call) and isinstance(c.func, ast.Name) and c.func.id == 'loader']
    ok_kw = bool(lc) and kwp is not None and all(any(k.arg is None and isinstance(k.value, ast.Name) and k.value.id == kwp for k in c.keywords) for c in lc) \
        and not [a_ for a_ in find_assignments(f, kwp)]
    (o.ok() if ok_kw else o.fail('the loader is not called with the caller\'s **%s unchanged: keywords are filtered or rebuilt on the way' % (kwp or 'kwargs')))
    ck.clause('D5')
    for q in ('csep.utils.readers.quadtree_ascii_loader', 'csep.utils.readers.quadtree_csv_loader'):
        g = P.func(q)
        ex = Expander(P, g)
        r = [x for x in returns(g) if x.value is not None]
        if len(r) != 1 or not isinstance(r[0].value, ast.Tuple) or len(r[0].value.elts) != 3:
            ck.ob('C11-D5.numeric', g, 'return', g.node).unknown('loader does not return (rates, region, magnitudes)')
            continue
        rates, region, mws = [ex.expand(x) for x in r[0].value.elts]
        for nm, e in (('rates', rates), ('magnitudes', mws)):
            o = ck.ob('C11-D5.numeric', g, '%s of %s' % (nm, g.short), r[0])
            txt = u(e)
            # the dtype of the read the value itself comes from (a text read consulted only for the number of columns does not count)
            def outer_reads(x):
                if isinstance(x, ast.Call) and call_name(x) in ('numpy.genfromtxt', 'numpy.loadtxt'):
                    return [x]
                out_ = []
                for ch in ast.iter_child_nodes(x):
                    out_.extend(outer_reads(ch))
                return out_
            rd = outer_reads(e)
            is_str_read = any(kw(c_, 'dtype') is not None and u(kw(c_, 'dtype')) in ("'str'", 'builtins.str', 'str', "'U'", "'<U'") for c_ in rd) if rd else \
                ("dtype='str'" in txt or 'dtype=str' in txt)
            numeric = ('.astype(numpy.float64)' in txt or '.astype(float)' in txt or '.astype(builtins.float)' in txt)
            (o.ok('numeric') if (not is_str_read or numeric) else
             o.fail('the %s come from a file read as strings and are never converted to float: every magnitude lookup / sum then fails or compares text' % nm))
        # quadkeys are digit strings in which leading zeros matter ('0231' is a tile, 231 is not): the column must be read as text
        o = ck.ob('C11-D5.qtext', g, 'quadkeys read as text', r[0])
        qk_src = region.args[0] if isinstance(region, ast.Call) and region.args else None
        reads = [c_ for c_ in ast.walk(qk_src) if isinstance(c_, ast.Call) and call_name(c_) in ('numpy.genfromtxt', 'numpy.loadtxt', 'pandas.read_csv', 'pandas.read_table')] \
            if qk_src is not None else []
        if not reads:
            o.unknown('cannot find the file read the quadkeys come from')
        else:
            bad = []
            for c_ in reads:
                dt = kw(c_, 'dtype')
                if dt is None or u(dt) not in ("'str'", 'builtins.str', "'U'", "'<U'", 'str', "'object'", 'builtins.object'):
                    bad.append(c_)
            (o.fail('the quadkeys come from `%s`, which parses the column as numbers (dtype is not str): leading zeros are lost and the '
                    'cells of the north-western quadrant change identity' % u(bad[0])[:80]) if bad else o.ok("dtype='str'"))
        # region magnitudes are the same object
        o = ck.ob('C11-D5.regionmags', g, 'region magnitudes', r[0])
        rk = kw(region, 'magnitudes', 1) if isinstance(region, ast.Call) else None
        (o.ok() if rk is not None and u(rk) == u(mws) else o.fail('the region is built with other magnitudes than those returned'))


def rule_quadtree_schema(ck):
    """quadtree ascii layout: one row per (cell, magnitude); region cell k <-> rate row k needs the quadkeys in the order of
    first appearance in the file, the region to keep the order it is given, and the rate column reshaped (cells, magnitudes)"""
    P = ck.prog
    ck.clause('D5')
    g = P.func('csep.utils.readers.quadtree_ascii_loader')
    ex = Expander(P, g)
    r = [x for x in returns(g) if x.value is not None]
    if len(r) != 1 or not isinstance(r[0].value, ast.Tuple) or len(r[0].value.elts) != 3:
        ck.ob('C11-D5.qorder', g, 'return', g.node).unknown('loader does not return (rates, region, magnitudes)')
        return
    rates, region, mws = [ex.expand(x) for x in r[0].value.elts]
    o = ck.ob('C11-D5.qorder', g, 'quadkeys handed to the region: order', r[0])
    qk = region.args[0] if isinstance(region, ast.Call) and call_name(region) == 'csep.core.regions.QuadtreeGrid2D.from_quadkeys' and region.args else None
    if qk is None:
        o.fail('the region is not QuadtreeGrid2D.from_quadkeys(<file quadkeys>, ...)')
    else:
        order = order_of(qk)
        (o.ok('first-appearance order') if order == 'file' else
         o.fail('the cells of the region are in %s order while the rate rows stay in file order: for a file whose cells are not listed '
                'in lexicographic quadkey order, cell k and rate row k differ' % (order or 'an unrecognised')))
    o = ck.ob('C11-D5.qmags', g, 'magnitude edges: order', r[0])
    mo = order_of(mws)
    (o.ok('%s order (ascending lower edges of the first cell)' % mo) if mo in ('file', 'sorted') else o.fail('magnitude edges are in an unrecognised order: `%s`' % u(mws)[:80]))
    o = ck.ob('C11-D5.qreshape', g, 'rates: column and shape', r[0])
    s_ = rates
    good = isinstance(s_, ast.Call) and isinstance(s_.func, ast.Attribute) and s_.func.attr == 'reshape'
    if good:
        shp = s_.args[0].elts if len(s_.args) == 1 and isinstance(s_.args[0], ast.Tuple) else s_.args
        src = strip_shape(s_.func.value)
        kord = kw(s_, 'order')
        good = len(shp) == 2 and (u(shp[0]).startswith('builtins.len(') and 'quadkeys' in u(shp[0]) or (qk is not None and u(shp[0]) == 'builtins.len(%s)' % u(qk))) \
            and u(shp[1]) == 'builtins.len(%s)' % u(mws) \
            and (kord is None or const_value(kord) == 'C') and isinstance(src, ast.Subscript) and u(src.slice).replace(' ', '').strip('()') == ':,-1'
    (o.ok('data[:, -1].reshape(cells, magnitudes)') if good else
     o.fail('the rates are `%s`: the rate column must be reshaped row-major into (number of cells, number of magnitude bins)' % u(rates)[:110]))
    # the region keeps the order of the quadkeys it is given
    fq = P.func('csep.core.regions.QuadtreeGrid2D.from_quadkeys')
    o = ck.ob('C11-D5.qkeep', fq, 'from_quadkeys keeps the given cell order', fq.node)
    qp = fq.positional_params[1] if fq.positional_params and fq.positional_params[0] in ('cls', 'self') else fq.positional_params[0]
    bad = [c for c in all_nodes(fq) if isinstance(c, ast.Call) and (callee(P, fq, c) in ('numpy.unique', 'numpy.sort', 'builtins.sorted', 'builtins.set', 'numpy.argsort')
                                                                    or (isinstance(c.func, ast.Attribute) and c.func.attr == 'sort'))]
    rebind = [a for a in find_assignments(fq, qp)]
    (o.fail('from_quadkeys reorders its cells (`%s`): a loader that keeps the rates in file order no longer matches' % u(bad[0] if bad else rebind[0])[:80])
     if bad or rebind else o.ok('no sort/unique of the quadkeys'))


def rule_spacing(ck):
    from . import c01, c02
    ck.clause('D7 (shared C01-D6, C02 kernel)')
    c01.rule_lattice_step(ck)
    c02.rule_kernel(ck)
    c02.rule_tolerance(ck)
    c02.rule_range(ck)
    c02.rule_generators(ck)
    c01.rule_sentinel(ck)
    c01.rule_mask_polarity(ck)


def rule_rank(ck, funcs=None, rule='C11-D8.rank'):
    """A11: loadtxt/genfromtxt of a caller-supplied path used with 2-D subscripts / row iteration needs ndmin."""
    P = ck.prog
    ck.clause('D8')
    funcs = funcs or [G + 'GriddedForecast.load_ascii', 'csep.utils.readers.quadtree_ascii_loader', 'csep.utils.readers.quadtree_csv_loader']
    for q in funcs:
        f = P.func(q)
        for c in calls_in(P, f, {'numpy.loadtxt', 'numpy.genfromtxt'}):
            fn = c.args[0] if c.args else kw(c, 'fname')
            if not (isinstance(fn, ast.Name) and fn.id in f.params):
                continue
            st = stmt_of(c)
            var = st.targets[0].id if isinstance(st, ast.Assign) and isinstance(st.targets[0], ast.Name) else None
            o = ck.ob(rule, f, c, c)
            nd = kw(c, 'ndmin')
            names = kw(c, 'names')
            uses2d = rowiter = header = False
            atleast = False
            if var:
                for n in all_nodes(f):
                    if isinstance(n, ast.Subscript) and isinstance(n.value, ast.Name) and n.value.id == var and isinstance(n.slice, ast.Tuple):
                        uses2d = True
                        if const_value(n.slice.elts[0]) == 0:
                            header = True
                    if isinstance(n, ast.For) and var in {x.id for x in ast.walk(n.iter) if isinstance(x, ast.Name)}:
                        rowiter = True
                    if isinstance(n, ast.Assign) and isinstance(n.value, ast.Call) and callee(P, f, n.value) in ('numpy.atleast_1d', 'numpy.atleast_2d') \
                            and n.value.args and u(n.value.args[0]) == var and isinstance(n.targets[0], ast.Name) and n.targets[0].id == var:
                        atleast = True
            # the table a loader hands back as the rates is indexed [cell, magnitude bin] by the forecast: rank 2 whatever the number of
            # cells and bins the file holds (numpy squeezes a single row *and* a single column)
            as_rates = False
            if var:
                for r_ in returns(f):
                    first = r_.value.elts[0] if isinstance(r_.value, ast.Tuple) and r_.value.elts else r_.value
                    if first is not None and isinstance(strip_shape(first), ast.Name) and strip_shape(first).id == var and \
                            not any(isinstance(a_, ast.Assign) and 'reshape' in u(a_.value) for a_ in find_assignments(f, var)):
                        as_rates = True
            if nd is not None and const_value(nd) == 2:
                o.ok('ndmin=2')
            elif as_rates and not atleast and isinstance(kw(c, 'usecols'), ast.AST) and not isinstance(const_value(kw(c, 'usecols')), int):
                o.fail('the columns read by `%s` are returned as the table of rates without ndmin=2: numpy squeezes a file with a single '
                       'magnitude column (or a single cell) to rank 1, and the forecast indexes its data as [cell, bin]' % u(c)[:70])
            elif atleast:
                o.ok('numpy.atleast_*d applied')
            elif header and uses2d:
                o.ok('row 0 is consumed as a header: at least two rows')
            elif uses2d or rowiter:
                o.fail('the array read from the caller\'s file is used %s but numpy collapses a file holding a single row/record to a lower '
                       'rank: a one-record file fails (IndexError / iteration over a 0-d array); pass ndmin=2 or use numpy.atleast_1d' % (
                           'with 2-D subscripts' if uses2d else 'by row iteration'))
            else:
                o.ok('no rank-sensitive use')


def rule_tolerance_shared(ck):
    from . import c02
    ck.clause('shared C02-D2: no fixed binning tolerance inside the package')
    c02.rule_tolerance_flow(ck)


def rule_own_magnitudes(ck):
    """a forecast's magnitude bins live on its region object (`magnitudes` returns `self.region.magnitudes`), so that object must
    belong to the forecast: the binding helper writes the bins onto a fresh copy, never onto the region it was handed - that one
    may be shared with another forecast or a catalog, whose bins would silently change"""
    P = ck.prog
    ck.clause('D5')
    f = P.func('csep.core.regions.create_space_magnitude_region')
    stores = [n for n in all_nodes(f) if isinstance(n, ast.Attribute) and isinstance(n.ctx, ast.Store) and isinstance(n.value, ast.Name)]
    if not stores:
        ck.ob('C11-D5.ownmags', f, 'binds the magnitudes to the region', f.node).unknown('no attribute is written')
    for st in stores:
        o = ck.ob('C11-D5.ownmags', f, stmt_of(st), st)
        # is the name rebound to a fresh object (a call) on every path before this store?
        asg = [a for a in find_assignments(f, st.value.id) if isinstance(a, ast.Assign)]
        cfg = f.cfg
        sn = cfg.stmt_node_containing(st)
        fresh = [a for a in asg if isinstance(a.value, ast.Call) and cfg.node_of(a) is not None and cfg.dominates(cfg.node_of(a), sn)]
        is_param = st.value.id in f.params and not fresh
        how = u(fresh[-1].value) if fresh else None
        if is_param:
            o.fail('`%s` writes onto the region object the caller passed in: two forecasts (or a forecast and a catalog) built on the same '
                   'region object then share one set of magnitude bins - after `B = GriddedForecast(region=R, magnitudes=m2)` the earlier '
                   '`A = GriddedForecast(region=R, magnitudes=m1)` reports and bins with m2' % u(stmt_of(st))[:60])
        else:
            cal = (how or '')
            ok = any(k in cal for k in ('copy.copy(', 'copy.deepcopy(', 'deepcopy(', '.copy(')) or (how is not None and st.value.id not in f.params)
            (o.ok('written onto `%s`' % cal[:40]) if ok else o.unknown('cannot tell whether `%s` is a fresh object' % cal[:40]))
    m = P.func('csep.core.forecasts.MarkedGriddedDataSet.__init__')
    calls = calls_in(P, m, 'csep.core.regions.create_space_magnitude_region')
    o = ck.ob('C11-D5.ownregion', m, calls[0] if calls else 'create_space_magnitude_region', calls[0] if calls else m.node)
    st = stmt_of(calls[0]) if calls else None
    (o.ok() if st is not None and isinstance(st, ast.Assign) and u(st.targets[0]) == 'self.region' else
     o.fail('the forecast does not keep the region returned by create_space_magnitude_region'))


def rule_precision(ck):
    """C11-D1.double: numbers stay in the precision they were supplied in - no conversion of rates / counts / statistics to a narrower type
    (shared reading with C05-D5.double)"""
    from .common import rule_double_precision
    ck.clause('D1')
    rule_double_precision(ck, 'C11-D1.double', modules=('csep.core.forecasts',), what='the rates read from the file')


def rule_cell_identity(ck):
    """row k of the rate array belongs to cell k of the region: the region constructors keep the cells in the order the loader hands
    them over (shared C20-D3.keeporder) and a point has one owner among the quadtree tiles whatever their order (shared C17-D1)"""
    from . import c20, c17
    ck.clause('D2 (shared C20-D3: regions keep the cell order of the file)')
    c20.rule_keeporder(ck)
    ck.clause('D3 (shared C17-D1: one owning tile per point)')
    c17.rule_ownership(ck)


RULES = [rule_scaling, rule_schema, rule_lookup, rule_axes, rule_loaders, rule_quadtree_schema, rule_spacing, rule_rank, rule_tolerance_shared, rule_own_magnitudes, rule_precision, rule_cell_identity]
