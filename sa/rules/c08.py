"""C08 - paired T/W tests: Rhoades et al. (2011), antisymmetric, always defined."""
import ast
import copy

from ..core import sym
from ..core.expand import u, call_name, get_arg, bind_args, Expander, is_marker, mk
from ..core.loader import Inconclusive, const_value
from .common import returns, all_nodes, callee, strip_shape, result_fields, calls_in, compare_nf, opaque_in, kw, guards_of

EXPLANATION = (
    "Decided: D1 definedness - every name and every numpy/scipy attribute used on the paths of paired_t_test, w_test "
    "and binary_paired_t_test resolves (generic G-UNDEF / G-API / G-UNBOUND / G-RETURN on the closure); D2 "
    "antisymmetry proved on normal forms: exchanging the two forecasts (rates1<->rates2, N1<->N2) negates "
    "information_gain and t_statistic, leaves t_critical unchanged and maps (ig_lower, ig_upper) to (-ig_upper, "
    "-ig_lower); for the W-test, negating the differences and the null median leaves z and p unchanged; an odd "
    "quantity vanishes when a forecast is compared with itself; D3 the kernels equal Eq. 17/18 of the paper as "
    "polynomial identities over their atoms (gain, variance with N-1 and N^2-N, t = gain/(s/sqrt N), critical value "
    "t.ppf(1-alpha/2, N-1), interval gain -/+ t_crit*s/sqrt N; W: signed ranks of |d|, T=min(R+,R-), mean n(n+1)/4, "
    "variance [n(n+1)(2n+1) - sum t(t^2-1)/2]/24, p = 2*sf(|z|)); D4 roles at the public functions (per-event rates "
    "and totals of forecast 1 and 2 from target_event_rates on the same catalog, N from the catalog / active bins, "
    "D4.double no narrowing of per-event rates and totals. "
    "result fields in the documented slots). NOT decided: numerical agreement with the paper's tables, scipy's "
    "t.ppf / rankdata / norm.sf.")
CLAUSES = {'D1': 'definedness', 'D2': 'swap (anti)symmetry on normal forms', 'D3': 'Eq. 17/18 and signed-rank identities',
           'D4': 'roles at the public functions'}
TRUSTED = ['CPython ast', 'installed numpy/scipy for attribute resolution', 'scipy.stats.t.ppf, rankdata, norm.sf contracts',
           'sum is linear over same-shape per-event vectors']
ROOTS = ['csep.core.poisson_evaluations.paired_t_test', 'csep.core.poisson_evaluations.w_test',
         'csep.core.binomial_evaluations.binary_paired_t_test']
TECHNIQUE = 'static analysis: def-use expansion + polynomial normal forms; swap symmetry by substitution on normal forms'

TK = 'csep.core.poisson_evaluations._t_test_ndarray'
BK = 'csep.core.binomial_evaluations.matrix_binary_t_test'
WK = 'csep.core.poisson_evaluations._w_test_ndarray'


def dict_return(P, f):
    ex = Expander(P, f)
    rets = [r for r in returns(f) if r.value is not None]
    if len(rets) > 1:
        # early exits that hand back a dictionary of constants (nan / None / 0) are not results: they are reported by rule_defined;
        # the formulas are read from the one return that computes
        const_rets = [r for r in rets if isinstance(r.value, ast.Dict) and all(
            not any(isinstance(x, ast.Name) and x.id not in ('numpy', 'np', 'math', 'float') for x in ast.walk(v_)) for v_ in r.value.values)]
        if len(rets) - len(const_rets) == 1:
            rets = [r for r in rets if r not in const_rets]
    if len(rets) != 1:
        raise Inconclusive('%s has %d returns' % (f.short, len(rets)))
    e = ex.expand(rets[0].value)
    if not isinstance(e, ast.Dict):
        raise Inconclusive('%s does not return a dict literal' % f.short)
    out = {}
    for k, v in zip(e.keys, e.values):
        out[const_value(k)] = v
    return out, rets[0]


def swap_names(e, pairs):
    m = {}
    for a, b in pairs:
        m[a], m[b] = b, a
    return sym.rename(e, m)


def NZ():
    return sym.Normalizer(distribute_sum=True)


def t_kernel(ck, qual, nexpr):
    P = ck.prog
    f = P.func(qual)
    d, ret = dict_return(P, f)
    ps = f.positional_params
    r1, r2 = ps[0], ps[1]
    nf1 = [p for p in ps if p in ('n_f1', 'N1')] or [ps[3]]
    nf2 = [p for p in ps if p in ('n_f2', 'N2')] or [ps[4]]
    nf1, nf2 = nf1[0], nf2[0]
    N = NZ()
    need = ['t_statistic', 't_critical', 'information_gain', 'ig_lower', 'ig_upper']
    o = ck.ob('C08-D3.keys', f, sorted(k for k in d), ret)
    missing = [k for k in need if k not in d]
    if missing:
        o.fail('kernel result lacks %s' % missing)
        return
    o.ok()
    # ---- D2 swap symmetry
    ck.clause('D2')
    pairs = [(r1, r2), (nf1, nf2)]
    nf = {k: N.nf(v) for k, v in d.items()}
    sw = {k: N.nf(swap_names(v, pairs)) for k, v in d.items()}
    def sym_ob(key, want, desc):
        o = ck.ob('C08-D2.' + key, f, '%s under exchange of the forecasts' % key, ret)
        if sw[key] == want:
            o.ok(desc)
        else:
            op = opaque_in(nf[key])
            msg = 'exchanging (%s,%s) and (%s,%s) turns %s into `%s`, expected `%s` (%s)' % (
                r1, r2, nf1, nf2, key, sym.show(sw[key])[:160], sym.show(want)[:160], desc)
            (o.unknown(msg) if op else o.fail(msg))
    sym_ob('information_gain', -nf['information_gain'], 'gain is odd: swapping forecasts negates it; self-comparison gives 0')
    sym_ob('t_statistic', -nf['t_statistic'], 't statistic is odd')
    sym_ob('t_critical', nf['t_critical'], 'critical value is even')
    sym_ob('ig_lower', -nf['ig_upper'], 'interval is mirrored')
    sym_ob('ig_upper', -nf['ig_lower'], 'interval is mirrored')
    # ---- D3 spec
    ck.clause('D3')
    X = 'numpy.log(%s) - numpy.log(%s)' % (r1, r2)
    n = nexpr
    gain = '(numpy.sum(%s) - (%s - %s)) / (%s)' % (X, nf1, nf2, n)
    var = 'numpy.sum((%s)**2) / ((%s) - 1) - numpy.sum(%s)**2 / ((%s)**2 - (%s))' % (X, n, X, n, n)
    tcrit = 'scipy.stats.t.ppf(1 - alpha / 2, (%s) - 1)' % n
    half = '(%s) * numpy.sqrt(%s) / numpy.sqrt(%s)' % (tcrit, var, n)
    spec = {
        'information_gain': gain,
        't_statistic': '(%s) / (numpy.sqrt(%s) / numpy.sqrt(%s))' % (gain, var, n),
        't_critical': tcrit,
        'ig_lower': '(%s) - %s' % (gain, half),
        'ig_upper': '(%s) + %s' % (gain, half),
    }
    for k in need:
        o = ck.ob('C08-D3.' + k, f, k, ret)
        compare_nf(o, d[k], spec[k], N, what=k)


def rule_t(ck):
    P = ck.prog
    f = P.func(TK)
    t_kernel(ck, TK, f.positional_params[2])


def rule_binary_t(ck):
    P = ck.prog
    f = P.func(BK)
    ex = Expander(P, f)
    # N = number of active bins of the catalog
    d, ret = dict_return(P, f)
    ck.clause('D3')
    ig = d.get('information_gain')
    o = ck.ob('C08-D3.activeN', f, 'divisor N = number of active space-magnitude bins', ret)
    # find the divisor atoms: a len(unique(nonzero(<catalog>.spatial_magnitude_counts())))
    N = NZ()
    cat = 'catalog' if 'catalog' in f.params else f.positional_params[-2]
    nexpr = 'builtins.len(numpy.unique(numpy.nonzero(%s.spatial_magnitude_counts())))' % cat
    want = N.nf(nexpr)
    atoms = N.nf(ig).all_atoms() if ig is not None else set()
    found = any(sym.Poly.atom(a) == want for a in atoms)
    if found:
        o.ok(nexpr)
    else:
        alts = [sym.show_atom(a) for a in atoms if 'len' in sym.show_atom(a)[:4]]
        o.fail('the information gain is not divided by the number of active bins len(unique(nonzero(counts))); '
               'length-like atoms found: %s' % (alts[:2] or 'none'))
        return
    t_kernel(ck, BK, nexpr)


def rule_w(ck):
    P = ck.prog
    f = P.func(WK)
    d, ret = dict_return(P, f)
    x, m = f.positional_params[0], f.positional_params[1]
    N = NZ()
    ck.clause('D2')
    need = ['z_statistic', 'probability']
    for k in need:
        if k not in d:
            ck.ob('C08-D3.wkeys', f, k, ret).fail('W kernel result lacks %s' % k)
            return
    neg = {x: ast.UnaryOp(op=ast.USub(), operand=ast.Name(id=x, ctx=ast.Load())),
           m: ast.UnaryOp(op=ast.USub(), operand=ast.Name(id=m, ctx=ast.Load()))}

    def negleaf(n):
        if isinstance(n, ast.Name) and n.id in neg and getattr(n, '_param', False):
            return sym.clone(neg[n.id])
        return None
    for k in need:
        o = ck.ob('C08-D2.w.' + k, f, '%s under exchange of the forecasts (d -> -d)' % k, ret)
        a = N.nf(d[k])
        b = N.nf(sym.clone(d[k], negleaf))
        if a == b:
            o.ok('even: unchanged when the forecasts are swapped')
        else:
            msg = 'negating the differences and the median changes %s from `%s` to `%s`: the W-test would depend on the ' \
                  'order of the two forecasts' % (k, sym.show(a)[:150], sym.show(b)[:150])
            (o.unknown(msg) if opaque_in(a) else o.fail(msg))
    # ---- D3 spec of the signed-rank statistic
    ck.clause('D3')
    dd = 'numpy.compress(numpy.not_equal(%s - %s, 0), %s - %s, axis=-1)' % (x, m, x, m)
    cnt = 'builtins.len(%s)' % dd
    r = 'scipy.stats.rankdata(builtins.abs(%s))' % dd
    rp = 'numpy.sum((%s > 0) * %s, axis=0)' % (dd, r)
    rm = 'numpy.sum((%s < 0) * %s, axis=0)' % (dd, r)
    t = 'builtins.min(%s, %s)' % (rp, rm)
    mn = '%s * (%s + 1.0) * 0.25' % (cnt, cnt)
    se0 = '%s * (%s + 1.0) * (2.0 * %s + 1.0)' % (cnt, cnt, cnt)
    # tie correction: repnum = counts of repeated ranks (> 1)
    zexpr = d['z_statistic']
    o = ck.ob('C08-D3.w.form', f, 'z = (T - n(n+1)/4) / sqrt(V/24)', ret)
    z = strip_shape(zexpr)
    if not (isinstance(z, ast.BinOp) and isinstance(z.op, ast.Div)):
        o.fail('z statistic is `%s`, not a quotient (T - mean)/se' % u(z)[:100])
        return
    o.ok('quotient')
    num, den = z.left, z.right
    okn = compare_nf(ck.ob('C08-D3.w.num', f, 'T - mean', ret), num, '%s - %s' % (t, mn), N, what='numerator of z')
    # denominator sqrt(se/24) with se = se0 or se0 - 0.5*sum(rep*(rep*rep-1))
    od = ck.ob('C08-D3.w.den', f, 'sqrt(V/24) with tie correction', ret)
    dn = N.nf(den)
    good = False
    detail = ''
    inner = sym.power(dn, 2)
    if True:
        if True:
            # inner should be phi(se0, se0 - corr)/24 or a polynomial containing a phi
            want0 = N.nf(se0)
            phis = [a for a in inner.atoms() if a[0] == 'phi']
            if len(phis) == 1 and inner == sym.Poly.atom(phis[0]).scale(sym.Fraction(1, 24)):
                alts = list(phis[0][1:])
                plain = [a for a in alts if a == want0]
                corr = [a for a in alts if a != want0]
                if plain and len(corr) == 1:
                    c = want0 - corr[0]
                    cs = sym.show(c)
                    # c must be 1/2*(sum(T^3) - sum(T)) for the vector T of tie sizes among the ranks
                    sums = {}
                    okc = True
                    for mm, cc in c.t.items():
                        if len(mm) == 1 and mm[0][1] == 1 and mm[0][0][0] == 'call' and mm[0][0][1] == 'sum' \
                                and len(mm[0][0][2]) == 1:
                            sums[mm[0][0][2][0]] = cc
                        else:
                            okc = False
                    good = False
                    if okc and len(sums) == 2:
                        (a1, c1), (a2, c2) = sorted(sums.items(), key=lambda kv: kv[1])
                        # c1 = -1/2 on sum(T), c2 = +1/2 on sum(T^3)
                        if c1 == sym.Fraction(-1, 2) and c2 == sym.Fraction(1, 2) and sym.power(a1, 3) == a2 \
                                and 'rankdata' in sym.show(a1) and ('return_counts' in sym.show(a1) or 'find_repeats' in sym.show(a1)):
                            good = True
                            detail = 'V = n(n+1)(2n+1) [- 1/2 sum t(t^2-1) over tie sizes of the ranks]'
                    if not good:
                        detail = 'tie correction is `%s`, expected 1/2*sum(t^3 - t) over the tie sizes of the ranks' % cs[:160]
                else:
                    detail = 'variance alternatives %s do not include n(n+1)(2n+1)' % [sym.show(a)[:60] for a in alts]
            elif inner == want0.scale(sym.Fraction(1, 24)):
                detail = 'no tie correction'
            else:
                detail = 'variance term `%s`' % sym.show(inner)[:150]
    if good:
        od.ok(detail)
    else:
        od.fail('standard error of the signed-rank statistic: %s' % (detail or 'is `%s`' % sym.show(dn)[:150]))
    compare_nf(ck.ob('C08-D3.w.p', f, 'p = 2*sf(|z|)', ret), d['probability'],
               '2.0 * scipy.stats.distributions.norm.sf(builtins.abs(__Z__))', sym.Normalizer(distribute_sum=True, env={'__Z__': zexpr}),
               what='probability')


def _target_rates(e, owner, cat):
    """is e = __item__(owner.target_event_rates(cat, scale=scale), k)? returns k or None"""
    if is_marker(e, '__item__') and isinstance(e.args[0], ast.Call) and call_name(e.args[0]) == '.target_event_rates':
        c = e.args[0]
        if isinstance(c.func.value, ast.Name) and c.func.value.id == owner and c.args and isinstance(c.args[0], ast.Name) \
                and c.args[0].id == cat:
            sc = get_arg(c, 1, 'scale')
            if not (isinstance(sc, ast.Name) and sc.id == 'scale' and getattr(sc, '_param', False)):
                return 'scale-not-forwarded'
            return const_value(e.args[1])
    return None


def rule_public_t(ck):
    P = ck.prog
    ck.clause('D4')
    for qual, kernel in (('csep.core.poisson_evaluations.paired_t_test', TK),):
        g = P.func(qual)
        k = P.func(kernel)
        ex = Expander(P, g)
        ps = g.positional_params
        f1, f2, cat = ps[0], ps[1], ps[2]
        calls = calls_in(P, g, kernel)
        o = ck.ob('C08-D4.call', g, calls[0] if calls else kernel, calls[0] if calls else g.node)
        if len(calls) != 1:
            o.fail('%s does not call %s exactly once' % (g.short, k.short))
            continue
        m, ok = bind_args(k, calls[0])
        kp = k.positional_params
        probs = []
        want = [(kp[0], f1, 0), (kp[1], f2, 0), (kp[3], f1, 1), (kp[4], f2, 1)]
        for par, owner, idx in want:
            e = ex.expand(m[par]) if par in m else None
            if e is None or _target_rates(e, owner, cat) != idx:
                probs.append('%s receives `%s`, expected component %d of %s.target_event_rates(%s, scale=scale)%s' % (
                    par, u(m.get(par)) if par in m else '?', idx, owner, cat,
                    ' - the caller\'s scale flag is not forwarded, so the two forecasts are scaled differently'
                    if e is not None and _target_rates(e, owner, cat) == 'scale-not-forwarded' else ''))
        ne = ex.expand(m[kp[2]]) if kp[2] in m else None
        if not (isinstance(ne, ast.Attribute) and ne.attr == 'event_count' and isinstance(ne.value, ast.Name) and ne.value.id == cat):
            probs.append('N receives `%s`, expected %s.event_count' % (u(ne) if ne is not None else '?', cat))
        if 'alpha' in m and not (isinstance(m['alpha'], ast.Name) and m['alpha'].id == 'alpha'):
            probs.append('alpha is not forwarded')
        (o.fail('; '.join(probs)) if probs else o.ok('rates/totals of forecast 1 and 2 on the same catalog, N = observed count'))
        _result_slots(ck, P, g, ex, kernel)


def _result_slots(ck, P, g, ex, kernel):
    for flds in result_fields(P, g, ex):
        def key_of(e):
            # out['key'] where out is the kernel call
            if isinstance(e, ast.Subscript) and isinstance(e.value, ast.Call) and call_name(e.value) == kernel:
                return const_value(e.slice)
            return None
        slots = {'observed_statistic': 'information_gain', 'test_distribution': ('ig_lower', 'ig_upper'),
                 'quantile': ('t_statistic', 't_critical')}
        for fld, want in slots.items():
            v = flds.get(fld)
            o = ck.ob('C08-D4.slot.' + fld, g, v[1] if v else fld, v[1] if v else g.node)
            if v is None:
                o.fail('result field %s is not set' % fld)
                continue
            e = v[0]
            got = tuple(key_of(x) for x in e.elts) if isinstance(e, ast.Tuple) else key_of(e)
            (o.ok(str(want)) if got == want else o.fail('%s holds %s of the kernel result, expected %s' % (fld, got, want)))


def rule_public_binary(ck):
    P = ck.prog
    ck.clause('D4')
    g = P.func('csep.core.binomial_evaluations.binary_paired_t_test')
    k = P.func(BK)
    ex = Expander(P, g)
    ps = g.positional_params
    f1, f2, cat = ps[0], ps[1], ps[2]
    calls = calls_in(P, g, BK)
    o = ck.ob('C08-D4.bcall', g, calls[0] if calls else BK, calls[0] if calls else g.node)
    if len(calls) != 1:
        o.fail('binary_paired_t_test does not call matrix_binary_t_test exactly once')
        return
    m, ok = bind_args(k, calls[0])
    kp = k.positional_params
    N = sym.Normalizer()
    probs = []
    for par, owner in ((kp[0], f1), (kp[1], f2)):
        e = ex.expand(m[par]) if par in m else None
        want = N.nf('%s.data[numpy.unique(numpy.nonzero(%s.spatial_magnitude_counts()))]' % (owner, cat))
        if e is None or N.nf(e) != want:
            probs.append('%s receives `%s`, expected the rates of `%s` in the active bins of `%s`' % (
                par, u(e)[:90] if e is not None else '?', owner, cat))
    for par, owner in ((kp[3], f1), (kp[4], f2)):
        e = ex.expand(m[par]) if par in m else None
        if e is None or _target_rates(e, owner, cat) != 1:
            probs.append('%s receives `%s`, expected the total of %s' % (par, u(m.get(par)) if par in m else '?', owner))
    ce = m.get('catalog')
    if not (isinstance(ce, ast.Name) and ce.id == cat):
        probs.append('the catalog handed to the kernel is not the observed catalog')
    (o.fail('; '.join(probs)) if probs else o.ok('active-bin rates and totals of forecast 1 and 2, same catalog'))
    _result_slots(ck, P, g, ex, BK)


def rule_public_w(ck):
    P = ck.prog
    ck.clause('D4')
    g = P.func('csep.core.poisson_evaluations.w_test')
    k = P.func(WK)
    ex = Expander(P, g)
    ps = g.positional_params
    f1, f2, cat = ps[0], ps[1], ps[2]
    calls = calls_in(P, g, WK)
    o = ck.ob('C08-D4.wcall', g, calls[0] if calls else WK, calls[0] if calls else g.node)
    if len(calls) != 1:
        o.fail('w_test does not call _w_test_ndarray exactly once')
        return
    m, ok = bind_args(k, calls[0])
    kp = k.positional_params
    N = sym.Normalizer()
    x = ex.expand(m[kp[0]]) if kp[0] in m else None
    med = ex.expand(m[kp[1]]) if kp[1] in m else None
    probs = []
    def tr(owner):
        return '__item__(%s.target_event_rates(%s, scale=scale), 0)' % (owner, cat)
    wantx = N.nf('numpy.log(%s) - numpy.log(%s)' % (tr(f1), tr(f2)))
    if x is None or N.nf(x) != wantx:
        probs.append('the differences are `%s`, expected ln rate_1 - ln rate_2 of the target events' % (sym.show(N.nf(x))[:120] if x is not None else '?'))
    wantm = N.nf('(%s.event_count - %s.event_count) / %s.event_count' % (f1, f2, cat))
    if med is None or N.nf(med) != wantm:
        probs.append('the null median is `%s`, expected (N_1 - N_2)/N_obs' % (sym.show(N.nf(med))[:120] if med is not None else '?'))
    (o.fail('; '.join(probs)) if probs else o.ok('x = ln r1 - ln r2 on the target events, median (N1-N2)/N'))
    for flds in result_fields(P, g, ex):
        for fld, want in (('observed_statistic', 'z_statistic'), ('quantile', 'probability')):
            v = flds.get(fld)
            o = ck.ob('C08-D4.wslot.' + fld, g, v[1] if v else fld, v[1] if v else g.node)
            e = v[0] if v else None
            got = const_value(e.slice) if isinstance(e, ast.Subscript) and isinstance(e.value, ast.Call) and call_name(e.value) == WK else None
            (o.ok(want) if got == want else o.fail('%s holds %s of the kernel result, expected %s' % (fld, got, want)))


def rule_rates_source(ck):
    """per-event rates and totals come from forecast.data through target_event_rates/get_rates: the scaled view must be a fresh
    array and lookups element-wise (shared C11-D1, C11-D3)."""
    from . import c11
    ck.clause('D4 (shared C11-D1/D3: rate lookup and non-cumulative scaling)')
    c11.rule_scaling(ck)
    c11.rule_lookup(ck)
    c11.rule_axes(ck)


def rule_totals_fresh(ck):
    """N_A and N_B are the totals of the forecasts as they are *now*: event_count / sum are functions of the (scaled) data and of
    nothing remembered from an earlier call"""
    from ..core.expand import phi_alternatives
    P = ck.prog
    ck.clause('D3')
    G = 'csep.core.forecasts.GriddedDataSet.'
    for name in ('event_count', 'sum'):
        f = P.func(G + name)
        ex = Expander(P, f, inline_depth=2)
        for r in returns(f):
            o = ck.ob('C08-D3.total', f, r.value if r.value is not None else 'return', r)
            if r.value is None:
                o.fail('%s returns nothing' % name)
                continue
            bad = []
            for alt in phi_alternatives(ex.expand(r.value)):
                attrs = {n.attr for n in ast.walk(alt) if isinstance(n, ast.Attribute) and isinstance(n.value, ast.Name) and n.value.id == 'self'}
                calls = {n.func.attr for n in ast.walk(alt) if isinstance(n, ast.Call) and isinstance(n.func, ast.Attribute)
                         and isinstance(n.func.value, ast.Name) and n.func.value.id == 'self'}
                if not attrs or not (attrs - calls) <= {'data', '_data', '_scale'}:
                    bad.append(u(alt)[:60])
            (o.fail('the forecast total can be `%s`: a value kept on the object instead of the sum of the data as scaled now; after '
                    'scale() / scale_to_test_date() the W-test\'s null median (N_A - N_B)/N uses a stale total while the per-event rates '
                    'follow the new scale' % bad[0]) if bad else o.ok('sum of the current data'))


def rule_precision(ck):
    """C08-D4.double: numbers stay in the precision they were supplied in - no conversion of rates / counts / statistics to a narrower type
    (shared reading with C05-D5.double)"""
    from .common import rule_double_precision
    ck.clause('D4')
    rule_double_precision(ck, 'C08-D4.double', modules=('csep.core.poisson_evaluations', 'csep.core.binomial_evaluations', 'csep.core.forecasts'), what='per-event rates and forecast totals')


def rule_defined(ck):
    """C08-D5.defined: the kernels return a result for every admissible sample (two events for the T-test, one non-null difference for the
    W-test): no minimum / maximum / arg-extremum is taken of an array that is *shorter* than the sample - a difference of neighbours
    (numpy.diff), a masked or sliced part - without an `initial=` or a test of its size; numpy raises for the empty case"""
    P = ck.prog
    ck.clause('D5')
    REDUCE = ('min', 'max', 'argmin', 'argmax', 'amin', 'amax', 'nanmin', 'nanmax')
    n = 0
    for q in (WK, TK, BK):
        f = P.func(q)
        ex = Expander(P, f)
        for c in all_nodes(f):
            if not isinstance(c, ast.Call):
                continue
            nm = c.func.attr if isinstance(c.func, ast.Attribute) else (c.func.id if isinstance(c.func, ast.Name) else '')
            if nm not in REDUCE:
                continue
            if isinstance(c.func, ast.Attribute) and u(c.func.value) not in ('numpy', 'np'):
                arg = c.func.value
            elif c.args and not (isinstance(c.func, ast.Name) and len(c.args) > 1):
                arg = c.args[0]
            else:
                continue
            try:
                e = ex.expand(arg)
            except Inconclusive:
                e = arg
            shorter = [x for x in ast.walk(e) if (isinstance(x, ast.Call) and (call_name(x) or '').endswith('diff'))
                       or (isinstance(x, ast.Subscript) and (isinstance(x.slice, (ast.Compare, ast.Slice))
                                                             or any(isinstance(y, ast.Compare) for y in ast.walk(x.slice))))]
            if not shorter:
                continue
            n += 1
            o = ck.ob('C08-D5.defined', f, c, c)
            if kw(c, 'initial') is not None:
                o.ok('has an initial value')
                continue
            guarded = any(any(w in u(t) for w in ('len(', '.size', 'shape[0]', 'count')) for t, pol in guards_of(c, f.node))
            # `size > 1 and v.min() == 0`: the earlier operands of an `and` guard the later ones
            cur = c
            while getattr(cur, '_parent', None) is not None and not isinstance(cur, ast.stmt):
                up = cur._parent
                if isinstance(up, ast.BoolOp) and isinstance(up.op, ast.And) and cur in up.values:
                    guarded = guarded or any(any(w in u(t) for w in ('len(', '.size', 'shape[0]', 'count')) for t in up.values[:up.values.index(cur)])
                cur = up
            (o.ok('guarded by a test of the size') if guarded else
             o.fail('`%s` takes an extremum of `%s`, which is empty for the smallest admissible sample: ValueError (zero-size array to reduction '
                    'operation) instead of a result' % (u(c)[:60], u(shorter[0])[:50])))
    ck.extra['extremum_reductions_of_shortened_arrays'] = n
    # every admissible sample gets the computed result: no early exit that hands back constants (a warning for a small sample is a warning,
    # not a refusal), and no floating-point condition of the computation turned into an exception (0/0 of a degenerate variance is a nan in
    # the result, not an error about the rates)
    for q in (WK, TK, BK):
        f = P.func(q)
        rets = [r for r in returns(f) if r.value is not None]
        early = [r for r in rets if isinstance(r.value, ast.Dict) and all(
            not any(isinstance(x, ast.Name) and x.id not in ('numpy', 'np', 'math', 'float') for x in ast.walk(v_)) for v_ in r.value.values)]
        o = ck.ob('C08-D5.result', f, 'every sample gets the computed statistics', early[0] if early else f.node)
        (o.fail('`%s` leaves %s with constants instead of the statistics: a sample the property admits (two events for the T-test, one '
                'non-null difference for the W-test) gets no result' % (u(early[0])[:70], f.short)) if early and len(rets) > len(early) else o.ok())
        traps = [c for c in all_nodes(f) if isinstance(c, ast.Call) and (call_name(c) or '').endswith('errstate')
                 and any(const_value(k.value) == 'raise' for k in c.keywords)]
        handlers = [h for h in all_nodes(f) if isinstance(h, ast.ExceptHandler) and h.type is not None and 'FloatingPointError' in u(h.type)]
        o = ck.ob('C08-D5.fperror', f, 'floating-point conditions stay values', traps[0] if traps else f.node)
        (o.fail('`%s` makes numpy raise inside %s: a zero variance (identical or proportional forecasts) or a zero rate then aborts the test '
                'instead of giving the nan / inf the formulas define' % (u(traps[0])[:60], f.short)) if traps or handlers else o.ok())


RULES = [rule_t, rule_binary_t, rule_w, rule_public_t, rule_public_binary, rule_public_w, rule_rates_source, rule_totals_fresh, rule_precision, rule_defined]
