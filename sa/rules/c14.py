"""C14 - catalog persistence round-trips preserve every event."""
import ast

from ..core import sym
from ..core.expand import u, call_name, get_arg, bind_args, Expander, is_marker, phi_alternatives
from ..core.loader import Inconclusive, const_value, parents
from .common import (accumulation_as_list, element_of, returns, all_nodes, callee, strip_shape, calls_in, guards_of, stmt_of, kw, find_assignments,
                     dict_literal_items, in_loop, read_tables)

EXPLANATION = (
    "Decided: D1 three-way schema of the CSEP ASCII format: header list = DictWriter fieldnames = keys of the row "
    "dictionary, the k-th zipped accessor has the role of the key that consumes row[k], the reader takes the same "
    "column numbers for the same roles and emits tuples in CSEPCatalog.dtype order; writer and readers use the same "
    "csv dialect (delimiter only - no skipinitialspace / quoting differences, which would alter ids); D2 time text: "
    "the writer emits str(naive UTC datetime) with ' ' -> 'T', i.e. %Y-%m-%dT%H:%M:%S[.%f], and the reader tries "
    "exactly those two shapes; D3 on the zero-record path every returned name is bound (G-UNBOUND with zero-iteration "
    "loops feasible); D4 epoch-ms <-> datetime <-> string uses only exact steps (shared C15-D1..D3); D5 region "
    "dictionary form (shared C18-D5); D6 because the empty catalog is in the quantifier, every first/last-element "
    "access on a per-event sequence is dominated by an emptiness guard or sits in a try that catches IndexError; "
    "D7 dict/JSON and DataFrame forms: to_dict writes the event rows under 'catalog' and from_dict rebuilds from "
    "adict['catalog']; to_dataframe carries catalog_id and from_dataframe selects exactly the dtype columns. NOT "
    "decided: repr/float round-trips of doubles, csv quoting of awkward ids, catalog_id typing through pandas/JSON. "
    "Also decided (round 5): D7.fromdf the catalog id of a frame is handed on as read (no truthiness test: id 0 is an id); shared C18-D5: from_dict rebuilds the region from its argument at every call (no class-level table of regions).")
CLAUSES = {'D1': 'three-way schema and dialect', 'D2': 'time text shapes', 'D3': 'bound names on the empty path', 'D4': 'exact time steps',
           'D5': 'region dictionary', 'D6': 'guarded element access', 'D7': 'dict / dataframe forms',
           'D8': 'catalog id of an empty catalog'}
TRUSTED = ['CPython ast', 'csv module dialect semantics', 'str(datetime) = YYYY-MM-DD HH:MM:SS[.ffffff] for naive datetimes']
A = 'csep.core.catalogs.AbstractBaseCatalog.'
ROOTS = [A + 'write_ascii', A + 'to_dict', A + 'from_dict', A + 'to_dataframe', A + 'from_dataframe', A + 'write_json', A + 'load_json',
         'csep.core.catalogs.CSEPCatalog.load_catalog', 'csep.utils.readers.csep_ascii', 'csep.load_catalog']
ZERO_ITER = ['csep.utils.readers.csep_ascii', A + 'write_ascii', A + 'to_dict', A + '_get_catalog_as_ndarray', A + 'from_dict',
             'csep.core.catalogs.CSEPCatalog.load_ascii_catalogs']
TECHNIQUE = 'static analysis: writer/reader table agreement, csv dialect agreement, definite assignment with empty loops, guarded-access rule'

ROLE_OF_KEY = {'lon': 'longitude', 'lat': 'latitude', 'mag': 'magnitude', 'time_string': 'epoch', 'depth': 'depth', 'catalog_id': 'catalog_id', 'event_id': 'id'}
COLS = ['lon', 'lat', 'mag', 'time_string', 'depth', 'catalog_id', 'event_id']


def _accessor_role(e):
    t = u(e).lower()
    for r in ('longitude', 'latitude', 'magnitude', 'epoch', 'depth', 'catalog_id'):
        if r in t:
            return r
    if 'event_id' in t or "['id']" in t or 'id_col' in t:
        return 'id'
    return None


def rule_schema(ck):
    P = ck.prog
    ck.clause('D1')
    f = P.func(A + 'write_ascii')
    ex = Expander(P, f)
    # the header is whatever list the DictWriter receives as fieldnames (read through def-use, whatever its name)
    w = calls_in(P, f, 'csv.DictWriter')
    fn = kw(w[0], 'fieldnames', 1) if len(w) == 1 else None
    hv = ex.expand(fn) if fn is not None else None
    o = ck.ob('C14-D1.header', f, hv if hv is not None else 'header', w[0] if w else f.node)
    cols = [const_value(e) for e in hv.elts] if isinstance(hv, (ast.List, ast.Tuple)) else None
    (o.ok() if cols == COLS else o.fail('the header is %s; the CSEP ASCII layout is %s' % (cols, COLS)))
    o = ck.ob('C14-D1.writer', f, w[0] if w else 'csv.DictWriter', w[0] if w else f.node)
    (o.ok() if cols is not None else o.fail('the DictWriter fieldnames are not the header list'))
    # the rows go into the file the caller named: the target of open() is the filename parameter, or - when the rows are first written
    # somewhere else - the move onto `filename` lies on every path out of the function, the early return for an empty catalog included
    opens = [c for c in all_nodes(f) if isinstance(c, ast.Call) and (callee(P, f, c) or '') in ('builtins.open', 'open', 'io.open')]
    if opens:
        oo = ck.ob('C14-D1.target', f, opens[0], opens[0])
        fname = f.positional_params[1] if f.positional_params[0] == 'self' else f.positional_params[0]
        tgt = ex.expand(opens[0].args[0]) if opens[0].args else None
        alts = phi_alternatives(tgt) if tgt is not None else []
        direct = bool(alts) and all(isinstance(a_, ast.Name) and a_.id == fname for a_ in alts)
        if direct:
            oo.ok('open(%s, ...)' % fname)
        else:
            cfg = f.cfg
            moves = [c for c in all_nodes(f) if isinstance(c, ast.Call) and (callee(P, f, c) or '') in ('os.replace', 'os.rename', 'shutil.move')
                     and len(c.args) == 2 and u(c.args[1]) == fname]
            # the statement at function-body level that holds the move (it may sit under `if target != filename`)
            tops = []
            for m_ in moves:
                st = stmt_of(m_)
                while getattr(st, '_parent', None) is not f.node and getattr(st, '_parent', None) is not None:
                    st = st._parent
                tops.append(st)
            exits = [r_ for r_ in returns(f)]
            bad = [r_ for r_ in exits if not any(cfg.node_of(t_) is not None and cfg.node_of(r_) is not None and cfg.dominates(cfg.node_of(t_), cfg.node_of(r_)) for t_ in tops)]
            if not moves:
                oo.fail('the catalog is written to `%s`, not to the file the caller named, and nothing moves it there' % u(opens[0].args[0])[:40])
            elif bad:
                oo.fail('the rows are written to `%s` and moved onto `%s` afterwards, but the return at L%d leaves before the move: on that path '
                        '(an empty catalog returns right after the header) the named file is never created or keeps its old content'
                        % (u(opens[0].args[0])[:30], fname, bad[0].lineno))
            else:
                oo.ok('written elsewhere and moved onto the named file on every path')
        # ... on every path: a call that leaves before the file is opened neither creates nor truncates it, and the next load reads
        # whatever the path held before (or nothing)
        oc = ck.ob('C14-D1.created', f, 'the file is opened on every path', opens[0])
        cfg = f.cfg
        st = stmt_of(opens[0])
        early = [r_ for r_ in returns(f) if cfg.node_of(st) is not None and cfg.node_of(r_) is not None
                 and not cfg.dominates(cfg.node_of(st), cfg.node_of(r_))]
        (oc.fail('the return at L%d leaves write_ascii before `%s`: in write mode the file is neither created nor emptied, so loading it '
                 'afterwards gives the previous content instead of this catalog' % (early[0].lineno, u(opens[0])[:50])) if early else
         oc.ok('no exit before the open'))
    # row dict
    rows = [n for n in all_nodes(f) if isinstance(n, ast.Dict) and len(n.keys) >= 6]
    o = ck.ob('C14-D1.row', f, rows[0] if rows else 'row dictionary', rows[0] if rows else f.node)
    if len(rows) != 1:
        o.fail('cannot find the single row dictionary')
        return
    items = dict(dict_literal_items(rows[0]))
    if sorted(items, key=str) != sorted(COLS):
        o.fail('row keys %s differ from the header %s: DictWriter raises or leaves a column empty' % (sorted(items, key=str), COLS))
        return
    # zip order
    zips = [n for n in all_nodes(f) if isinstance(n, ast.Call) and u(n.func) == 'zip' and len(n.args) == 7]
    if len(zips) != 1:
        o.fail('the row iterator is not a zip of seven columns')
        return
    zroles = [_accessor_role(ex.expand(a)) for a in zips[0].args]
    probs = []
    for key, val in items.items():
        # the expansion reduces row[k] / an unpacked loop variable to `__elem__(<k-th zipped column>)`
        cols_used = []
        for x in ast.walk(ex.expand(val)):
            if is_marker(x, '__elem__') and not is_marker(x.args[0], '__elem__'):
                t = u(x.args[0])
                if t not in [u(c) for c in cols_used]:
                    cols_used.append(x.args[0])
        if len(cols_used) != 1 or (isinstance(cols_used[0], ast.Call) and call_name(cols_used[0]) in ('zip', 'builtins.zip')):
            probs.append('key %r is built from %s' % (key, [u(c)[:40] for c in cols_used] or 'no row column'))
            continue
        role = _accessor_role(cols_used[0])
        if role != ROLE_OF_KEY[key]:
            probs.append('key %r takes the %s column `%s` (expected %s)' % (key, role, u(cols_used[0])[:50], ROLE_OF_KEY[key]))
    (o.fail('; '.join(probs)) if probs else o.ok('row[k] <-> accessor roles %s' % zroles))
    # the numbers reach the csv writer as they are stored (it writes the shortest text that reads back as the same double) or in a
    # text form that identifies a double: 17 significant digits
    import re as _re
    for key in ('lon', 'lat', 'mag', 'depth'):
        val = ex.expand(items[key])
        oo = ck.ob('C14-D1.digits', f, items[key], rows[0])
        e = val
        lossy = None
        while True:
            if isinstance(e, ast.Call) and (call_name(e) or '') in ('builtins.float', 'builtins.repr', 'builtins.str', 'numpy.float64', 'float', 'repr', 'str') and len(e.args) == 1:
                e = e.args[0]
                continue
            spec = None
            if isinstance(e, ast.Call) and (call_name(e) or '') in ('builtins.format', 'format') and len(e.args) == 2 and isinstance(const_value(e.args[1]), str):
                spec, inner = const_value(e.args[1]), e.args[0]
            elif isinstance(e, ast.BinOp) and isinstance(e.op, ast.Mod) and isinstance(const_value(e.left), str):
                spec, inner = const_value(e.left).lstrip('%'), e.right
            elif isinstance(e, ast.Call) and isinstance(e.func, ast.Attribute) and e.func.attr == 'format' and isinstance(const_value(e.func.value), str) and len(e.args) == 1:
                m_ = _re.search(r'\{[^}:]*:([^}]*)\}', const_value(e.func.value))
                spec, inner = (m_.group(1) if m_ else ''), e.args[0]
            elif isinstance(e, ast.JoinedStr) and len(e.values) == 1 and isinstance(e.values[0], ast.FormattedValue):
                fs = e.values[0].format_spec
                spec = ''.join(str(const_value(v_)) for v_ in fs.values) if fs is not None else ''
                inner = e.values[0].value
            elif isinstance(e, ast.Call) and (call_name(e) or '') in ('builtins.round', 'numpy.round', 'numpy.around', 'round'):
                lossy = 'rounded by `%s`' % u(e)[:50]
                break
            if spec is None:
                break
            m_ = _re.search(r'\.(\d+)([eEfFgG])', spec)
            if m_:
                digits, kind = int(m_.group(1)), m_.group(2).lower()
                sig = digits if kind == 'g' else (digits + 1 if kind == 'e' else None)
                if sig is None or sig < 17:
                    lossy = 'written with the format %r' % spec
                    break
            elif spec not in ('', 'r', 's'):
                lossy = 'written with the format %r' % spec
                break
            e = inner
        if lossy:
            oo.fail('%s is %s: fewer than 17 significant digits do not identify a double (0.30000000000000004 is read back as 0.3, '
                    '179.99999999999997 as 180.0), so the value loaded from the file differs from the one written' % (key, lossy))
        elif is_marker(e, '__elem__') or (isinstance(e, ast.Subscript) and is_marker(e.value, '__elem__')):
            oo.ok('the stored number itself')
        else:
            oo.unknown('cannot tell how `%s` is turned into text' % u(items[key])[:60])
    # reader side: column numbers (shared with C19-D2)
    from . import c19
    g = P.func('csep.utils.readers.csep_ascii')
    exg = Expander(P, g, keep={'line'})
    for call, tup in c19._event_tuples(P, g):
        want = {'lat': 1, 'lon': 0, 'depth': 4, 'mag': 2, 'time': 3, 'id': 6}
        for slot, e in zip(c19.SLOTS, tup.elts):
            oo = ck.ob('C14-D1.read.%s' % slot, g, u(e), e)
            ee = exg.expand(e)
            idx = {const_value(x.slice) for x in ast.walk(ee) if isinstance(x, ast.Subscript) and isinstance(x.value, ast.Name) and x.value.id == 'line'}
            arith = [x for x in ast.walk(ee) if isinstance(x, ast.BinOp)] if slot in ('lat', 'lon', 'depth', 'mag') else []
            (oo.fail('the reader changes the %s it read (`%s`): the number written - a value at the end of its range included - is not the one '
                     'loaded' % (slot, u(arith[0])[:50])) if arith and idx == {want[slot]} else
             oo.ok('column %d' % want[slot]) if idx == {want[slot]} else oo.fail('the reader takes the %s from column(s) %s, the writer puts it in column %d' % (slot, sorted(idx), want[slot])))
    # the event id is read whatever the catalog-id column holds: a try that protects int(<catalog id>) must not also hold the read of the
    # id column - a blank catalog id (the constructor default) would skip it and every id would be replaced by the line number
    for t_ in [x for x in all_nodes(g) if isinstance(x, ast.Try)]:
        idreads = [x for st_ in t_.body for x in ast.walk(st_) if isinstance(x, ast.Subscript) and isinstance(x.value, ast.Name) and x.value.id == 'line' and const_value(x.slice) == 6]
        others = [x for st_ in t_.body for x in ast.walk(st_) if isinstance(x, ast.Call) and u(x.func) in ('int', 'float')]
        if idreads and others and any(h_.type is None or 'ValueError' in u(h_.type) or 'Exception' in u(h_.type) for h_ in t_.handlers):
            pos_id = min(t_.body.index(st_) for st_ in t_.body if any(x is idreads[0] for x in ast.walk(st_)))
            pos_cv = min(t_.body.index(st_) for st_ in t_.body if any(x is others[0] for x in ast.walk(st_)))
            oo = ck.ob('C14-D1.idread', g, 'the event id is read independently of the other columns', t_)
            (oo.fail('`%s` stands in a try after `%s`: when that conversion fails (blank catalog id) the event id is never read and is '
                     'replaced by the line number' % (u(idreads[0]), u(others[0])[:30])) if pos_id > pos_cv else oo.ok())
    rule_dialect(ck)


def rule_dialect(ck, rule='C14-D1.dialect'):
    """writer and readers of the CSEP ASCII form use csv with the same dialect"""
    P = ck.prog
    f = P.func(A + 'write_ascii')
    w = calls_in(P, f, 'csv.DictWriter')
    # dialect agreement
    dial_w = {k.arg: u(k.value) for k in w[0].keywords if k.arg not in ('fieldnames',)} if w else {}
    for q in ('csep.utils.readers.csep_ascii', 'csep.core.catalogs.CSEPCatalog.load_ascii_catalogs'):
        r = P.func(q)
        rd = calls_in(P, r, 'csv.reader')
        o = ck.ob(rule, r, rd[0] if rd else 'csv.reader', rd[0] if rd else r.node)
        if len(rd) != 1:
            o.fail('%s does not read the file with csv.reader' % r.short)
            continue
        dial_r = {k.arg: u(k.value) for k in rd[0].keywords}
        (o.ok('dialect %s on both sides' % dial_r) if dial_r == dial_w else
         o.fail('the reader\'s csv dialect %s differs from the writer\'s %s: fields the writer leaves unquoted (ids with leading blanks, '
                'quotes, ...) come back altered' % (dial_r, dial_w)))



def rule_time_text(ck):
    P = ck.prog
    ck.clause('D2')
    f = P.func(A + 'write_ascii')
    ex = Expander(P, f)
    rows = [n for n in all_nodes(f) if isinstance(n, ast.Dict) and len(n.keys) >= 6]
    if not rows:
        return
    items = dict(dict_literal_items(rows[0]))
    v = items.get('time_string')
    o = ck.ob('C14-D2.writer', f, v if v is not None else 'time_string', v if v is not None else f.node)
    txt = u(ex.expand(v)) if v is not None else ''
    import re as _re
    # on the expansion: str(<conversion of the zipped epoch column>.replace(tzinfo=None)).replace(' ', 'T')
    good = _re.fullmatch(r"(builtins\.)?str\(csep\.utils\.time_utils\.epoch_time_to_utc_datetime\(__elem__\((.*)\)\)\.replace\(tzinfo=None\)\)\.replace\(' ', 'T'\)", txt) is not None
    (o.ok("str(naive utc datetime).replace(' ', 'T')") if good else
     o.fail('the time string is `%s`; the readers expect %%Y-%%m-%%dT%%H:%%M:%%S[.%%f] as produced by str(naive UTC datetime) with " " -> "T"' % txt[:90]))
    # the reader side: the formats tried on the time column, wherever the trying is done (the reader itself or the helpers it
    # calls inside its module)
    r0 = P.func('csep.utils.readers.csep_ascii')
    scope, todo = [r0], [(r0, 0)]
    while todo:
        cur, d_ = todo.pop()
        if d_ >= 2:
            continue
        for c in all_nodes(cur):
            if isinstance(c, ast.Call):
                q = callee(P, cur, c)
                if q in P.funcs and P.funcs[q].module is r0.module and P.funcs[q] not in scope:
                    scope.append(P.funcs[q])
                    todo.append((P.funcs[q], d_ + 1))
        for q, h in P.funcs.items():
            if h.parent is cur and h not in scope:
                scope.append(h)
                todo.append((h, d_ + 1))
    fmts, sites = [], []
    for h in scope:
        exh = Expander(P, h)
        for c in calls_in(P, h, 'csep.utils.time_utils.strptime_to_utc_epoch'):
            a_ = kw(c, 'format', 1)
            e_ = exh.expand(a_) if a_ is not None else None
            if e_ is not None and is_marker(e_, '__elem__') and e_.args and isinstance(e_.args[0], (ast.Tuple, ast.List)) \
                    and all(isinstance(const_value(x_), str) for x_ in e_.args[0].elts):
                # one call inside a loop over a tuple of formats: every format of the tuple is tried
                fmts.extend(const_value(x_) for x_ in e_.args[0].elts)
            else:
                fmts.append(const_value(e_) if e_ is not None else None)
            sites.append(h)
    g = sites[0] if sites else r0
    o = ck.ob('C14-D2.reader', g, fmts, g.node)
    (o.ok() if sorted(map(str, fmts)) == ['%Y-%m-%dT%H:%M:%S', '%Y-%m-%dT%H:%M:%S.%f'] else
     o.fail('the reader tries the formats %s; the writer emits %%Y-%%m-%%dT%%H:%%M:%%S with and without .%%f (whole seconds have no fraction)' % fmts))
    o = ck.ob('C14-D2.fallthrough', g, 'unparsable time raises', g.node)
    (o.ok() if any(isinstance(n, ast.Raise) for n in all_nodes(g)) else o.fail('an unparsable time string no longer raises'))


def rule_exact_time(ck):
    from . import c15
    ck.clause('D4 (shared C15-D1..D3)')
    c15.rule_exact(ck)
    c15.rule_units(ck)
    c15.rule_utc(ck)
    c15.rule_formats(ck)


def rule_region(ck):
    from . import c18
    ck.clause('D5 (shared C18-D5)')
    c18.rule_region(ck)
    P = ck.prog
    f = P.func(A + 'from_dict')
    o = ck.ob('C14-D5.restore', f, 'region restored through region_loader[class_id].from_dict', f.node)
    # name-independent: `<table>[<class id>].from_dict(...)` where the table's values are the region classes of the package
    tabs = read_tables(P, f)
    ok = False
    why = 'from_dict no longer rebuilds the region from its dictionary'
    for n in all_nodes(f):
        if isinstance(n, ast.Call) and isinstance(n.func, ast.Attribute) and n.func.attr == 'from_dict' and isinstance(n.func.value, ast.Subscript) \
                and isinstance(n.func.value.value, ast.Name) and n.func.value.value.id in tabs:
            vals = [P.canon(f, v) for v in tabs[n.func.value.value.id][0].values()]
            if vals and all(v in P.classes and v.startswith('csep.core.regions.') for v in vals):
                ok = True
                # ... from the region's own dictionary, not from the catalog's (the region class finds none of its keys there, and the
                # handler meant for a missing region swallows the error)
                arg = n.args[0] if n.args else None
                dp = [p_ for p_ in f.positional_params if p_ not in ('cls', 'self')][:1]
                if arg is not None and dp and isinstance(arg, ast.Name) and arg.id == dp[0] and not find_assignments(f, arg.id):
                    ok = False
                    why = 'the region class is handed the catalog dictionary `%s` itself, not its region entry' % arg.id
    (o.ok() if ok else o.fail(why))


FIRST_ACCESS = (0, -1)


def rule_empty(ck):
    P = ck.prog
    ck.clause('D6')
    n_acc = 0
    for q in (A + 'from_dataframe', A + '_get_catalog_as_ndarray', A + 'write_ascii', A + 'to_dict', A + 'from_dict', A + 'to_dataframe',
              'csep.utils.readers.csep_ascii', 'csep.core.catalogs.CSEPCatalog.load_catalog'):
        f = P.func(q)
        cfg = f.cfg
        for n in all_nodes(f):
            acc = None
            if isinstance(n, ast.Subscript) and isinstance(n.ctx, ast.Load) and const_value(n.slice) in FIRST_ACCESS:
                base = u(n.value)
                if base.endswith('.iloc') or base in ('self.catalog', 'self._catalog', 'events', 'event_list', 'df') or 'get_' in base:
                    acc = n
            if acc is None:
                continue
            n_acc += 1
            o = ck.ob('C14-D6.access', f, acc, acc)
            # (a) inside try with IndexError handler
            ok = None
            for p in parents(acc):
                if isinstance(p, ast.Try) and any(acc is x for s in p.body for x in ast.walk(s)):
                    names = []
                    for h in p.handlers:
                        if h.type is None:
                            names.append('*')
                        else:
                            names += [u(t) for t in (h.type.elts if isinstance(h.type, ast.Tuple) else [h.type])]
                    if '*' in names or 'IndexError' in names or 'Exception' in names or 'LookupError' in names:
                        ok = 'inside try/except %s' % names
                    else:
                        ok = False
                        why = 'the enclosing try only catches %s' % names
                    break
                if isinstance(p, (ast.FunctionDef, ast.AsyncFunctionDef)):
                    break
            if ok is None:
                # (b) dominated by an emptiness guard that leaves
                sn = cfg.stmt_node_containing(acc)
                for t in cfg.nodes:
                    if t.kind == 'test' and isinstance(t.ast, ast.If) and sn is not None and cfg.dominates(t, sn):
                        tt = u(t.ast.test)
                        if ('== 0' in tt and ('len' in tt or 'length' in tt or 'count' in tt or 'size' in tt)) and \
                                any(isinstance(s, (ast.Return, ast.Raise, ast.Continue)) for s in t.ast.body):
                            ok = 'dominated by `if %s: return`' % tt
                if ok is None:
                    why = 'no emptiness guard dominates the access'
            (o.ok(ok) if ok else o.fail('`%s` takes the first/last element of a per-event sequence; %s, so an empty catalog raises IndexError '
                                        '(the empty catalog must round-trip)' % (u(acc), why)))
    ck.extra['first_element_accesses'] = n_acc


def _exc_names(P, f, node):
    if node is None:
        return ['*']
    return [P.canon(f, t) or u(t) for t in (node.elts if isinstance(node, ast.Tuple) else [node])]


_BUILTIN_EXC_PARENTS = {'builtins.IndexError': ['builtins.LookupError', 'builtins.Exception'], 'builtins.KeyError': ['builtins.LookupError', 'builtins.Exception'],
                        'builtins.AttributeError': ['builtins.Exception'], 'builtins.ValueError': ['builtins.Exception'],
                        'builtins.TypeError': ['builtins.Exception'], 'builtins.RuntimeError': ['builtins.Exception']}


def _exc_caught(P, raised, handlers):
    if '*' in handlers or 'builtins.Exception' in handlers or 'builtins.BaseException' in handlers:
        return True
    if raised in handlers:
        return True
    c = P.classes.get(raised)
    if c is not None:
        return any(m.qualname in handlers for m in c.mro()) or any(b in handlers for m in c.mro() for b in m.base_names)
    return any(p_ in handlers for p_ in _BUILTIN_EXC_PARENTS.get(raised, []))


def rule_optional_magnitudes(ck):
    """a catalog whose region has no magnitude edges (a purely spatial region) still converts to a DataFrame: the optional
    magnitude binning must be skipped, i.e. whatever get_mag_idx raises for such a region is what to_dataframe handles"""
    P = ck.prog
    ck.clause('D6')
    d = P.func(A + 'to_dataframe')
    g = P.func(A + 'get_mag_idx')
    calls = [c for c in all_nodes(d) if isinstance(c, ast.Call) and isinstance(c.func, ast.Attribute) and c.func.attr == 'get_mag_idx']
    if not calls:
        return
    o = ck.ob('C14-D6.optional', d, 'get_mag_idx failures for a region without magnitude edges are handled', calls[0])
    handlers = []
    for p in parents(calls[0]):
        if isinstance(p, ast.Try) and any(calls[0] is x for st in p.body for x in ast.walk(st)):
            for h in p.handlers:
                handlers += _exc_names(P, d, h.type)
            break
    # what leaves get_mag_idx when region.magnitudes is missing or None
    raised = []
    for r in [n for n in all_nodes(g) if isinstance(n, ast.Raise) and n.exc is not None]:
        e = r.exc.func if isinstance(r.exc, ast.Call) else r.exc
        raised.append(P.canon(g, e) or u(e))
    # region.magnitudes may be None (CartesianGrid2D(..., magnitudes=None)): it must be tested before it is handed to bin1d_vec
    kernel = calls_in(P, g, 'csep.utils.calc.bin1d_vec')
    none_guard = False
    if kernel:
        barg = kw(kernel[0], 'bins', 1)
        exg = Expander(P, g)
        kn = g.cfg.stmt_node_containing(kernel[0])
        for n in all_nodes(g):
            if isinstance(n, ast.If) and isinstance(n.test, ast.Compare) and len(n.test.ops) == 1 and isinstance(n.test.ops[0], (ast.Is, ast.Eq)) \
                    and const_value(n.test.comparators[0]) is None and any(isinstance(x, ast.Raise) for x in n.body):
                same = u(n.test.left) == u(barg) or u(exg.expand(n.test.left)) == u(exg.expand(barg))
                tn = g.cfg.node_of(n)
                if same and tn is not None and kn is not None and g.cfg.dominates(tn, kn):
                    none_guard = True
    probs = []
    if kernel and not none_guard:
        probs.append('region.magnitudes is None for a purely spatial region and reaches bin1d_vec untested (IndexError on bins[0]), which '
                     'the handler %s does not cover' % handlers if not _exc_caught(P, 'builtins.IndexError', handlers) else None)
    for r in raised:
        if not _exc_caught(P, r, handlers):
            probs.append('get_mag_idx raises %s, but to_dataframe only handles %s: the optional magnitude column aborts the whole conversion'
                         % (r.split('.')[-1], [h.split('.')[-1] for h in handlers]))
    probs = [p_ for p_ in probs if p_]
    (o.fail('; '.join(probs)) if probs else o.ok('handled: %s' % [h.split('.')[-1] for h in handlers]))


def _loop_appends_rows(t, slot):
    """loop form: one loop over the rows of self.catalog that, in every iteration and unconditionally, appends to `slot` a
    value built from that row (data flow from the loop variable through assignments, inner loops and appends)"""
    loops = [n for n in all_nodes(t) if isinstance(n, ast.For) and 'self.catalog' in u(n.iter) and in_loop(n, t.node) is None]
    if len(loops) != 1:
        return False
    lp = loops[0]
    if any(isinstance(x, (ast.Break, ast.Return)) for x in ast.walk(lp)) or \
            any(isinstance(x, ast.Continue) and in_loop(x, t.node) is lp for x in ast.walk(lp)):
        return False
    apps = [x for x in ast.walk(lp) if isinstance(x, ast.Call) and isinstance(x.func, ast.Attribute) and x.func.attr == 'append' and u(x.func.value) == slot]
    if len(apps) != 1 or not any(stmt_of(apps[0]) is s_ for s_ in lp.body):
        return False
    tainted = {n.id for n in ast.walk(lp.target) if isinstance(n, ast.Name)}
    changed = True
    while changed:
        changed = False
        for n in ast.walk(lp):
            new = set()
            if isinstance(n, ast.Assign) and any(isinstance(x, ast.Name) and x.id in tainted for x in ast.walk(n.value)):
                new = {x.id for tg in n.targets for x in ast.walk(tg) if isinstance(x, ast.Name)}
            elif isinstance(n, ast.For) and n is not lp and any(isinstance(x, ast.Name) and x.id in tainted for x in ast.walk(n.iter)):
                new = {x.id for x in ast.walk(n.target) if isinstance(x, ast.Name)}
            elif isinstance(n, ast.Call) and isinstance(n.func, ast.Attribute) and n.func.attr in ('append', 'extend') and isinstance(n.func.value, ast.Name) \
                    and any(isinstance(x, ast.Name) and x.id in tainted for a_ in n.args for x in ast.walk(a_)):
                new = {n.func.value.id}
            if new - tainted:
                tainted |= new
                changed = True
    return any(isinstance(x, ast.Name) and x.id in tainted for x in ast.walk(apps[0].args[0]))


def rule_row_order(ck):
    """between the event array and its other forms (frame, dict) and on the way into a catalog object nothing reorders,
    drops or repeats rows"""
    P = ck.prog
    d = P.func(A + 'to_dataframe')
    g = P.func(A + 'from_dataframe')
    # row order and row set: between the event array and the frame (and back) nothing may reorder, drop or repeat rows
    REORDER = {'sort_values', 'sort_index', 'sort', 'sample', 'drop_duplicates', 'dropna', 'groupby', 'reindex', 'nlargest', 'nsmallest',
               'query', 'head', 'tail', 'drop', 'unique', 'shuffle', 'argsort', 'take', 'truncate', 'resample', 'merge', 'join', 'explode'}
    KEEP = {'set_index', 'reset_index', 'copy', 'assign', 'rename', 'astype', 'map', 'to_records', 'DataFrame', 'ascontiguousarray',
            'asarray', 'array'}
    for fn in (d, g, P.func(A + 'to_dict'), P.func(A + 'from_dict'), P.func(A + 'catalog.setter'), P.func(A + '_get_catalog_as_ndarray'),
               P.func(A + '__init__'), P.func('csep.core.catalogs.CSEPCatalog.load_catalog'), P.func('csep.load_catalog')):
        o = ck.ob('C14-D7.roworder', fn, 'no call reorders or drops event rows', fn.node)
        bad = []
        for c in all_nodes(fn):
            if isinstance(c, ast.Call):
                nm = c.func.attr if isinstance(c.func, ast.Attribute) else (c.func.id if isinstance(c.func, ast.Name) else None)
                full = callee(P, fn, c) or ''
                if (nm in REORDER and not (isinstance(c.func, ast.Attribute) and isinstance(c.func.value, ast.Constant))) or full in ('builtins.sorted', 'builtins.reversed', 'builtins.set', 'numpy.sort', 'numpy.unique', 'numpy.argsort',
                                             'numpy.flip', 'numpy.random.shuffle', 'numpy.random.permutation'):
                    bad.append(c)
            if isinstance(c, ast.Subscript) and isinstance(c.slice, ast.Slice) and c.slice.step is not None:
                bad.append(c)
        (o.fail('`%s` changes the order or the set of rows: the catalog read back no longer lists the same events in the same order'
                % u(bad[0])[:90]) if bad else o.ok('only column stores and order-preserving conversions'))


def rule_forms(ck):
    P = ck.prog
    ck.clause('D7')
    t = P.func(A + 'to_dict')
    o = ck.ob('C14-D7.todict', t, "out['catalog'] holds every event row", t.node)
    # out['catalog'] is an order-preserving map over the rows of self.catalog: its generic element derives from the generic row
    slot = "out['catalog']"
    acc = accumulation_as_list(t, slot)
    val = acc
    if val is None:
        cands = [a_ for a_ in all_nodes(t) if isinstance(a_, ast.Assign) and len(a_.targets) == 1 and u(a_.targets[0]) == slot
                 and not (isinstance(a_.value, ast.List) and not a_.value.elts)]
        val = cands[0].value if len(cands) == 1 else None
    ok = False
    if val is not None:
        el = u(element_of(P, t, val))
        ok = '__elem__(self.catalog.tolist())' in el or '__elem__(self.catalog)' in el
    if not ok:
        ok = _loop_appends_rows(t, slot)
    (o.ok() if ok else o.fail("to_dict does not append every row of self.catalog to out['catalog']"))
    f = P.func(A + 'from_dict')
    o = ck.ob('C14-D7.fromdict', f, "cls(data=adict['catalog'])", f.node)
    ex = Expander(P, f)
    ctor = [n for n in all_nodes(f) if isinstance(n, ast.Call) and u(n.func) == 'cls']
    good = len(ctor) == 1 and "adict.get('catalog'" in u(ex.expand(kw(ctor[0], 'data') or ast.Constant(0)))
    (o.ok() if good else o.fail("from_dict does not rebuild the events from adict['catalog']"))
    d = P.func(A + 'to_dataframe')
    o = ck.ob('C14-D7.todf', d, 'DataFrame(self.catalog) with catalog_id column', d.node)
    exd = Expander(P, d)
    frames = [c for c in calls_in(P, d, 'pandas.DataFrame') if c.args and u(strip_shape(exd.expand(c.args[0]))) in ('self.catalog', 'self._catalog', 'self.data')]
    idcol = [n for n in all_nodes(d) if isinstance(n, ast.Assign) and isinstance(n.targets[0], ast.Subscript) and const_value(n.targets[0].slice) == 'catalog_id'
             and u(n.value) == 'self.catalog_id']
    cond = []
    if idcol:
        from .common import guard_dnf
        try:
            cond = [a for c_ in guard_dnf(idcol[0], d.node) for a, pol in c_ if 'catalog_id' in u(a) and not isinstance(a, ast.Compare)]
        except Inconclusive:
            cond = []
    (o.fail('the catalog_id column is written only when `%s` is true: the id 0 is a catalog id like any other and does not survive' % u(cond[0])[:50])
     if cond else o.ok() if frames and idcol else o.fail('to_dataframe does not carry the events and the catalog id'))
    g = P.func(A + 'from_dataframe')
    o = ck.ob('C14-D7.fromdf', g, 'records of the dtype columns', g.node)
    exg = Expander(P, g)
    ctor = [c for c in all_nodes(g) if isinstance(c, ast.Call) and isinstance(c.func, ast.Name) and c.func.id == 'cls']
    probs = []
    if len(ctor) != 1:
        probs.append('no single cls(...) construction')
    else:
        data = kw(ctor[0], 'data', 0)
        e = exg.expand(data) if data is not None else None
        # peel order-preserving conversions down to df[<columns>]
        saw_dtype = saw_noindex = False
        cur = e
        while cur is not None:
            if isinstance(cur, ast.Call):
                nm = call_name(cur) or ''
                if kw(cur, 'dtype') is not None and u(kw(cur, 'dtype')) == 'cls.dtype':
                    saw_dtype = True
                if nm == '.to_records':
                    ix = kw(cur, 'index', 0)
                    saw_noindex = ix is not None and const_value(ix) is False
                    cur = cur.func.value
                    continue
                if nm in ('.copy', '.astype', '.reset_index') :
                    cur = cur.func.value
                    continue
                if nm in ('numpy.ascontiguousarray', 'numpy.asarray', 'numpy.array') and cur.args:
                    cur = cur.args[0]
                    continue
            break
        cols = u(cur.slice) if isinstance(cur, ast.Subscript) and u(cur.value) == g.positional_params[1 if g.positional_params[0] in ('cls', 'self') else 0] else None
        if cols not in ('builtins.list(cls.dtype.names)', 'cls.dtype.names', '[*cls.dtype.names]'):
            probs.append('the events are `%s`, not the frame restricted to the dtype columns' % u(e)[:80] if e is not None else 'no data argument')
        if not saw_noindex:
            probs.append('to_records(index=False) is missing: the frame index would become an extra field')
        if not saw_dtype:
            probs.append('the records are not cast to cls.dtype')
        cid = kw(ctor[0], 'catalog_id')
        ce = u(exg.expand(cid)) if cid is not None else ''
        if "df['catalog_id']" not in ce.replace('"', "'"):
            probs.append('the catalog id is not taken from the catalog_id column')
        # the id is handed on as it is read: a truthiness test on it (`int(v) if v else None`, `v or None`) turns id 0 into "no id"
        from .common import truthiness_tests
        raw = []
        for a_ in find_assignments(g, cid.id) if isinstance(cid, ast.Name) else []:
            raw.extend(truthiness_tests(a_.value) if getattr(a_, 'value', None) is not None else [])
            for t_, pol_ in guards_of(a_, g.node):
                if not isinstance(t_, ast.Compare) and cid.id in u(t_) and not (isinstance(t_, ast.Call)):
                    raw.append((a_, t_))
        if cid is not None and not isinstance(cid, ast.Name):
            raw.extend(truthiness_tests(cid))
        raw = [(n_, t_) for n_, t_ in raw if 'catalog_id' in u(t_) or (isinstance(cid, ast.Name) and cid.id in u(t_))]
        if raw:
            probs.append('the id is kept only if it is truthy (`%s`): catalog id 0 - the first catalog of every stochastic event set - comes back as None' % u(raw[0][0])[:70])
    (o.fail('from_dataframe does not select exactly the dtype columns as records / loses the catalog id: ' + '; '.join(probs)) if probs else o.ok())
    rule_row_order(ck)
    j = P.func(A + 'write_json')
    o = ck.ob('C14-D7.json', j, 'json.dump(self.to_dict())', j.node)
    dumps = calls_in(P, j, 'json.dump')
    (o.ok() if len(dumps) == 1 and u(dumps[0].args[0]) == 'self.to_dict()' else o.fail('write_json does not dump self.to_dict()'))
    l = P.func(A + 'load_json')
    o = ck.ob('C14-D7.loadjson', l, 'cls.from_dict(json.load(f))', l.node)
    exl = Expander(P, l)
    good = False
    for r_ in returns(l):
        e_ = exl.expand(r_.value) if r_.value is not None else None
        if isinstance(e_, ast.Call) and isinstance(e_.func, ast.Attribute) and e_.func.attr == 'from_dict' and u(e_.func.value) == l.params[0] \
                and e_.args and isinstance(e_.args[0], ast.Call) and (call_name(e_.args[0]) or '') == 'json.load':
            good = True
    (o.ok() if good else o.fail('load_json does not rebuild through from_dict'))
    # CSEPCatalog.load_catalog carries the catalog id from the reader
    c = P.func('csep.core.catalogs.CSEPCatalog.load_catalog')
    o = ck.ob('C14-D7.catid', c, 'catalog_id from the reader', c.node)
    txt = ' '.join(u(s) for s in c.node.body)
    (o.ok() if 'event_list, catalog_id = loader(filename, return_catalog_id=True)' in txt and 'catalog_id=catalog_id' in txt else o.fail('the catalog id read from the file is not handed to the catalog'))
    # ... and the reader takes it from the column the writer puts it in (column 5, between depth and event id)
    g = P.func('csep.utils.readers.csep_ascii')
    exg = Expander(P, g, keep={'line'}, inline_depth=1)
    for r_ in returns(g):
        if isinstance(r_.value, ast.Tuple) and len(r_.value.elts) == 2:
            oo = ck.ob('C14-D7.idcolumn', g, r_.value.elts[1], r_)
            try:
                e_ = exg.expand(r_.value.elts[1])
            except Inconclusive as ex_:
                oo.unknown(str(ex_))
                continue
            cols = {const_value(x.slice) for x in ast.walk(e_) if isinstance(x, ast.Subscript) and isinstance(x.value, ast.Name) and x.value.id == 'line'}
            (oo.ok('column 5') if cols == {5} else
             oo.fail('the catalog id is read from column(s) %s of the record; write_ascii puts it in column 5 (a depth such as 8.0 is no integer, '
                     'so every file loads with the fallback id -1)' % sorted(cols)))


def rule_empty_id(ck):
    """the catalog id is stored per event row (ASCII) / as a column (DataFrame): with zero events it needs a carrier of its own"""
    P = ck.prog
    ck.clause('D8')
    f = P.func(A + 'write_ascii')
    o = ck.ob('C14-D8.ascii', f, 'an empty catalog still writes its catalog id', f.node)
    ok = False
    early = []
    for n in all_nodes(f):
        if isinstance(n, ast.If) and 'event_count' in u(n.test) and '== 0' in u(n.test):
            early.append(n)
            for c in ast.walk(n):
                if isinstance(c, ast.Call) and isinstance(c.func, ast.Attribute) and c.func.attr == 'writerow' and 'catalog_id' in u(c):
                    ok = True
    (o.ok('placeholder row with the id') if ok else
     o.fail('with zero events %s and no row carries catalog_id: the id of an empty catalog is not in the file and the catalog loads back with '
            'catalog_id None' % ('write_ascii returns after the header (`%s`)' % u(early[0].test) if early else 'the row loop writes nothing')))
    d = P.func(A + 'to_dataframe')
    g = P.func(A + 'from_dataframe')
    o = ck.ob('C14-D8.frame', d, 'an empty frame still carries the catalog id', d.node)
    carrier = any(isinstance(n, ast.Subscript) and isinstance(n.ctx, ast.Store) and isinstance(n.value, ast.Attribute) and n.value.attr == 'attrs'
                  for n in all_nodes(d))
    reads = any(isinstance(n, ast.Attribute) and n.attr == 'attrs' for n in all_nodes(g))
    (o.ok('DataFrame.attrs') if carrier and reads else
     o.fail('the id travels only as the column df[\'catalog_id\'], which has no rows for an empty catalog; from_dataframe then finds '
            'nothing (`iloc[0]` -> IndexError -> None)'))


RULES = [rule_schema, rule_time_text, rule_exact_time, rule_region, rule_empty, rule_optional_magnitudes, rule_forms, rule_empty_id]
