"""C02 - 1-D binning: lower-inclusive, upper-exclusive, open at the top."""
import ast
from fractions import Fraction

from ..core import sym
from ..core.expand import u, call_name, get_arg, bind_args, phi_alternatives, is_marker, Expander
from ..core.loader import Inconclusive, const_value
from .common import (calls_in, callee, returns, expander, strip_shape, linear_coeffs, guards_of, subscript_stores,
                     all_nodes, raise_class, role_of, kw, is_true, compare_nf, stmt_of, find_assignments, is_none_test, path_stores)

EXPLANATION = (
    "Decided (structure, necessary conditions): D1 the bin index is numpy.floor of one quotient and nothing else "
    "rounds on its provenance; the numerator is +p -bins[0] plus tolerance terms, the denominator the spacing "
    "bins[1]-bins[0] minus tolerance terms; D2 every tolerance term comes from _get_tolerance (|v|*eps or 0, "
    "non-negative) or the caller's tol, enters the numerator with + and the denominator with -; D3 integer-set "
    "reading of the range stores: closed mode maps exactly {idx<0} U {idx>=N} to -1, open mode maps {idx<0} to -1 "
    "and clamps every idx>=L (L in {N-1,N}) to N-1, single-edge grids force open mode, negative spacing raises; "
    "D4 every bin1d_vec call on magnitude edges passes right_continuous=True, no coordinate call does; "
    "D5 cleaner_range = arange(round(scale*start), round(scale*end)+c*d, d)/scale with 0<c<=1 and magnitude_bins "
    "Round 5: D5.magbins the generator's arguments are forwarded unchanged - a default may only be filled in after a None test, never by truthiness (0.0 is a magnitude); C03-D6.local explicit bins are never written into the shared region; D1.double no narrowing dtype in calc.py. "
    "forwards its arguments in order. NOT decided: which side of an edge a particular float64 lands on, ulp "
    "neighbourhoods, exactness of generated edges, float32/integer inputs, monotonicity for negative p.")
CLAUSES = {'D1': 'floor of a single quotient', 'D2': 'tolerance bias direction', 'D3': 'range / clamp sets',
           'D4': 'call-site modes', 'D5': 'edge generators'}
TRUSTED = ['CPython ast', 'numpy contracts: floor is monotone, arange on an integer grid is exact, boolean-mask store',
           'integer reading of comparisons on the floored index']
ROOTS = ['csep.utils.calc.bin1d_vec', 'csep.utils.calc.discretize', 'csep.utils.calc.cleaner_range',
         'csep.core.regions.magnitude_bins', 'csep.core.catalogs.AbstractBaseCatalog.magnitude_counts',
         'csep.core.catalogs.AbstractBaseCatalog.get_mag_idx',
         'csep.core.forecasts.MarkedGriddedDataSet.get_magnitude_index']

BIN = 'csep.utils.calc.bin1d_vec'
TOL = 'csep.utils.calc._get_tolerance'


def _tol_atoms_ok(atom, N):
    """Is this atom a known non-negative tolerance term?"""
    s = sym.show_atom(atom)
    if atom[0] == 'call' and atom[1] == TOL:
        return True
    if atom[0] == 'n' and atom[1] == 'tol':
        return True
    if atom[0] in ('or', 'ifexp', 'phi'):
        # every alternative must itself be a tolerance term (or the caller's tol / None test)
        def alts(a):
            if a[0] == 'or':
                return list(a[1])
            if a[0] == 'ifexp':
                return [a[2], a[3]]
            return list(a[1:])
        for alt in alts(atom):
            st = alt.single_term() if isinstance(alt, sym.Poly) else None
            if st is None:
                return False
            m, c = st
            if c <= 0:
                return False
            if m == ():
                continue
            if len(m) != 1 or m[0][1] != 1 or not _tol_atoms_ok(m[0][0], N):
                return False
        return True
    return False


def rule_kernel(ck):
    P = ck.prog
    f = P.func(BIN)
    ck.clause('D1')
    floors = calls_in(P, f, {'numpy.floor', 'numpy.floor_divide', 'math.floor'})
    o = ck.ob('C02-D1.floor', f, 'index = floor(quotient)', f.node)
    if len(floors) != 1:
        rounders = calls_in(P, f, {'numpy.round', 'numpy.rint', 'numpy.ceil', 'numpy.trunc', 'numpy.around',
                                   'builtins.round', 'builtins.int', 'numpy.digitize', 'numpy.searchsorted'})
        if not floors:
            o.fail('bin1d_vec no longer derives the index with numpy.floor (found %s): the lower-inclusive rule '
                   'needs the floor of (p - a0)/h' % ([u(r) for r in rounders][:2] or 'no rounding call'))
            return
        raise Inconclusive('several floor calls in bin1d_vec')
    o.ok('one floor call')
    fl = floors[0]
    ex = expander(P, f)
    rets = [r for r in returns(f) if r.value is not None]
    o = ck.ob('C02-D1.path', f, 'returned index is the floored quotient', rets[0] if rets else f.node)
    if len(rets) != 1:
        raise Inconclusive('bin1d_vec has %d valued returns' % len(rets))
    ret = ex.expand(rets[0].value)
    bad = None
    e = ret
    chain = []
    while True:
        s = strip_shape(e)
        if isinstance(s, ast.Call) and call_name(s) in ('numpy.floor', 'math.floor'):
            break
        if isinstance(s, ast.Call) and call_name(s) in ('numpy.int64', 'builtins.int', 'numpy.intp'):
            e = s.args[0]
            continue
        bad = s
        break
    if bad is not None:
        o.fail('the returned value is `%s`, not (a reshaping / integer cast of) numpy.floor(...): another '
               'operation lies between the floor and the result' % u(bad)[:120])
        return
    o.ok('floor -> asarray/astype(int64) -> return')
    quot = s.args[0]
    inner_round = [n for n in ast.walk(quot) if isinstance(n, ast.Call) and call_name(n) in
                   ('numpy.round', 'numpy.rint', 'numpy.ceil', 'numpy.trunc', 'numpy.around', 'builtins.round',
                    'builtins.int', 'numpy.floor')]
    ck.require(not inner_round, 'C02-D1.noround', f, quot,
               'a second rounding (%s) is applied inside the floored quotient' % (u(inner_round[0]) if inner_round else ''),
               fl, 'no other rounding on the provenance of the quotient')
    # ---- numerator / denominator
    ck.clause('D2')
    if not (isinstance(quot, ast.BinOp) and isinstance(quot.op, ast.Div)):
        raise Inconclusive('floored expression is not a quotient: %s' % u(quot)[:100])
    N = sym.Normalizer()
    num, den = N.nf(quot.left), N.nf(quot.right)
    lin, const, other = linear_coeffs(num)
    p_atom, a0_atom = ('n', 'p'), ('sub', N.nf('bins'), N.nf('0'))
    o = ck.ob('C02-D2.num', f, quot.left, fl)
    probs = []
    if lin.get(p_atom) != 1:
        probs.append('coefficient of p is %s (must be +1)' % lin.get(p_atom, 0))
    if lin.get(a0_atom) != -1:
        probs.append('coefficient of bins[0] is %s (must be -1)' % lin.get(a0_atom, 0))
    if const != 0 or other:
        probs.append('unexpected constant/non-linear term')
    tol_terms = 0
    for a, c in lin.items():
        if a in (p_atom, a0_atom):
            continue
        if not _tol_atoms_ok(a, N):
            probs.append('term %s is not a tolerance term' % sym.show_atom(a))
        elif c <= 0:
            probs.append('tolerance term %s enters the numerator with coefficient %s: a value at or above an edge '
                         'can be pushed below it' % (sym.show_atom(a), c))
        else:
            tol_terms += 1
    tol_args = set()
    for a in num.all_atoms():
        if isinstance(a, tuple) and a[0] == 'call' and a[1] == TOL and a[2]:
            tol_args.add(a[2][0])
    if not probs and N.nf('p') not in tol_args:
        probs.append('no tolerance term of the numerator is derived from the point p (tolerances found for: %s): the '
                     'round-off of the binned value itself is not compensated, so a value equal to an edge can fall '
                     'into the bin below when the other tolerances vanish (first edge 0)' % ', '.join(sym.show(t) for t in tol_args))
    if not probs and N.nf('bins[0]') not in tol_args:
        probs.append('no tolerance term of the numerator is derived from the first edge bins[0]')
    if tol_terms < 2 and not probs:
        probs.append('numerator carries %d tolerance term(s); the point tolerance and the origin tolerance are '
                     'both required (a value equal to an edge must not fall into the bin below)' % tol_terms)
    (o.fail('; '.join(probs)) if probs else o.ok('+p -bins[0] +%d tolerance terms' % tol_terms))
    # denominator: spacing minus tolerance
    o = ck.ob('C02-D2.den', f, quot.right, fl)
    probs = []
    alts = None
    lin, const, other = linear_coeffs(den)
    spacing_ok = False
    b1 = ('sub', N.nf('bins'), N.nf('1'))
    for a, c in list(lin.items()):
        if a[0] == 'phi':
            # phi(1.0, bins[1]-bins[0]) : single-edge grid uses an arbitrary positive spacing
            ok_alts = 0
            for alt in a[1:]:
                if alt.is_const() and alt.const_value() > 0:
                    ok_alts += 1
                elif alt == N.nf('bins[1] - bins[0]'):
                    ok_alts += 1
            if ok_alts == len(a[1:]) and c == 1:
                spacing_ok = True
            else:
                probs.append('spacing term %s is not {positive constant | bins[1]-bins[0]}' % sym.show_atom(a))
            del lin[a]
    if not spacing_ok:
        if lin.get(b1) == 1 and lin.get(a0_atom) == -1:
            spacing_ok = True
            del lin[b1]
            del lin[a0_atom]
    if not spacing_ok and not probs:
        probs.append('denominator does not contain the spacing bins[1]-bins[0]')
    ntol = 0
    for a, c in lin.items():
        if not _tol_atoms_ok(a, N):
            probs.append('term %s is not a tolerance term' % sym.show_atom(a))
        elif c >= 0:
            probs.append('tolerance term %s enters the denominator with coefficient %s (must be negative): the '
                         'quotient of a value on an edge can round below the edge index' % (sym.show_atom(a), c))
        elif a[0] == 'call' and a[1] == TOL and a[2] and a[2][0] not in (N.nf('bins[0]'), N.nf('bins[1]'), N.nf('bins')):
            # h = bins[1] - bins[0] inherits the representation error of the two edges, up to eps*|bins[0]|, whatever the size of h
            probs.append('the allowance subtracted from the spacing is the round-off of `%s`, not of an edge: the computed spacing '
                         'bins[1]-bins[0] is wrong by up to eps*|bins[0]| (the representation error of the edges), which is far more than '
                         'eps*|spacing| when the first edge is large compared with the spacing; k steps away from the first edge the '
                         'quotient of a value on an edge falls below k' % sym.show(a[2][0]))
        else:
            ntol += 1
    if const != 0 or other:
        probs.append('unexpected constant/non-linear term in the denominator')
    if ntol < 1 and not probs:
        probs.append('denominator carries no tolerance term: with an inexact spacing the quotient of an exact edge '
                     'value can fall just below the integer')
    (o.fail('; '.join(probs)) if probs else o.ok('spacing - %d tolerance term(s)' % ntol))


def rule_tolerance(ck):
    P = ck.prog
    f = P.func(TOL)
    ck.clause('D2')
    N = sym.Normalizer()
    ex = expander(P, f)
    rets = returns(f)
    if not rets:
        raise Inconclusive('_get_tolerance has no return')
    param = f.positional_params[0]
    for r in rets:
        o = ck.ob('C02-D2.tol', f, r.value, r)
        e = ex.expand(r.value)
        # `numpy.where(numpy.isfinite(t), t, 0)`: the tolerance t for finite values, none for infinite ones
        finite_guard = False
        es = e
        if isinstance(es, ast.Call) and call_name(es) == 'numpy.where' and len(es.args) == 3 and isinstance(es.args[0], ast.Call) \
                and call_name(es.args[0]) == 'numpy.isfinite' and const_value(es.args[2]) == 0:
            finite_guard = True
            e = es.args[1]
        p = N.nf(e)
        if p.is_const():
            (o.ok('constant %s >= 0' % p.const_value()) if p.const_value() >= 0 else o.fail('negative constant tolerance'))
            continue
        st = p.single_term()
        ok = False
        small = st is not None and 0 < st[1] < 1
        if st is not None and st[1] >= 1:
            atoms = [a for a, e in st[0]]
            has_abs = any(a[0] == 'call' and a[1] == 'abs' for a in atoms)
            has_eps = any('eps' in sym.show_atom(a) and ('%s.dtype' % param) in sym.show_atom(a) for a in atoms)
            raw = any(a == ('n', param) for a in atoms)
            ok = has_abs and has_eps and not raw
        if ok:
            o.ok('|v| * eps with positive coefficient')
            oo = ck.ob('C02-D2.finite', f, r.value, r)
            (oo.ok('no tolerance for infinite values') if finite_guard else
             oo.fail('the tolerance of an infinite value is infinite: for v = -inf the numerator v - a0 + tol(v) is inf - inf = nan, floor(nan) '
                     'compares false with every bound and the index is garbage instead of -1 (out of range)'))
        elif small:
            # worst case at edge k with tolerance c*eps*|v| on p, bins[0] and the spacing: the slack (2c-1)*u*(|p|+|a0|) of the numerator
            # must cover the k-fold error 2*k*u*|a0|*(1-c) of the spacing (u = eps/2); for c < 1 that fails from some k on
            o.fail('tolerance `%s` scales |v|*eps by %s < 1: the spacing bins[1]-bins[0] carries up to eps*|bins[0]| of representation error, '
                   'k steps from the first edge that error is multiplied by k, and an allowance below one full eps*|v| per involved number no '
                   'longer covers it - a value equal to edge k falls into bin k-1 (e.g. edges 4.05 + 0.1*k, value 5.35)' % (sym.show(p), st[1]))
        else:
            o.fail('tolerance `%s` is not |v|*eps(v.dtype) with a positive coefficient: it can be negative, or is not scaled by the machine '
                   'epsilon of the value\'s own dtype (a float32 value carries float32 round-off), so a value on an edge can fall '
                   'into the bin below' % sym.show(p))


def rule_tolerance_flow(ck):
    """the binning tolerance is the round-off of the value's own dtype unless the *user* overrides it: every parameter that is
    forwarded to bin1d_vec's `tol` defaults to None, and no call inside the package fixes a tolerance of its own"""
    P = ck.prog
    ck.clause('D2')
    K = 'csep.utils.calc.bin1d_vec'
    T = {K: 'tol'}                       # function -> name of its parameter that ends up as bin1d_vec's tol

    def sites(q):
        """[(caller, call)] of q: resolved calls, and method calls by the (package-unique) method name"""
        short = q.split('.')[-1]
        same = [x for x in P.funcs if x.split('.')[-1] == short]
        out = []
        for g in P.funcs.values():
            for c in all_nodes(g):
                if not isinstance(c, ast.Call):
                    continue
                tgt = callee(P, g, c)
                if tgt == q:
                    out.append((g, c))
                elif tgt not in P.funcs and isinstance(c.func, ast.Attribute) and c.func.attr == short and all(x in T or x == q for x in same):
                    out.append((g, c))
        return out

    def tol_arg(q, c):
        fn = P.funcs[q]
        m, ok = bind_args(fn, c, bound_method=(fn.cls is not None and isinstance(c.func, ast.Attribute)))
        if not ok:
            return NotImplemented
        a = m.get(T[q])
        # only an argument written at the call counts (not the callee's default)
        return a if any(a is x for x in list(c.args) + [k.value for k in c.keywords]) else None
    changed = True
    while changed:
        changed = False
        for q in list(T):
            for g, c in sites(q):
                a = tol_arg(q, c)
                if isinstance(a, ast.Name) and a.id in g.params and g.qualname not in T and g.qualname in P.funcs:
                    T[g.qualname] = a.id
                    changed = True
    for q in sorted(T):
        fn = P.funcs[q]
        d = fn.defaults().get(T[q])
        o = ck.ob('C02-D2.toldefault', fn, '%s=%s' % (T[q], u(d) if d is not None else '<required>'), fn.node)
        (o.ok('default None: derived from the dtype of the values') if d is not None and const_value(d) is None else
         o.fail('the binning tolerance `%s` of %s defaults to %s: bin1d_vec adds it to every value before flooring, so every value closer '
                'than that below an edge is put into the bin above it (6.049995 with edges 5.95, 6.05, ...), and the same values binned '
                'through another entry point land elsewhere; the default must be None (round-off of the dtype)' % (T[q], fn.short, u(d) if d is not None else 'nothing')))
        for g, c in sites(q):
            a = tol_arg(q, c)
            if a is None:
                continue
            oo = ck.ob('C02-D2.tolarg', g, c, c)
            if a is NotImplemented:
                oo.unknown('cannot bind the arguments of `%s`' % u(c)[:60])
            elif (isinstance(a, ast.Name) and T.get(g.qualname) == a.id) or const_value(a) is None:
                oo.ok('forwards the caller\'s tolerance')
            else:
                oo.fail('`%s` fixes the binning tolerance to `%s` inside the package: values closer than that below an edge are counted one '
                        'bin higher here than by every other path that bins the same values with the dtype round-off' % (u(c)[:70], u(a)))


def strip_all_shape(e):
    """erase numpy.asarray(...) wrappers everywhere in an expression (bins = numpy.asarray(bins))"""
    from ..core.sym import clone

    def leaf(n):
        if isinstance(n, ast.Call) and call_name(n) in ('numpy.asarray', 'numpy.array') and n.args:
            return clone(n.args[0], leaf)
        return None
    return clone(e, leaf)


def _threshold(cond_poly, idx_atom, N):
    """Interpret an atom pos(d)/nonneg(d) with d = s*idx + rest as an integer half-line.
    Returns ('ge'|'le', rest poly) meaning idx >= T or idx <= T."""
    st = cond_poly.single_term()
    if st is None or st[1] != 1 or len(st[0]) != 1:
        return None
    a = st[0][0][0]
    if a[0] not in ('pos', 'nonneg'):
        return None
    d = a[1]
    lin, const, other = linear_coeffs(d)
    c = lin.get(idx_atom)
    if c not in (1, -1):
        return None
    rest = d - sym.Poly.atom(idx_atom).scale(c)
    one = sym.Poly.const(1)
    if c == 1:
        # idx + rest > 0  <=> idx >= -rest + 1 ; idx + rest >= 0 <=> idx >= -rest
        return ('ge', (-rest + one) if a[0] == 'pos' else -rest)
    # -idx + rest > 0 <=> idx <= rest - 1 ; >= 0 <=> idx <= rest
    return ('le', (rest - one) if a[0] == 'pos' else rest)


def _halflines(cond, idx_atom, N):
    """cond normal form -> list of half-lines (union), or None if not understood."""
    st = cond.single_term()
    if st is not None and st[1] == 1 and len(st[0]) == 1 and st[0][0][0][0] == 'or':
        out = []
        for part in st[0][0][0][1]:
            h = _threshold(part, idx_atom, N)
            if h is None:
                return None
            out.append(h)
        return out
    h = _threshold(cond, idx_atom, N)
    return [h] if h else None


def rule_range(ck):
    P = ck.prog
    f = P.func(BIN)
    ck.clause('D3')
    N = sym.Normalizer(env={})
    ex = expander(P, f)
    rets = [r for r in returns(f) if r.value is not None]
    # the floored array variable
    floors = calls_in(P, f, {'numpy.floor', 'math.floor'})
    if not floors:
        return
    st = stmt_of(floors[0])
    if not (isinstance(st, ast.Assign) and isinstance(st.targets[0], ast.Name)):
        raise Inconclusive('floor result is not assigned to a variable')
    var = st.targets[0].id
    idx_atom = ('n', var)
    nbins = N.nf('len(bins)')
    alt_n = [N.nf('len(bins)'), N.nf('bins.size'), N.nf('bins.shape[0]')]

    def as_n_offset(poly):
        for n in alt_n:
            d = poly - n
            if d.is_const():
                return d.const_value()
        return None
    stores = subscript_stores(f, var)
    closed, opened = [], []
    mode_param = None
    for stmt, tgt in stores:
        g = guards_of(stmt, f.node)
        mode = None
        for test, pol in g:
            while isinstance(test, ast.UnaryOp) and isinstance(test.op, ast.Not):
                test, pol = test.operand, not pol
            if isinstance(test, ast.Name) and test.id in f.params:
                mode = ('open' if pol else 'closed')
                mode_param = test.id
        (opened if mode == 'open' else closed if mode == 'closed' else closed).append((stmt, tgt, mode))
        if mode is None:
            closed_unguarded = True
    o = ck.ob('C02-D3.mode', f, 'range stores are selected by the open-ended flag', f.node)
    if mode_param != 'right_continuous' and mode_param is None:
        # one code path whose bounds / replacement values are chosen by the flag: read the stores per path, with the values the path
        # has bound substituted in
        synth_closed, synth_open = [], []
        try:
            pstores = path_stores(f, var)
        except Inconclusive:
            pstores = []
        for conds, env, sts in pstores:
            cd = dict(conds)
            rc_env = const_value(env['right_continuous']) if 'right_continuous' in env else NotImplemented
            if cd.get('right_continuous') is True or rc_env is True:
                tgt_list = synth_open
            elif cd.get('right_continuous') is False:
                tgt_list = synth_closed
            else:
                continue
            if tgt_list:
                continue          # one representative path per mode (the others differ in unrelated conditions)
            for sel, val, st_ in sts:
                syn = ast.Assign(targets=[ast.Subscript(value=ast.Name(id=var, ctx=ast.Load()), slice=sel, ctx=ast.Store())], value=val,
                                 lineno=st_.lineno, col_offset=0)
                syn._synthetic = True
                tgt_list.append((syn, syn.targets[0], 'path'))
        if synth_closed and synth_open:
            closed, opened = synth_closed, synth_open
            mode_param = 'right_continuous'
        else:
            o.fail('no range store is guarded by the right_continuous parameter')
            return
    o.ok('guarded by `%s`' % mode_param)

    exk = Expander(P, f, keep={var})

    def analyse(stmt, tgt):
        if isinstance(stmt, ast.AugAssign):
            return None, None
        if getattr(stmt, '_synthetic', False):
            return _halflines(N.nf(strip_all_shape(tgt.slice)), idx_atom, N), N.nf(strip_all_shape(stmt.value))
        cond = N.nf(strip_all_shape(exk.expand(tgt.slice)))
        val = N.nf(strip_all_shape(exk.expand(stmt.value)))
        return _halflines(cond, idx_atom, N), val

    # ---- closed mode: exactly {idx <= -1} U {idx >= N} -> -1
    o = ck.ob('C02-D3.closed', f, '; '.join(u(s) for s, _, _ in closed) or '<no store>', closed[0][0] if closed else f.node)
    lows, highs, probs = [], [], []
    for stmt, tgt, mode in closed:
        hl, val = analyse(stmt, tgt)
        if hl is None and any(w in u(tgt.slice) for w in ('isfinite', 'isnan', 'isinf')) and const_value(stmt.value) == -1:
            probs.append('`%s` reports every non-finite index as out of range before the open-ended clamp sees it: a value far above the last edge '
                         '(+inf, or a finite value whose quotient overflows) belongs to the last bin' % u(stmt))
            continue
        if hl is None:
            o.unknown('cannot interpret `%s` as integer half-lines' % u(stmt))
            break
        if not (val.is_const() and val.const_value() == -1):
            probs.append('`%s` stores %s, not the out-of-range sentinel -1' % (u(stmt), sym.show(val)))
        for kind, t in hl:
            (lows if kind == 'le' else highs).append(t)
    else:
        if len(lows) != 1 or not (lows[0].is_const() and lows[0].const_value() == -1):
            probs.append('values below the first edge: rejected set is idx <= %s, must be exactly idx <= -1 (idx < 0)'
                         % (', '.join(sym.show(x) for x in lows) or 'nothing'))
        offs = [as_n_offset(h) for h in highs]
        if len(highs) != 1 or offs[0] != 0:
            probs.append('values beyond the last edge: rejected set is idx >= %s, must be exactly idx >= len(bins)'
                         % (', '.join(sym.show(x) for x in highs) or 'nothing'))
        (o.fail('; '.join(probs)) if probs else o.ok('{idx<=-1} U {idx>=N} -> -1'))
    # ---- open mode
    o = ck.ob('C02-D3.open', f, '; '.join(u(s) for s, _, _ in opened) or '<no store>', opened[0][0] if opened else f.node)
    probs, low_ok, clamp_ok = [], False, False
    for stmt, tgt, mode in opened:
        hl, val = analyse(stmt, tgt)
        if hl is None or len(hl) != 1:
            o.unknown('cannot interpret `%s` as an integer half-line' % u(stmt))
            break
        kind, t = hl[0]
        if kind == 'le':
            if t.is_const() and t.const_value() == -1 and val.is_const() and val.const_value() == -1:
                low_ok = True
            else:
                probs.append('`%s`: below-range set idx <= %s -> %s (must be idx <= -1 -> -1)' % (u(stmt), sym.show(t), sym.show(val)))
        else:
            off, voff = as_n_offset(t), as_n_offset(val)
            if voff != -1:
                probs.append('`%s` clamps to %s, not to the last index len(bins)-1' % (u(stmt), sym.show(val)))
            elif off not in (-1, 0):
                probs.append('`%s` clamps every idx >= %s; only idx >= len(bins)-1 may be moved to the last bin' % (u(stmt), sym.show(t)))
            else:
                clamp_ok = True
    else:
        if not low_ok and not probs:
            probs.append('open mode does not map idx < 0 to -1')
        if not clamp_ok and not probs:
            probs.append('open mode does not clamp idx >= len(bins)-1 to the last bin')
        (o.fail('; '.join(probs)) if probs else o.ok('{idx<=-1} -> -1, {idx>=N-1} -> N-1'))
    # ---- the range tests see the floored quotient itself: a conversion to an integer type before them turns +inf and every quotient
    # beyond 2**63 into the most negative integer, which the lower test then reports as "below the first edge"
    o = ck.ob('C02-D3.castlast', f, 'the integer conversion comes after the range stores', f.node)
    cfg = f.cfg
    casts = []
    for a in find_assignments(f, var):
        if not isinstance(a, ast.Assign):
            continue
        for c in ast.walk(a.value):
            if isinstance(c, ast.Call):
                nm = (call_name(c) or (c.func.attr if isinstance(c.func, ast.Attribute) else ''))
                tail = nm.split('.')[-1]
                intish = lambda e_: e_ is not None and any(w in u(e_) for w in ('int', "'i8'", "'i4'", "'l'"))
                if (tail == 'astype' and c.args and intish(c.args[0])) or tail in ('int64', 'int32', 'intp', 'int_') or \
                        (tail in ('asarray', 'array') and intish(kw(c, 'dtype'))):
                    casts.append(a)
                    break
    stores_ = [s_ for s_, _, _ in closed + opened if not getattr(s_, '_synthetic', False)]
    early = [(c_, s_) for c_ in casts for s_ in stores_ if cfg.node_of(c_) is not None and cfg.node_of(s_) is not None
             and cfg.dominates(cfg.node_of(c_), cfg.node_of(s_))]
    (o.fail('`%s` converts the index to an integer type before `%s` tests its range: a value far above the last edge (+inf, 1e300) becomes '
            'the most negative integer and is reported as out of range (-1) instead of the last, open-ended bin' % (u(early[0][0])[:60], u(early[0][1])[:40]))
     if early else o.ok('%d conversion(s), none before a range store' % len(casts)))
    # ---- single-edge grid forces open mode and a positive spacing; negative spacing raises
    o = ck.ob('C02-D3.single', f, 'single-edge grid -> open-ended with positive spacing', f.node)
    found = False
    rc_any, hs_all = False, []
    # the spacing variable: whatever name receives the difference of the first two edges
    spacing_names = set()
    for n in all_nodes(f):
        if isinstance(n, ast.Assign) and len(n.targets) == 1 and isinstance(n.targets[0], ast.Name):
            try:
                if N.nf(n.value) == N.nf('bins[1] - bins[0]'):
                    spacing_names.add(n.targets[0].id)
            except Exception:
                pass
    if not spacing_names:
        spacing_names = {'h'}
    for n in all_nodes(f):
        if isinstance(n, ast.If):
            try:
                t = N.nf(n.test)
            except Exception:
                continue
            sizes = ('bins.size', 'len(bins)', 'bins.shape[0]')
            branch = None
            if any(t == N.nf('%s == 1' % z) for z in sizes):
                branch = n.body
            elif any(t in (N.nf('%s != 1' % z), N.nf('%s > 1' % z), N.nf('%s >= 2' % z)) for z in sizes):
                branch = n.orelse          # `if size != 1: ... else: <single edge>`
            if branch is not None:
                sets_rc = any(isinstance(s, ast.Assign) and isinstance(s.targets[0], ast.Name) and
                              s.targets[0].id == 'right_continuous' and is_true(s.value) for s in branch)
                hs = [s for s in branch if isinstance(s, ast.Assign) and isinstance(s.targets[0], ast.Name)
                      and s.targets[0].id in spacing_names]
                found = True
                rc_any = rc_any or sets_rc
                hs_all.extend(hs)
    if found:
        # the two bindings may stand in one branch or in two consecutive `if size == 1:` statements
        hpos = bool(hs_all) and all((const_value(s.value) is not NotImplemented and const_value(s.value) > 0) for s in hs_all)
        if rc_any and hpos:
            o.ok('bins.size == 1 -> right_continuous=True, h>0')
        else:
            o.fail('the single-edge branch does not force open-ended mode with a positive spacing '
                   '(right_continuous=True: %s, positive h: %s)' % (rc_any, hpos))
    if o.status == 'violated' or not found:
        # the same fact read along the paths: wherever the size test says "one edge", the flag ends up True and the spacing a positive
        # constant - however many statements lie between the test and the two bindings
        try:
            pst = path_stores(f, var)
        except Inconclusive:
            pst = []
        sizes = ('bins.size', 'len(bins)', 'bins.shape[0]')
        single_paths = []
        for conds, env, sts in pst:
            for lit, pol in conds:
                lit = lit.replace('numpy.asarray(bins)', 'bins').replace('numpy.array(bins)', 'bins')
                try:
                    t = N.nf(lit if pol else 'not (%s)' % lit)
                except Exception:
                    continue
                if any(t == N.nf('%s == 1' % z) for z in sizes):
                    single_paths.append(env)
        if single_paths:
            good = all(const_value(e_.get('right_continuous', ast.Name(id='right_continuous', ctx=ast.Load()))) is True and
                       any(isinstance(const_value(e_.get(h_)), (int, float)) and const_value(e_.get(h_)) > 0 for h_ in spacing_names if h_ in e_)
                       for e_ in single_paths)
            if good:
                o.status, o.detail = 'discharged', 'on every single-edge path right_continuous is True and the spacing a positive constant'
                found = True
    if not found:
        o.fail('no branch handles a single-edge grid (bins[1] does not exist; open-ended mode must be forced)')
    o = ck.ob('C02-D3.neg', f, 'negative spacing raises ValueError', f.node)
    ok = False
    for n in all_nodes(f):
        if isinstance(n, ast.If) and any(isinstance(s, ast.Raise) for s in n.body):
            t = N.nf(n.test)
            if any(t in (N.nf('%s < 0' % h_), N.nf('%s <= 0' % h_)) for h_ in spacing_names):
                ok = True
    (o.ok('h < 0 raises') if ok else o.fail('a decreasing edge grid (h < 0) is no longer rejected'))


def classify_edges(prog, f, call):
    """'mag' | 'coord' | 'forward' for the edge argument of a bin1d_vec call."""
    ex = expander(prog, f)
    bins = kw(call, 'bins', 1)
    if bins is None:
        return None, None
    e = ex.expand(bins)
    r = role_of(e) | role_of(bins)
    if 'mag' in r:
        return 'mag', e
    if r & {'lon', 'lat'}:
        return 'coord', e
    se = strip_shape(e)
    if isinstance(se, ast.Name) and getattr(se, '_param', False):
        return 'forward', e
    return None, e


def rule_callsites(ck):
    P = ck.prog
    ck.clause('D4')
    sites = ck.cg.call_sites_of(BIN)
    n = {'mag': 0, 'coord': 0, 'forward': 0}
    for f, call in sorted(sites, key=lambda x: (x[0].qualname, x[1].lineno)):
        if f.module.name in ('csep.utils.plots',):
            continue
        role, e = classify_edges(P, f, call)
        rc = kw(call, 'right_continuous', 3)
        tol = kw(call, 'tol', 2)
        if role is None:
            ck.note('C02-D4: %s `%s` bins generic edges (neither magnitude nor coordinate vocabulary): no obligation'
                    % (f.loc(call), u(call)[:70]))
            continue
        # the kernel takes its round-off tolerance from the dtype of the points it is given: the stored values go in as they are
        # stored - a conversion on the way (float32 magnitudes up-cast to float64, `astype`, `float(...)`) bins 4.1f with the
        # tolerance of a double and drops it one bin below the edge it sits on
        pts = kw(call, 'p', 0)
        if pts is not None and role in ('mag', 'coord'):
            pe = expander(P, f).expand(pts)
            conv = None
            for x in ast.walk(pe):
                if isinstance(x, ast.Call):
                    nm = call_name(x) or ''
                    if (nm in ('numpy.ascontiguousarray', 'numpy.asarray', 'numpy.array', 'numpy.asanyarray', 'numpy.asfarray', 'numpy.require') and kw(x, 'dtype', 1) is not None) \
                            or (isinstance(x.func, ast.Attribute) and x.func.attr == 'astype') \
                            or nm in ('numpy.float64', 'numpy.float32', 'numpy.double', 'numpy.float_', 'builtins.float', 'numpy.float16'):
                        conv = x
            oo = ck.ob('C02-D4.asstored', f, pts, call)
            (oo.fail('the values binned here went through `%s`: bin1d_vec derives its tolerance from the dtype it is handed, so single-precision '
                     'values converted to another type are binned with the wrong tolerance (a float32 4.1 lies 1e-7 below the edge 4.1 and '
                     'falls into the bin below it)' % u(conv)[:80]) if conv is not None else oo.ok('handed to the kernel in their stored type'))
        o = ck.ob('C02-D4.' + role, f, call, call)
        if role == 'mag':
            n['mag'] += 1
            if rc is not None and is_true(rc):
                o.ok('magnitude edges, right_continuous=True')
            elif rc is not None and isinstance(rc, ast.Name) and rc.id in f.params:
                o.ok('forwards the caller\'s flag')
            else:
                o.fail('magnitude edges `%s` are binned without right_continuous=True: events at or above the last '
                       'magnitude edge are reported out of range instead of going to the open last bin' % u(e)[:60])
        elif role == 'coord':
            n['coord'] += 1
            if rc is not None and not (isinstance(rc, ast.Constant) and rc.value is False):
                o.fail('coordinate edges are binned with right_continuous=%s: points beyond the bounding box would '
                       'be attributed to the last row/column' % u(rc))
            elif tol is not None and not (isinstance(tol, ast.Constant) and tol.value is None):
                o.fail('coordinate edges are binned with an explicit tol=%s' % u(tol))
            else:
                o.ok('coordinate edges, closed mode')
        elif role == 'forward':
            n['forward'] += 1
            o.ok('forwards caller-supplied edges')
        else:
            o.unknown('cannot tell whether `%s` are magnitude or coordinate edges' % u(call)[:80])
    ck.extra['callsite_roles'] = n
    # the functions that bin magnitudes / coordinates for the observers do so through the kernel, and nothing in the data
    # classes re-implements binning next to it (a sibling built on searchsorted / digitize has its own edge convention)
    REQUIRED = ['csep.core.catalogs.AbstractBaseCatalog.magnitude_counts', 'csep.core.catalogs.AbstractBaseCatalog.spatial_magnitude_counts',
                'csep.core.catalogs.AbstractBaseCatalog.get_mag_idx', 'csep.core.forecasts.MarkedGriddedDataSet.get_magnitude_index',
                'csep.core.regions._bin_coordinates']
    for q in REQUIRED:
        f = P.func(q)
        o = ck.ob('C02-D4.kernel', f, 'bins through bin1d_vec', f.node)
        has = any(g is f for g, c in sites)
        (o.ok() if has else o.fail('%s no longer bins through csep.utils.calc.bin1d_vec: lower-inclusive edges, the round-off tolerance and '
                                   'the open last bin are properties of that kernel only' % f.short))
    for f in P.funcs_in('csep.core.catalogs') + P.funcs_in('csep.core.forecasts'):
        ex = None
        for c in all_nodes(f):
            if isinstance(c, ast.Call) and callee(P, f, c) in ('numpy.searchsorted', 'numpy.digitize', 'numpy.histogram', 'numpy.histogram2d'):
                ex = ex or expander(P, f)
                edges = c.args[0] if callee(P, f, c) == 'numpy.searchsorted' and c.args else (c.args[1] if len(c.args) > 1 else kw(c, 'bins'))
                r = (role_of(ex.expand(edges)) | role_of(edges)) if edges is not None else set()
                if r & {'mag', 'lon', 'lat'}:
                    ck.ob('C02-D4.sibling', f, c, c).fail('`%s` bins %s edges beside bin1d_vec: a second implementation with its own edge and '
                                                          'tolerance convention' % (u(c)[:70], '/'.join(sorted(r & {'mag', 'lon', 'lat'}))))


def rule_generators(ck):
    P = ck.prog
    ck.clause('D5')
    f = P.func('csep.utils.calc.cleaner_range')
    ex = expander(P, f, depth=1, filt=lambda g: g.node.name != '_snap_to_integer' and 'snap' not in g.node.name)
    rets = [r for r in returns(f) if r.value is not None]
    if len(rets) != 1:
        raise Inconclusive('cleaner_range has %d returns' % len(rets))
    e = ex.expand(rets[0].value)
    o = ck.ob('C02-D5.form', f, rets[0].value, rets[0])
    if not (isinstance(e, ast.BinOp) and isinstance(e.op, ast.Div) and isinstance(e.left, ast.Call)
            and call_name(e.left) == 'numpy.arange' and len(e.left.args) == 3):
        o.fail('edges are `%s`, not numpy.arange(a, b, d) / scale on an integer grid: accumulated or float-stepped '
               'edges drift from the decimal grid' % u(rets[0].value))
        return
    a, b, d = e.left.args
    scale = e.right
    N = sym.Normalizer()
    start, end, h = f.positional_params[:3]
    # the nodes are computed in floating point: the scaled step is whole only when the step has no more decimals than the scale covers,
    # and an integer dtype makes numpy truncate the first two nodes and step by their difference (5.0, 5.25 -> 50, 52 -> 5.0, 5.2, ...)
    dt = kw(e.left, 'dtype', 3)
    dtxt = (call_name(dt) if isinstance(dt, ast.Call) else u(dt)) if dt is not None else None
    if dt is not None and not (dtxt in ('float', 'builtins.float', 'numpy.float64', 'numpy.double', "'float64'", "'f8'", "'d'", 'None')):
        o.fail('the integer grid is built with dtype=%s: numpy.arange then truncates start and start+step to that type and uses their '
               'difference as the step, so a step with more decimals than the scale covers (5.0 with 0.25: scaled step 2.5) silently '
               'becomes another spacing with the same number of edges' % dtxt)
    else:
        o.ok('arange(a, b, d) / scale')

    def rounded_scaled(x, param, what):
        oo = ck.ob('C02-D5.' + what, f, x, rets[0])
        s = strip_shape(x)
        if isinstance(s, ast.Call) and call_name(s) in ('numpy.round', 'numpy.rint', 'numpy.around', 'builtins.round') \
                and len(s.args) == 1:
            inner = N.nf(s.args[0])
            want = N.nf(scale) * N.nf(ast.Name(id=param, ctx=ast.Load()))
            if inner == want:
                oo.ok('round(scale * %s)' % param)
            else:
                oo.fail('%s of the integer grid is round(%s), expected round(scale*%s) with the scale that divides '
                        'the result' % (what, sym.show(inner), param))
        else:
            oo.fail('%s of the integer grid is `%s`: it must be rounded to the nearest integer (numpy.round / rint) '
                    'from scale*%s - floor/ceil/int/no rounding shift or lose an edge' % (what, u(x)[:80], param))
    rounded_scaled(a, start, 'start')
    # stop = round(scale*end) + c*d, 0 < c <= 1
    oo = ck.ob('C02-D5.stop', f, b, rets[0])
    dn = N.nf(d)
    bn = N.nf(b)
    found = None
    if isinstance(b, ast.BinOp) and isinstance(b.op, ast.Add):
        for base, extra in ((b.left, b.right), (b.right, b.left)):
            ratio = N.nf(extra) * sym.power(dn, -1)
            if ratio.is_const():
                found = (base, ratio.const_value())
                break
    if found is None:
        s = strip_shape(b)
        if isinstance(s, ast.Call) and call_name(s) in ('numpy.round', 'numpy.rint', 'numpy.around', 'builtins.round'):
            oo.fail('stop of arange is round(scale*end) itself: arange excludes its stop, so the last edge `end` is lost')
        else:
            oo.unknown('cannot read the stop `%s` as round(scale*end) + c*d' % u(b)[:80])
    else:
        base, c = found
        if 0 < c <= 1:
            oo.ok('stop = base + %s*d' % c)
            rounded_scaled(base, end, 'end')
        else:
            oo.fail('stop exceeds the last edge by %s*d; only 0 < c <= 1 yields exactly the edges start..end' % c)
    # step derives from scale*h
    oo = ck.ob('C02-D5.step', f, d, rets[0])
    dtxt = N.nf(d)
    want = N.nf(scale) * N.nf(ast.Name(id=h, ctx=ast.Load()))
    ok = dtxt == want
    why = 'the step `%s` is not scale*h (optionally snapped)' % u(d)[:80]
    if not ok:
        # snapped: a call of a package function that returns its argument unchanged unless it is an integer up to noise
        s = strip_shape(d)
        if isinstance(s, ast.Call) and s.args and N.nf(s.args[0]) == want:
            cn = call_name(s)
            if cn in P.funcs:
                sf = P.funcs[cn]
                keeps = any(isinstance(r.value, ast.Name) and r.value.id == sf.positional_params[0] for r in returns(sf) if r.value is not None)
                if keeps:
                    ok = True
                else:
                    why = 'the step goes through %s, which never returns its argument unchanged' % sf.short
            else:
                why = ('the step is `%s`: rounding scale*h to an integer destroys legitimate non-integer grid steps (start 5.0, step 0.25: '
                       'scale*h = 2.5 becomes 2, edges 5.0, 5.2, 5.4, ...); only a snap that leaves non-integers alone is admissible' % u(d)[:60])
    (oo.ok('d = [snap](scale*h)') if ok else oo.fail(why))
    # the power-of-ten scale must cover the decimals of the start AND of the step, otherwise scale*start / scale*h are not integers
    oo = ck.ob('C02-D5.decimals', f, 'power-of-ten scale covers the decimals of start and step', rets[0])
    pows = [n for n in ast.walk(scale) if isinstance(n, ast.BinOp) and isinstance(n.op, ast.Pow) and const_value(n.left) == 10]
    if not pows:
        oo.unknown('no power-of-ten scale found in `%s`' % u(scale)[:80])
    else:
        names = {n.id for p_ in pows for n in ast.walk(p_.right) if isinstance(n, ast.Name) and getattr(n, '_param', False)}
        if h in names and start in names:
            oo.ok('decimal places of start and step')
        else:
            oo.fail('the power-of-ten scale `%s` is derived from the decimals of %s only; a step with more decimals whose reciprocal is not '
                    'an integer (start 5.0, step 0.07: scale = 1/0.07 = 14.2857) makes scale*start a non-integer, so the generated edges '
                    '(4.97, 5.04, ...) are not the decimal grid start + k*step' % (u(pows[0])[:60], sorted(names) or 'nothing'))
    # the decimals of start are read off a text that always shows one (str(5.0) = '5.0'): the grid is at least tenths, which is what keeps
    # an integer-valued start with a step of 0.3 / 0.4 / 0.6 on it.  A text without the trailing zero ('5') gives a scale of 1/h there.
    if pows and not (h in names and start in names):
        oo = ck.ob('C02-D5.tenths', f, 'an integer-valued start still counts one decimal', rets[0])
        txt = u(pows[0].right)
        zero = [w for w in ("trim='-'", "trim='0'", "rstrip('0')", "rstrip('.0')", "rstrip('0.')", ':g}', "'%g'", '.normalize()', 'is_integer()') if w in txt.replace('"', "'")]
        (oo.fail('the number of decimals of start is read from `%s`, which is 0 for an integer-valued start (%s): with a step whose reciprocal is '
                 'no integer (start 5, step 0.4) the scale is 1/0.4 = 2.5 and the edges come out as 4.8, 5.2, ... instead of 5.0, 5.4, ...'
                 % (txt[:80], zero[0])) if zero else oo.ok('no form that drops the trailing zero'))
    # the steps-per-unit part of the scale: 1/h, at most snapped / rounded to the nearest integer - never truncated
    oo = ck.ob('C02-D5.scale', f, scale, rets[0])
    trunc = []
    for n in ast.walk(scale):
        uses_h = any(isinstance(x, ast.Name) and x.id == h and getattr(x, '_param', False) for x in ast.walk(n))
        if not uses_h:
            continue
        if isinstance(n, ast.BinOp) and isinstance(n.op, (ast.FloorDiv, ast.Mod)):
            trunc.append(n)
        elif isinstance(n, ast.Call) and (call_name(n) or '') in ('numpy.floor', 'numpy.ceil', 'numpy.trunc', 'builtins.int', 'math.floor', 'math.ceil',
                                                                   'math.trunc', 'numpy.fix', 'numpy.floor_divide', 'builtins.divmod'):
            trunc.append(n)
        elif isinstance(n, ast.Call) and isinstance(n.func, ast.Attribute) and n.func.attr == 'astype':
            trunc.append(n)
    (oo.fail('the scale takes `%s`: the reciprocal of a decimal step is not an exact float (1/0.05 = 20.000000000000004, 1//0.05 = 19.0), so '
             'truncating it loses one - the scale is 19 (49, 99), scale*h is no integer and the edges leave the decimal grid '
             '(magnitude_bins(5.0, 9.0, 0.05) ends at 9.000000000000012); the reciprocal may only be rounded / snapped to the nearest integer'
             % u(trunc[0])[:60]) if trunc else oo.ok('no truncation of the reciprocal step'))
    # the scale must make BOTH scale*start and scale*h integers: where it combines the power of ten with the steps per unit it takes the
    # larger of the two (for decimal steps the larger is a multiple of the smaller); the smaller one covers only one of them
    mins = [n for n in ast.walk(scale) if isinstance(n, ast.Call) and (call_name(n) or '').split('.')[-1] in ('min', 'minimum', 'amin', 'fmin')
            and any(isinstance(x, ast.BinOp) and isinstance(x.op, ast.Pow) and const_value(x.left) == 10 for x in ast.walk(n))]
    if pows:
        oo = ck.ob('C02-D5.larger', f, 'the scale is the larger of the power of ten and the steps per unit', rets[0])
        (oo.fail('the scale is `%s`: the smaller of the two factors leaves scale*start or scale*h a non-integer (start 5.95, step 0.1: scale 10, '
                 'start 59.5 rounds to 60, all edges shift by 0.05)' % u(mins[0])[:70]) if mins else oo.ok('no minimum of the two factors'))
    # magnitude_bins forwards (start, end, dmw) in order
    g = P.func('csep.core.regions.magnitude_bins')
    rets = [r for r in returns(g) if r.value is not None]
    oo = ck.ob('C02-D5.magbins', g, rets[0].value if rets else 'return', rets[0] if rets else g.node)
    ok = False
    why = ''
    if len(rets) == 1 and isinstance(rets[0].value, ast.Call) and callee(P, g, rets[0].value) == f.qualname:
        m, good = bind_args(f, rets[0].value)
        ps = g.positional_params
        ok = good and all(isinstance(m.get(q), ast.Name) and m[q].id == p for p, q in zip(ps, f.positional_params[:3]))
        # unchanged: a parameter may only be rebound where it was not given (a None test), never by truthiness - 0.0 is a magnitude
        why = ''
        Nn = sym.Normalizer(env={})
        for p in ps[:3]:
            for a in find_assignments(g, p):
                none_guard = any(pol and is_none_test(t, p) for t, pol in guards_of(a, g.node))
                v = a.value if isinstance(a, ast.Assign) else None
                if isinstance(v, ast.IfExp):
                    keep, other = (v.orelse, True) if is_none_test(v.test, p) else ((v.body, True) if is_none_test(ast.UnaryOp(op=ast.Not(), operand=v.test), p) else (None, False))
                    if other and isinstance(keep, ast.Name) and keep.id == p:
                        continue
                if none_guard:
                    continue
                ok = False
                why = '; `%s` rebinds the argument without testing it against None (a start or end magnitude of 0.0 is a value, not a missing argument)' % u(a)[:80]
    (oo.ok('cleaner_range(start, end, step)') if ok else
     oo.fail('magnitude_bins does not forward (start, end, step) unchanged and in order to cleaner_range' + why))


def rule_pure(ck):
    from . import c03
    ck.clause('D4 (shared C03-D6: bin indices are recomputed, never memoised)')
    c03.rule_pure_gridding(ck)


def rule_own_magnitudes_shared(ck):
    from . import c11
    ck.clause('shared C11-D5: a forecast bins magnitudes with its own edges')
    c11.rule_own_magnitudes(ck)


def rule_precision(ck):
    """C02-D1.double: coordinates, bounds and edges stay in the precision they were supplied in - no conversion to a narrower numeric type
    (a bound rounded to float32 moves by up to 4e-6 degrees, so points next to it change owner)"""
    from .common import rule_double_precision
    ck.clause('D1')
    rule_double_precision(ck, 'C02-D1.double', modules=('csep.utils.calc',), what='values and bin edges')


def rule_out_of_range_reported(ck):
    """a value below the first edge is *reported* (-1) and stays reported: where the magnitude index is used, the -1 never becomes a
    position in an array (shared C03-D1 sentinel flow / C03-D5 rejection) - `out[unique(idx)] = counts` with a -1 among the indices
    books the event on the last bin"""
    from . import c03
    ck.clause('D3 (shared C03-D1/D5: the out-of-range report is never used as an index)')
    c03.rule_mag_sentinel(ck)
    c03.rule_accumulation(ck)
    # ... and the forecast-side observer refuses a magnitude below its first edge instead of handing the -1 on (shared C11-D3)
    from . import c11
    ck.clause('D3 (shared C11-D3: get_magnitude_index raises for a magnitude below the first edge)')
    c11.rule_lookup(ck)


RULES = [rule_kernel, rule_tolerance, rule_tolerance_flow, rule_range, rule_callsites, rule_generators, rule_pure, rule_own_magnitudes_shared, rule_precision, rule_out_of_range_reported]
