"""C20 - evaluation outcomes do not depend on storage order."""
import ast

from ..core import sym
from ..core.expand import u, call_name, get_arg, bind_args, Expander, is_marker, phi_alternatives
from ..core.loader import Inconclusive, const_value, parents
from .common import (returns, all_nodes, callee, strip_shape, calls_in, guards_of, stmt_of, kw, find_assignments, in_loop, loops_around)

EXPLANATION = (
    "Decided: D1 commutative updates: every write into a count / flag array is numpy.add.at(., 1), a scalar += 1 in "
    "the per-event loop or a constant store, so gridded counts are invariant under any event order (shared C03-D2); "
    "D2 equivariance typing of the evaluation kernels: per-event vectors (target-event rates, their logs and "
    "differences) flow only through element-wise operations and full reductions (sum, len, min/max, rankdata with a "
    "tie method that ignores positions); a positional subscript, slice, cumsum, diff, argsort or position-based "
    "ranking (method='ordinal') of such a vector marks the kernel order-dependent; the loops over synthetic catalogs "
    "only append to / accumulate into order-free containers whose consumers (get_quantiles, sums) read them as "
    "multisets; D3 cell order: the index map is built from polygon order and a forecast file's cells, flags, "
    "magnitudes and rates are all kept in file order (shared C11-D2, ORDER domain); D4 the gridded / simulation-based "
    "tests read the observed catalog only through its gridded counts, size, name and region, so re-ordering its "
    "events cannot reach the simulations. NOT decided: 'to rounding' for float sums under permutation. "
    "Also decided (round 5): shared C09-D1/D2 - the quantile reads the test distribution through its sorted form only.")
CLAUSES = {'D1': 'commutative updates', 'D2': 'equivariance of per-event vectors', 'D3': 'cell order', 'D4': 'observation enters through gridded counts only'}
TRUSTED = ['CPython ast', 'numpy reductions are permutation-invariant up to rounding', 'scipy.stats.rankdata average/min/max/dense ranks ignore positions; ordinal does not']
PE, BE, BR, CE = 'csep.core.poisson_evaluations.', 'csep.core.binomial_evaluations.', 'csep.core.brier_evaluations.', 'csep.core.catalog_evaluations.'
ROOTS = [PE + n for n in ('paired_t_test', 'w_test', 'number_test', 'conditional_likelihood_test', 'magnitude_test', 'spatial_test', 'likelihood_test')] + \
        [BE + n for n in ('negative_binomial_number_test', 'binary_spatial_test', 'binary_conditional_likelihood_test', 'binary_paired_t_test')] + \
        [BR + 'brier_score_test'] + [CE + n for n in ('number_test', 'spatial_test', 'magnitude_test', 'pseudolikelihood_test', 'resampled_magnitude_test', 'MLL_magnitude_test')]
TECHNIQUE = 'static analysis: equivariance typing (per-event vector / scalar) of kernel dataflow, update-form rule, ORDER domain for file cells'

REDUCERS = {'numpy.sum', '.sum', 'builtins.sum', 'builtins.len', 'numpy.mean', '.mean', 'numpy.min', 'numpy.max', '.min', '.max', 'numpy.size',
            'numpy.prod', 'numpy.std', 'numpy.var', 'numpy.count_nonzero', 'numpy.any', 'numpy.all', 'numpy.median', 'math.fsum', 'numpy.nansum'}
ELEMENTWISE = {'numpy.log', 'numpy.log10', 'numpy.exp', 'numpy.power', 'numpy.square', 'numpy.sqrt', 'numpy.abs', 'builtins.abs', 'numpy.absolute',
               'numpy.not_equal', 'numpy.equal', 'numpy.compress', '.ravel', '.flatten', 'numpy.asarray', 'numpy.array', '.astype', 'numpy.copy',
               'numpy.greater', 'numpy.less', 'numpy.multiply', 'numpy.subtract', 'numpy.add', 'numpy.divide', 'numpy.negative', '.copy'}
ORDER_DEP = {'numpy.cumsum', '.cumsum', 'numpy.diff', 'numpy.argsort', '.argsort', 'numpy.argmax', 'numpy.argmin', '.argmax', '.argmin',
             'numpy.cumprod', 'numpy.ediff1d', 'numpy.gradient', 'numpy.searchsorted', 'numpy.roll', 'numpy.convolve', 'numpy.correlate'}
KERNELS = [(PE + '_t_test_ndarray', (0, 1)), (BE + 'matrix_binary_t_test', (0, 1)), (PE + '_w_test_ndarray', (0,))]


def rule_updates(ck):
    from . import c03
    ck.clause('D1 (shared C03-D2)')
    c03.rule_accumulation(ck)


def _vector_names(P, f, seeds):
    """names holding per-event vectors: the seed parameters and everything derived from them without a reduction"""
    vec = set(seeds)
    changed = True
    def is_vec(e):
        if isinstance(e, ast.Name):
            return e.id in vec
        if isinstance(e, ast.Call):
            nm = callee(P, f, e) or ''
            if nm in REDUCERS or (isinstance(e.func, ast.Attribute) and '.' + e.func.attr in REDUCERS):
                return False
            if nm == 'builtins.min' or nm == 'builtins.max':
                return False
            args = list(e.args) + [k.value for k in e.keywords]
            if isinstance(e.func, ast.Attribute):
                args.append(e.func.value)
            return any(is_vec(a) for a in args)
        if isinstance(e, (ast.BinOp,)):
            return is_vec(e.left) or is_vec(e.right)
        if isinstance(e, ast.UnaryOp):
            return is_vec(e.operand)
        if isinstance(e, ast.Compare):
            return is_vec(e.left) or any(is_vec(c) for c in e.comparators)
        if isinstance(e, ast.Subscript):
            return is_vec(e.value)
        if isinstance(e, (ast.Tuple, ast.List)):
            return any(is_vec(x) for x in e.elts)
        if isinstance(e, ast.Attribute):
            return is_vec(e.value) and e.attr in ('T', 'real')
        return False
    while changed:
        changed = False
        for n in all_nodes(f):
            if isinstance(n, ast.Assign) and is_vec(n.value):
                for t in n.targets:
                    for x in ast.walk(t):
                        if isinstance(x, ast.Name) and x.id not in vec:
                            # tuple unpacking of a non-vector call result (e.g. unique counts) still counts as derived
                            vec.add(x.id)
                            changed = True
    return vec, is_vec


def rule_equivariance(ck):
    P = ck.prog
    ck.clause('D2')
    for q, idxs in KERNELS:
        f = P.func(q)
        seeds = [f.positional_params[i] for i in idxs]
        vec, is_vec = _vector_names(P, f, seeds)
        n_uses = 0
        bad_any = False
        for n in all_nodes(f):
            # positional subscripts of a per-event vector
            if isinstance(n, ast.Subscript) and is_vec(n.value) and isinstance(n.ctx, ast.Load):
                sl = n.slice
                positional = isinstance(sl, ast.Slice) or const_value(sl) is not NotImplemented or \
                    (isinstance(sl, ast.Tuple) and any(isinstance(x, ast.Slice) or const_value(x) is not NotImplemented for x in sl.elts))
                # boolean-mask selection (mask itself derived from the vector) is element-wise
                if not positional and is_vec(sl):
                    continue
                # numpy.unique(v, return_counts=True)[k] selects a component of the (values, counts) pair, not an element
                if isinstance(n.value, ast.Call) and (callee(P, f, n.value) or '') == 'numpy.unique' and isinstance(const_value(sl), int) \
                        and [k_.arg for k_ in n.value.keywords if const_value(k_.value) is True] == ['return_counts'] and len(n.value.args) == 1:
                    continue
                n_uses += 1
                o = ck.ob('C20-D2.positional', f, n, n)
                if positional:
                    bad_any = True
                    o.fail('`%s` picks elements of a per-event vector by position: the result depends on the order in which the observed '
                           'events are stored' % u(n))
                else:
                    o.ok('not positional')
            if isinstance(n, ast.Call):
                nm = callee(P, f, n) or ''
                args = list(n.args) + ([n.func.value] if isinstance(n.func, ast.Attribute) else [])
                def canonical(a):
                    # a sorted copy is the same array whatever order the events are stored in
                    if isinstance(a, ast.Call):
                        return (callee(P, f, a) or '') in ('numpy.sort', 'builtins.sorted', 'numpy.unique')
                    if isinstance(a, ast.Name):
                        defs = find_assignments(f, a.id)
                        return bool(defs) and all(isinstance(d_, ast.Assign) and canonical(d_.value) for d_ in defs)
                    return False
                if nm in ORDER_DEP and any(is_vec(a) and not canonical(a) for a in args):
                    n_uses += 1
                    bad_any = True
                    ck.ob('C20-D2.orderdep', f, n, n).fail('`%s` applies an order-dependent operation to a per-event vector' % u(n)[:70])
                if nm == 'scipy.stats.rankdata' and any(is_vec(a) for a in args):
                    n_uses += 1
                    o = ck.ob('C20-D2.rank', f, n, n)
                    m = kw(n, 'method', 1)
                    mv = const_value(m) if m is not None else 'average'
                    if mv in ('average', 'min', 'max', 'dense'):
                        o.ok("tie method '%s' ignores positions" % mv)
                    else:
                        bad_any = True
                        o.fail("rankdata(method=%r) breaks ties by position in the array: tied |differences| of opposite sign get ranks that "
                               "depend on the storage order of the observed events, so the W statistic changes under a permutation" % mv)
                if nm in ('numpy.sort', 'builtins.sorted', '.sort') and any(is_vec(a) for a in args):
                    n_uses += 1
                    ck.ob('C20-D2.sort', f, n, n).ok('sorting yields an order-free multiset')
            if isinstance(n, (ast.For,)) and is_vec(n.iter):
                n_uses += 1
                ck.ob('C20-D2.loop', f, n.iter, n).unknown('explicit loop over a per-event vector; cannot type the body')
        o = ck.ob('C20-D2.kernel', f, 'per-event vectors %s reach the result through element-wise operations and reductions only' % sorted(seeds), f.node)
        (o.ok('%d vector-valued names typed, no order-dependent use' % len(vec)) if not bad_any else o.fail('order-dependent use of a per-event vector (see above)'))
    # public T / W: per-event vectors come from target_event_rates and are only logged / subtracted / ravelled
    for q in (PE + 'paired_t_test', PE + 'w_test', BE + 'binary_paired_t_test'):
        f = P.func(q)
        seeds = []
        for n in all_nodes(f):
            if isinstance(n, ast.Assign) and isinstance(n.value, ast.Call) and isinstance(n.value.func, ast.Attribute) and n.value.func.attr == 'target_event_rates' \
                    and isinstance(n.targets[0], ast.Tuple):
                seeds.append(n.targets[0].elts[0].id)
        vec, is_vec = _vector_names(P, f, seeds)
        bad = []
        for n in all_nodes(f):
            if isinstance(n, ast.Subscript) and is_vec(n.value) and isinstance(n.ctx, ast.Load) and (isinstance(n.slice, ast.Slice) or isinstance(const_value(n.slice), int)):
                bad.append(n)
            if isinstance(n, ast.Call) and (callee(P, f, n) or '') in ORDER_DEP and any(is_vec(a) for a in n.args):
                bad.append(n)
        o = ck.ob('C20-D2.public', f, 'target-event rates used order-free', f.node)
        (o.fail('`%s` uses the per-event rates positionally' % u(bad[0])) if bad else o.ok('%d per-event names' % len(vec)))
    # forecasts.get_rates / target_event_rates are element-wise lookups
    g = P.func('csep.core.forecasts.GriddedForecast.get_rates')
    o = ck.ob('C20-D2.lookup', g, 'rates[idx, idm] is an element-wise lookup', g.node)
    bad = [n for n in all_nodes(g) if isinstance(n, ast.Call) and (callee(P, g, n) or '') in ORDER_DEP | {'numpy.sort', 'numpy.unique'}]
    (o.fail('get_rates reorders / deduplicates (`%s`)' % u(bad[0])) if bad else o.ok())
    # distribution lists in catalog evaluations: append only, consumed by get_quantiles / sums
    for name in ('number_test', 'spatial_test', 'magnitude_test', 'pseudolikelihood_test', 'resampled_magnitude_test', 'MLL_magnitude_test'):
        f = P.func(CE + name)
        lists = {a.targets[0].id for a in all_nodes(f) if isinstance(a, ast.Assign) and isinstance(a.targets[0], ast.Name) and u(a.value) == '[]'}
        for l in sorted(lists):
            uses = [n for n in all_nodes(f) if isinstance(n, ast.Name) and n.id == l and isinstance(n.ctx, ast.Load)]
            o = ck.ob('C20-D2.multiset', f, l, f.node)
            bad = []
            for x in uses:
                p = getattr(x, '_parent', None)
                if isinstance(p, ast.Attribute) and p.attr in ('append', 'extend'):
                    continue
                if isinstance(p, ast.Subscript) and p.value is x and not (isinstance(p.slice, ast.UnaryOp) or 'isnan' in u(p.slice)):
                    bad.append(p)
                if isinstance(p, ast.Attribute) and p.attr in ('insert', 'pop', 'sort', 'reverse', 'index'):
                    bad.append(p)
            (o.fail('the distribution list `%s` is used positionally (`%s`): results depend on the order of the synthetic catalogs' % (l, u(bad[0]))) if bad else
             o.ok('append-only, consumed as a multiset'))
        # accumulators over catalogs are += (commutative)
        for lp in [n for n in all_nodes(f) if isinstance(n, ast.For) and 'forecast' in u(n.iter)]:
            for st in ast.walk(lp):
                if isinstance(st, ast.Assign) and isinstance(st.targets[0], ast.Name) and st.targets[0].id.endswith('histogram') and 'union' in st.targets[0].id.lower() or \
                        (isinstance(st, ast.Assign) and isinstance(st.targets[0], ast.Name) and st.targets[0].id in ('Lambda_u_histogram', 'union_histogram')):
                    ck.ob('C20-D2.accum', f, st, st).fail('the union histogram is assigned (last catalog wins) instead of accumulated with +=')


def rule_cells(ck):
    P = ck.prog
    from . import c11
    ck.clause('D3 (shared C11-D2)')
    c11.rule_schema(ck)
    # quadtree layouts: the file loader keeps cell k <-> rate row k, and the point lookup has a unique owner per point -
    # with overlapping (closed) bounds the "first matching cell" would depend on the order the cells are stored in
    c11.rule_quadtree_schema(ck)
    from . import c17
    ck.clause('D3 (shared C17-D1)')
    c17.rule_ownership(ck)
    ck.clause('D3')
    w = P.func('csep.core.regions.CartesianGrid2D._build_bitmask_vec')
    o = ck.ob('C20-D3.idxmap', w, 'idx_map[row, col] = position of the polygon in self.polygons', w.node)
    exw = Expander(P, w)
    IDX = '__index__(builtins.len(self.polygons))'
    ok = False
    stores = [st for st in all_nodes(w) if isinstance(st, ast.Assign) and isinstance(st.targets[0], ast.Subscript)
              and isinstance(st.targets[0].slice, ast.Tuple) and len(st.targets[0].slice.elts) == 3 and const_value(st.targets[0].slice.elts[-1]) == 1
              and in_loop(st, w.node) is not None]
    if len(stores) == 1:
        st = stores[0]
        val = u(strip_shape(exw.expand(st.value)))
        pos = [u(exw.expand(x)) for x in st.targets[0].slice.elts[:2]]
        ok = val in (IDX, 'builtins.int(%s)' % IDX) and all(p_.endswith('[%s]' % IDX) and 'bin1d_vec' in p_ for p_ in pos)
        if not ok:
            # for i, (iy, ix) in enumerate(zip(idy, idx)): position i of the zipped index arrays, which have one entry per polygon
            import re as _re
            m_ = _re.fullmatch(r'(?:builtins\.int\()?__index__\(builtins\.zip\((.*)\)\)\)?', val)
            if m_ and all(p_.startswith('__elem__(') and 'bin1d_vec' in p_ and p_[len('__elem__('):-1] in m_.group(1) for p_ in pos) \
                    and all('numpy.array([poly.centroid() for poly in self.polygons])' in p_ for p_ in pos):
                ok = True
        if not ok:
            ck.note('idx_map store: value `%s`, position %s' % (val[:80], [p_[-70:] for p_ in pos]))
    (o.ok() if ok else o.fail('the index map is not filled with each polygon\'s position at its own (row, col)'))
    m = P.func('csep.core.regions.CartesianGrid2D._build_bitmask_vec')
    mids = find_assignments(m, 'midpoints')
    o = ck.ob('C20-D3.midorder', m, mids[0] if mids else 'midpoints', mids[0] if mids else m.node)
    from .common import element_of
    good = len(mids) == 1 and u(element_of(P, m, mids[0].value)) == '__elem__(self.polygons).centroid()'
    (o.ok() if good else o.fail('midpoints are not listed in polygon order'))


ALLOWED_OBS = {'spatial_counts', 'magnitude_counts', 'spatial_magnitude_counts', 'event_count', 'name', 'region'}


def rule_observation(ck):
    P = ck.prog
    ck.clause('D4')
    tests = [PE + n for n in ('number_test', 'conditional_likelihood_test', 'magnitude_test', 'spatial_test', 'likelihood_test')] + \
            [BE + n for n in ('negative_binomial_number_test', 'binary_spatial_test', 'binary_conditional_likelihood_test')] + [BR + 'brier_score_test']
    for q in tests:
        f = P.func(q)
        obs = f.positional_params[1]
        bad = []
        n = 0
        for x in all_nodes(f):
            if isinstance(x, ast.Name) and x.id == obs and isinstance(x.ctx, ast.Load):
                n += 1
                p = getattr(x, '_parent', None)
                if isinstance(p, ast.Attribute) and p.attr in ALLOWED_OBS:
                    continue
                bad.append(p if p is not None else x)
        o = ck.ob('C20-D4.obs', f, '%d uses of %s' % (n, obs), f.node)
        (o.fail('`%s` reads the observed catalog other than through gridded counts / size / name / region: event order can reach the result' % u(bad[0])[:70])
         if bad else o.ok('gridded counts, size, name, region only'))
    # kernel tests read observed_data only through order-free operations of the gridded array
    for q in (PE + '_poisson_likelihood_test', BE + '_binary_likelihood_test', BR + '_brier_score_test'):
        f = P.func(q)
        bad = [n for n in all_nodes(f) if isinstance(n, ast.Call) and (callee(P, f, n) or '') in ('numpy.random.shuffle', 'numpy.random.permutation')]
        o = ck.ob('C20-D4.kernel', f, 'no shuffling of inputs', f.node)
        (o.fail('the kernel shuffles its input') if bad else o.ok())


def rule_order_sources(ck):
    """storage order enters nowhere else: regions keep the cell order they are given, the per-catalog kernels leave their inputs
    untouched (a kernel that normalises its argument in place makes the score of catalog k depend on catalogs 1..k-1), and every
    synthetic catalog is gridded on the forecast's own region (shared C13-D7)"""
    from .common import reordering_calls, parameter_writes
    P = ck.prog
    rule_keeporder(ck)
    ck.clause('D2')
    for mod in ('csep.utils.calc', 'csep.utils.stats'):
        for f in P.funcs_in(mod):
            if f.parent is not None or f.cls is not None:
                continue
            bad = parameter_writes(P, f)
            o = ck.ob('C20-D2.inputs', f, 'inputs are not modified', f.node)
            (o.fail('`%s` writes into an argument of %s: the same array is handed in again for the next catalog / the observation, whose score '
                    'then depends on what was processed before' % (u(bad[0])[:80], f.short)) if bad else o.ok())
    from . import c13
    ck.clause('D1 (shared C13-D7: catalogs gridded on the forecast region)')
    c13.rule_getters(ck)
    # an index remembered on the catalog pairs the cells of the old event order with the magnitudes of the new one
    from . import c03
    ck.clause('D1 (shared C03-D6: event indices are recomputed from the events as they are stored now)')
    c03.rule_pure_gridding(ck)


def rule_keeporder(ck):
    """regions keep the cell order they are given (the caller's rate rows stay in the caller's order)"""
    from .common import reordering_calls
    P = ck.prog
    ck.clause('D3')
    for q in ('csep.core.regions.CartesianGrid2D.from_origins', 'csep.core.regions.CartesianGrid2D.__init__', 'csep.core.regions.CartesianGrid2D.from_dict',
              'csep.core.regions.QuadtreeGrid2D.from_quadkeys'):
        f = P.func(q)
        bad = reordering_calls(P, f)
        o = ck.ob('C20-D3.keeporder', f, 'cells keep the order they are given in', f.node)
        (o.fail('`%s` reorders (or de-duplicates) the cells while the caller\'s rate rows stay in the caller\'s order' % u(bad[0])[:80]) if bad else o.ok())


def rule_quantile_multiset(ck):
    """the quantile reads the test distribution as a multiset: the empirical probabilities depend on the sample only through its sorted
    form (shared C09-D1 order-only dependence, C09-D2 rank algebra - a range test against the first / last *stored* element makes the
    quantile depend on the order of the synthetic catalogs)"""
    from . import c09
    ck.clause('D2 (shared C09-D1/D2: the sample enters the quantile sorted)')
    c09.rule_rank(ck)
    c09.rule_order_only(ck)


def rule_own_lookup(ck):
    """the rate of an event is looked up in each forecast through that forecast's own region: bin indices are never carried from one
    forecast to another (two forecasts may store the same cells in different orders) - shared C11-D3 (get_rates = data[get_index_of,
    get_magnitude_index]) and C08-D4 (each forecast of a comparison test is asked for its own target-event rates)"""
    from . import c11, c08
    ck.clause('D3 (shared C11-D3 / C08-D4: each forecast locates the events on its own grid)')
    c11.rule_lookup(ck)
    c08.rule_public_t(ck)
    c08.rule_public_w(ck)
    # the number of active bins counts bins; a count of non-zero *positions* leaves out the bin stored first
    ck.clause('D3 (shared C08-D3: the active bins are counted, whichever position they are stored at)')
    c08.rule_binary_t(ck)
    c08.rule_public_binary(ck)
    # the cell index and the magnitude index of one event stay paired (a shortened index array pairs them by storage position), and the
    # rows of a forecast file are grouped by increasing catalog id, anything else rejected (a file in another row order must not load
    # as another forecast)
    from . import c03, c12
    ck.clause('D1 (shared C03-D3: indices paired per event; shared C12-D1: rows grouped by increasing id or rejected)')
    c03.rule_pairing(ck)
    c12.rule_transitions_only(ck)
    from . import c18
    ck.clause('D3 (shared C18-D5: a region is rebuilt with its stored spacing, never with one inferred from the order of its cells)')
    c18._rule_region_fromdict(ck)


RULES = [rule_updates, rule_equivariance, rule_cells, rule_observation, rule_order_sources, rule_quantile_multiset, rule_own_lookup]
