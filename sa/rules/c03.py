"""C03 - gridding a catalog counts every event exactly once, in its own cell and bin."""
import ast

from ..core import sym
from ..core.expand import u, call_name, get_arg, bind_args, Expander, is_marker
from ..core.loader import Inconclusive, const_value, parents
from .common import (returns, all_nodes, callee, strip_shape, calls_in, guards_of, stmt_of, loops_around, role_of,
                     subscript_stores, kw, is_true, is_none_test, receiver_writes, is_class_level_mutable)
from . import sentinel

EXPLANATION = (
    "Decided: D1 the -1 that the magnitude binning returns for a below-range magnitude never reaches numpy.add.at or "
    "a subscript (idioms: dominating raise, per-element guard, filtered index); D2 count arrays are updated only by "
    "duplicate-safe accumulation (numpy.add.at(arr, idx, 1) for vector indices, scalar arr[(i,k)] += 1 inside a "
    "per-event loop), indicator arrays only by constant stores; D3 where a cell index and a magnitude index are "
    "combined positionally both are total maps of the same event sequence or a length-equality guard that raises "
    "dominates the combination (the quadtree lookup returns matches only); D4 space-magnitude arrays are created "
    "(cells, magnitude bins) and indexed (cell, magnitude) everywhere; D5 space-magnitude gridding raises on a "
    "magnitude below the first edge, spatial lookups reject the -1 of bin1d_vec and masked cells (shared with C01). "
    "D6 gridding is a pure function of the current events, region and bins: nothing is stored on the catalog, an explicit mag_bins argument has precedence and stays local to the call (D6.local: stores into self.region only under `mag_bins is None`), and locating points writes nothing that region instances share (D6.lookup: no class-level memo). "
    "NOT decided: the marginal identities and the histogram/range-filter equality as numeric facts.")
CLAUSES = {'D1': 'magnitude sentinel never indexes', 'D2': 'duplicate-safe accumulation', 'D3': 'aligned pairing',
           'D4': 'axis roles', 'D5': 'rejection of out-of-region / below-range events'}
TRUSTED = ['CPython ast', 'numpy: fancy-index += buffers duplicates, add.at does not; index -1 addresses the last element']
ROOTS = ['csep.core.catalogs.AbstractBaseCatalog.spatial_counts', 'csep.core.catalogs.AbstractBaseCatalog.spatial_event_probability',
         'csep.core.catalogs.AbstractBaseCatalog.magnitude_counts', 'csep.core.catalogs.AbstractBaseCatalog.spatial_magnitude_counts',
         'csep.core.catalogs.AbstractBaseCatalog.get_mag_idx', 'csep.core.catalogs.AbstractBaseCatalog.filter']
TECHNIQUE = 'static analysis: sentinel taint flow with an idiom catalogue, update-form rule, CFG dominance of guards'

CAT = 'csep.core.catalogs.AbstractBaseCatalog.'
REG = 'csep.core.regions.'
COUNT_FUNCS = [CAT + 'spatial_counts', CAT + 'magnitude_counts', CAT + 'spatial_magnitude_counts',
               REG + '_bin_catalog_spatio_magnitude_counts', REG + '_bin_catalog_spatial_counts']
FLAG_FUNCS = [CAT + 'spatial_event_probability', REG + '_bin_catalog_probability']
MAG_FUNCS = [CAT + 'magnitude_counts', CAT + 'spatial_magnitude_counts', CAT + 'get_mag_idx',
             REG + '_bin_catalog_spatio_magnitude_counts',
             'csep.core.forecasts.MarkedGriddedDataSet.get_magnitude_index']
ACCEPTED_SENTINEL = {}


def rule_mag_sentinel(ck):
    P = ck.prog
    ck.clause('D1')
    total = 0
    for q in MAG_FUNCS:
        f = P.func(q)
        n = sentinel.check_function(ck, f, 'C03-D1.sentinel')
        total += n
        # a function that returns the bin index unguarded passes the obligation to its callers
    # get_mag_idx returns the raw index: its callers must not use it as an index without a guard
    g = P.func(CAT + 'get_mag_idx')
    for caller, call in ck.cg.call_sites_of(g.qualname):
        if caller.module.name.startswith('csep.utils.plots'):
            continue
        par = getattr(call, '_parent', None)
        o = ck.ob('C03-D1.rawidx', caller, call, call)
        bad = False
        for p in parents(call):
            if isinstance(p, ast.Subscript) and any(x is call for x in ast.walk(p.slice)):
                bad = True
            if isinstance(p, ast.stmt):
                break
        (o.fail('the unguarded magnitude index (may hold -1) is used directly as a subscript') if bad else o.ok('stored, not used as an index'))
    ck.extra['mag_index_sinks'] = total
    o = ck.ob('C03-D5.magraise', P.func(CAT + 'spatial_magnitude_counts'), 'below-range magnitude raises', P.func(CAT + 'spatial_magnitude_counts').node)
    f = P.func(CAT + 'spatial_magnitude_counts')
    ok = False
    for n in all_nodes(f):
        if isinstance(n, ast.If) and any(isinstance(s, ast.Raise) for s in n.body):
            a, e = sentinel.sentinel_test_names(n.test, True)
            if a:
                ok = True
    (o.ok() if ok else o.fail('space-magnitude gridding no longer rejects (raises on) a magnitude below the first edge'))


def _count_arrays(P, f):
    """local names bound to numpy.zeros(...) in f"""
    out = {}
    for n in all_nodes(f):
        if isinstance(n, ast.Assign) and len(n.targets) == 1 and isinstance(n.targets[0], ast.Name) \
                and isinstance(n.value, ast.Call) and callee(P, f, n.value) in ('numpy.zeros', 'numpy.zeros_like'):
            out[n.targets[0].id] = n
    return out


def _is_scalar_index(ex, f, sl, node):
    """index built from per-event scalars: loop-variable subscripts / int() of such"""
    loops = loops_around(node)
    if not loops:
        return False
    e = ex.expand(sl)
    txt = u(e)
    # every leaf that is a vector must be subscripted by the loop index
    return ('__index__' in txt or '__elem__' in txt)


def rule_accumulation(ck):
    P = ck.prog
    ck.clause('D2')
    nupd = 0
    for q, is_flag in [(x, False) for x in COUNT_FUNCS] + [(x, True) for x in FLAG_FUNCS]:
        f = P.func(q)
        ex = Expander(P, f)
        arrays = _count_arrays(P, f)
        if not arrays:
            ck.ob('C03-D2.array', f, 'count array', f.node).unknown('no numpy.zeros(...) count array found')
            continue
        # other names of the same array object (`event_counts = bins` after a helper's result was bound): plain rebinding, the only
        # definition of the new name
        arrays = dict(arrays)
        grew = True
        while grew:
            grew = False
            for n in all_nodes(f):
                if isinstance(n, ast.Assign) and len(n.targets) == 1 and isinstance(n.targets[0], ast.Name) and isinstance(n.value, ast.Name) \
                        and n.value.id in arrays and n.targets[0].id not in arrays and len(find_assignments_local(f, n.targets[0].id)) == 1:
                    arrays[n.targets[0].id] = arrays[n.value.id]
                    grew = True
        updates = []
        for n in all_nodes(f):
            if isinstance(n, ast.Call) and callee(P, f, n) == 'numpy.add.at' and n.args and isinstance(n.args[0], ast.Name) \
                    and n.args[0].id in arrays:
                updates.append(('add.at', n, n.args[1] if len(n.args) > 1 else None, n.args[2] if len(n.args) > 2 else None))
            elif isinstance(n, ast.AugAssign) and isinstance(n.target, ast.Subscript) and isinstance(n.target.value, ast.Name) \
                    and n.target.value.id in arrays:
                updates.append(('aug', n, n.target.slice, n.value))
            elif isinstance(n, ast.Assign) and len(n.targets) == 1 and isinstance(n.targets[0], ast.Subscript) \
                    and isinstance(n.targets[0].value, ast.Name) and n.targets[0].value.id in arrays:
                updates.append(('store', n, n.targets[0].slice, n.value))
        if not updates:
            ck.ob('C03-D2.update', f, 'update of the count array', f.node).fail(
                'the count array `%s` is never updated from the event indices' % ', '.join(arrays))
            continue
        for kind, node, idx, val in updates:
            nupd += 1
            o = ck.ob('C03-D2.update', f, node, node)
            one = val is not None and const_value(val) == 1
            if is_flag:
                if kind == 'store' and one:
                    o.ok('indicator: constant store of 1')
                elif kind == 'store':
                    o.fail('the occupancy map stores `%s`, must store the constant 1' % u(val))
                else:
                    o.fail('the occupancy map is updated with %s: it would count events instead of flagging occupied cells' % kind)
                continue
            if kind == 'add.at':
                (o.ok('numpy.add.at(arr, idx, 1)') if one else o.fail('accumulates `%s` per event, must accumulate exactly 1' % (u(val) if val is not None else '?')))
            elif kind == 'aug':
                if not isinstance(node.op, ast.Add) or not one:
                    o.fail('count update `%s` is not `+= 1`' % u(node))
                elif _is_scalar_index(ex, f, idx, node):
                    o.ok('scalar per-event `+= 1` inside the event loop')
                else:
                    o.fail('`%s` increments through a vector index: numpy buffers the update, so several events in the same '
                           'cell/bin are counted once (use numpy.add.at)' % u(node)[:80])
            else:
                # plain store into a count array
                src = u(val)
                arrname = node.targets[0].value.id
                if isinstance(val, ast.BinOp) and isinstance(val.op, ast.Add) and arrname in src and not _is_scalar_index(ex, f, idx, node):
                    o.fail('`%s` is a buffered read-modify-write through a vector index: duplicates are counted once' % u(node)[:80])
                elif isinstance(val, ast.BinOp) and isinstance(val.op, ast.Add) and arrname in src:
                    o.ok('scalar read-modify-write inside the event loop')
                else:
                    o.fail('`%s` assigns instead of accumulating: the first/last event of a cell wins and the others are lost' % u(node)[:80])
    ck.extra['count_update_sites'] = nupd


def _totality(P, f):
    """'total' if every return of an index function is element-wise or preceded by raise; 'partial' if the
    result is assembled by appending only matches."""
    for n in all_nodes(f):
        if isinstance(n, ast.Call) and callee(P, f, n) in ('numpy.append',) or \
                (isinstance(n, ast.Call) and isinstance(n.func, ast.Attribute) and n.func.attr in ('append', 'extend')):
            return 'partial'
    return 'total'


def rule_pairing(ck):
    P = ck.prog
    ck.clause('D3')
    f = P.func(CAT + 'spatial_magnitude_counts')
    ex = Expander(P, f)
    impls = [m for m in ck.cg.methods_by_name.get('get_index_of', []) if m.module.name == 'csep.core.regions']
    summary = {}
    for m in impls:
        # helper functions called count too (_find_location may return an empty array)
        t = _totality(P, m)
        if t == 'total':
            for callee_q in ck.cg.edges.get(m.qualname, ()):
                cf = P.funcs.get(callee_q)
                if cf is not None and cf.cls is m.cls and _totality(P, cf) == 'partial':
                    t = 'partial'
        summary[m.qualname] = t
    ck.extra['get_index_of_totality'] = summary
    # the pairing site: a subscript/add.at combining a spatial index and a magnitude index
    spat = [n for n in all_nodes(f) if isinstance(n, ast.Call) and isinstance(n.func, ast.Attribute) and n.func.attr == 'get_index_of']
    mags = calls_in(P, f, sentinel.BIN)
    if not mags:
        # the magnitude index may come from a method that hands back the kernel's result (get_mag_idx)
        mags = [c for nm, c in sentinel.Taint(P, f).tainted.items()]
    o = ck.ob('C03-D3.pair', f, 'cell index and magnitude index are paired positionally', f.node)
    if not spat or not mags:
        o.unknown('cannot find the spatial and the magnitude lookup')
        return
    st_s, st_m = stmt_of(spat[0]), stmt_of(mags[0])
    vs = st_s.targets[0].id if isinstance(st_s, ast.Assign) and isinstance(st_s.targets[0], ast.Name) else None
    vm = st_m.targets[0].id if isinstance(st_m, ast.Assign) and isinstance(st_m.targets[0], ast.Name) else None
    if not vs or not vm:
        o.unknown('lookups are not bound to variables')
        return
    if all(t == 'total' for t in summary.values()):
        o.ok('every get_index_of implementation is total (element-wise or raising)')
        return
    # need a dominating guard comparing lengths/shapes of the two index arrays, raising on mismatch
    cfg = f.cfg
    guard = None
    for n in all_nodes(f):
        if isinstance(n, ast.If) and any(isinstance(s, ast.Raise) for s in n.body) and isinstance(n.test, ast.Compare):
            names = {x.id for x in ast.walk(n.test) if isinstance(x, ast.Name)}
            txt = u(n.test)
            if vs in names and vm in names and ('shape' in txt or 'len(' in txt or 'size' in txt) and \
                    isinstance(n.test.ops[0], ast.NotEq):
                guard = n
    # loop variables that stand for one element of an index array: `for cell, mag_bin in zip(spatial_idx, mag_idx)`
    elem = {}
    for lp in all_nodes(f):
        if isinstance(lp, ast.For):
            it, tg = lp.iter, lp.target
            if isinstance(it, ast.Call) and u(it.func) == 'enumerate' and it.args and isinstance(tg, ast.Tuple) and len(tg.elts) == 2:
                it, tg = it.args[0], tg.elts[1]
            if isinstance(it, ast.Call) and u(it.func) == 'zip' and isinstance(tg, ast.Tuple) and len(tg.elts) == len(it.args):
                for t_, a_ in zip(tg.elts, it.args):
                    if isinstance(t_, ast.Name) and isinstance(a_, ast.Name):
                        elem[t_.id] = a_.id

    def names_of(e):
        return {elem.get(x.id, x.id) for x in ast.walk(e) if isinstance(x, ast.Name)}
    uses = [n for n in all_nodes(f) if isinstance(n, ast.Subscript) and {vs, vm} <= names_of(n.slice)]
    uses += [n for n in all_nodes(f) if isinstance(n, ast.Call) and callee(P, f, n) == 'numpy.add.at' and len(n.args) > 1
             and {vs, vm} <= names_of(n.args[1])]
    if not uses:
        o.unknown('no statement combines both indices')
        return
    partial = [q.split('.')[-2] for q, t in summary.items() if t == 'partial']
    if guard is None:
        o.fail('%s.get_index_of returns indices only for the points it can locate, yet `%s` pairs cell and magnitude '
               'indices by position without checking that both have one entry per event: after a dropped point every '
               'later event is counted in another event\'s magnitude bin' % ('/'.join(partial), u(uses[0])[:60]))
        return
    gn = cfg.node_of(guard)
    bad = [x for x in uses if not cfg.dominates(gn, cfg.stmt_node_containing(x))]
    (o.fail('the length guard does not dominate `%s`' % u(bad[0])[:60]) if bad else
     o.ok('length-equality guard raising ValueError dominates the pairing (partial lookup: %s)' % '/'.join(partial)))


def rule_axes(ck):
    P = ck.prog
    ck.clause('D4')
    for q in (CAT + 'spatial_magnitude_counts', REG + '_bin_catalog_spatio_magnitude_counts'):
        f = P.func(q)
        ex = Expander(P, f)
        arrays = _count_arrays(P, f)
        for name, asg in arrays.items():
            shape = asg.value.args[0] if asg.value.args else None
            o = ck.ob('C03-D4.shape', f, asg, asg)
            if isinstance(shape, (ast.Tuple, ast.List)) and len(shape.elts) == 2:
                r0, r1 = role_of(ex.expand(shape.elts[0])) | role_of(shape.elts[0]), role_of(ex.expand(shape.elts[1])) | role_of(shape.elts[1])
                if 'mag' in r1 and 'mag' not in r0:
                    o.ok('(cells, magnitude bins)')
                else:
                    o.fail('the space-magnitude array is created with shape `%s`; axis 0 must be cells and axis 1 magnitude bins' % u(shape))
            else:
                o.unknown('shape `%s`' % (u(shape) if shape is not None else '?'))
            # index tuples
            for n in all_nodes(f):
                idx = None
                if isinstance(n, ast.Subscript) and isinstance(n.value, ast.Name) and n.value.id == name:
                    idx = n.slice
                elif isinstance(n, ast.Call) and callee(P, f, n) == 'numpy.add.at' and n.args and isinstance(n.args[0], ast.Name) \
                        and n.args[0].id == name and len(n.args) > 1:
                    idx = n.args[1]
                if idx is None or not isinstance(idx, ast.Tuple) or len(idx.elts) != 2:
                    continue
                oo = ck.ob('C03-D4.index', f, n, n)
                e0, e1 = ex.expand(idx.elts[0]), ex.expand(idx.elts[1])
                m0 = 'mag' in (role_of(e0) | role_of(idx.elts[0]))
                m1 = 'mag' in (role_of(e1) | role_of(idx.elts[1]))
                if m1 and not m0:
                    oo.ok('(cell, magnitude)')
                else:
                    oo.fail('the count array is indexed `%s`: the magnitude index must be the second component' % u(idx))


def rule_spatial_rejection(ck):
    """D5 / C01-D3: spatial lookups reject the -1 of bin1d_vec and masked cells."""
    from . import c01
    ck.clause('D5 (shared with C01-D3/D4)')
    c01.rule_sentinel(ck)
    c01.rule_mask_polarity(ck)
    c01.rule_raw_coordinates(ck)
    c01.rule_single_edge(ck)
    # a catalog gridded on a quadtree region is located by its point lookup: every event asked about with its own coordinates, every
    # located cell (the first one, index 0, included) kept
    from . import c17
    ck.clause('D5 (shared with C17-D4: the quadtree lookup answers for every event)')
    c17.rule_point_lookup(ck)


PURE = ['get_mag_idx', 'get_spatial_idx', 'spatial_counts', 'spatial_event_probability', 'magnitude_counts', 'spatial_magnitude_counts']


def rule_pure_gridding(ck):
    """D6: index/gridding methods are recomputed from the current events, region and bins on every call: they store nothing on
    the catalog (a memoised index goes stale when the region or its magnitude bins are reassigned) and an explicit mag_bins
    argument takes precedence over the region's bins."""
    P = ck.prog
    ck.clause('D6')
    for name in PURE:
        f = P.func(CAT + name)
        o = ck.ob('C03-D6.pure', f, 'no instance state written by %s' % name, f.node)
        writes = []
        for n in all_nodes(f):
            if isinstance(n, ast.Attribute) and isinstance(n.ctx, (ast.Store, ast.Del)) and isinstance(n.value, ast.Name) and n.value.id == 'self':
                writes.append(n)
        reads = [n for n in all_nodes(f) if isinstance(n, ast.Attribute) and isinstance(n.ctx, ast.Load) and isinstance(n.value, ast.Name)
                 and n.value.id == 'self' and n.attr.startswith('_') and n.attr not in ('_catalog',)]
        if writes:
            o.fail('`self.%s` is written by %s: an index or count cached on the catalog is not invalidated when catalog.region or the '
                   'region\'s magnitude bins change (the evaluations re-bind observed_catalog.region), so later griddings use stale cells/bins'
                   % (writes[0].attr, name))
        elif reads:
            o.fail('%s reads the private attribute self.%s: results must be recomputed from the current events, region and bins' % (name, reads[0].attr))
        else:
            o.ok()
    for name in ('magnitude_counts', 'spatial_magnitude_counts'):
        f = P.func(CAT + name)
        for a in find_assignments_local(f, 'mag_bins'):
            o = ck.ob('C03-D6.bins', f, a, a)
            g = guards_of(a, f.node)
            ok = any(pol and is_none_test(t, 'mag_bins') for t, pol in g)
            (o.ok('region / default bins only when no mag_bins are given') if ok else
             o.fail('`%s` replaces the caller\'s mag_bins outside the `mag_bins is None` case: an explicit magnitude grid is silently ignored, so '
                    'the histogram disagrees with the equivalent magnitude-range filter' % u(a)))
    # the region side of the lookup: locating a point changes nothing on the region (a memo of located points - on the instance or,
    # worse, on the class - hands the answer of one grid / one binning to the next)
    for q in ('csep.core.regions.CartesianGrid2D.get_index_of', 'csep.core.regions.CartesianGrid2D.get_masked',
              'csep.core.regions.QuadtreeGrid2D.get_index_of', 'csep.core.regions.QuadtreeGrid2D._find_location'):
        f = P.funcs.get(q)
        if f is None:
            continue
        o = ck.ob('C03-D6.lookup', f, 'locating points writes nothing that region instances share', f.node)
        w = receiver_writes(f)
        cls_names = {c.node.name for c in P.classes.values()}
        memo = [n for n in all_nodes(f) if isinstance(n, ast.Attribute) and isinstance(n.ctx, ast.Load) and isinstance(n.value, ast.Name)
                and n.value.id in ('self', 'cls') and n.attr.startswith('_') and is_class_level_mutable(f, n.attr)]
        def shared(stmt):
            # the written attribute lives on the class (bound in the class body to a mutable object and never re-bound per instance)
            for t in ast.walk(stmt):
                if isinstance(t, ast.Attribute) and isinstance(t.value, ast.Name) and t.value.id in ('self', 'cls') and is_class_level_mutable(f, t.attr):
                    init = f.cls.find_method('__init__') if getattr(f, 'cls', None) is not None else None
                    per_instance = init is not None and any(isinstance(x, ast.Attribute) and isinstance(x.ctx, ast.Store) and x.attr == t.attr
                                                            and isinstance(x.value, ast.Name) and x.value.id == 'self' for x in all_nodes(init))
                    if not per_instance:
                        return True
            return False
        w = [x for x in w if shared(x)]
        if w:
            o.fail('`%s` stores into a class-level object while locating points: the answer found on one grid is handed out by every other '
                   'region instance for the same coordinates' % u(w[0])[:80])
        elif memo:
            o.fail('%s reads the class-level mutable `%s`, which every region instance shares' % (f.short, memo[0].attr))
        else:
            o.ok()
    # D6.local: bins handed in for one call stay local to the call - the region object is shared with other catalogs and with the
    # forecasts built on it, so a store into it (self.region.<attr> = ...) may only happen where no bins were given
    for name in PURE:
        f = P.func(CAT + name)
        stores = [n for n in all_nodes(f) if isinstance(n, ast.Attribute) and isinstance(n.ctx, (ast.Store, ast.Del))
                  and isinstance(n.value, ast.Attribute) and isinstance(n.value.value, ast.Name) and n.value.value.id == 'self' and n.value.attr == 'region']
        if 'mag_bins' not in f.params and not stores:
            continue
        o = ck.ob('C03-D6.local', f, 'explicit magnitude bins are not written into the shared region', f.node)
        bad = []
        for n in stores:
            st = stmt_of(n)
            if 'mag_bins' in f.params and any(pol and is_none_test(t, 'mag_bins') for t, pol in guards_of(st, f.node)):
                continue
            bad.append(st)
        (o.fail('`%s` runs also when the caller passed its own mag_bins (or on every call): the region is shared by every catalog and forecast '
                'built on it, so one histogram on other edges re-bins all of them (6.0 against 5.95, 6.05, ... lands in the bin of the leaked grid)'
                % u(bad[0])[:80]) if bad else o.ok('%d region store(s), all under `mag_bins is None`' % len(stores)))


def rule_region_attributes(ck):
    """D7: gridding works on every kind of region a catalog can be bound to.
    D7.regionattrs - a data attribute of `self.region` that a gridding method reads (outside a try that handles AttributeError) is
    defined by every region class (assigned in __init__, bound in the class body, or a property): a region class without it makes the
    method raise AttributeError for that kind of region only.
    D7.nobins - where the bins of the region are taken because none were given, "the region has none" (attribute None, the
    constructor default of the Cartesian grid) is handled like "the region has no such attribute": a None test on the bins follows
    the read before they are used."""
    P = ck.prog
    ck.clause('D7')
    region_classes = [c for c in P.classes.values() if c.module.name == 'csep.core.regions' and c.find_method('get_index_of') is not None
                      and getattr(c, 'enclosing_func', None) is None]

    def defines(c, attr):
        if c.find_method(attr) is not None:
            return True
        for st in c.node.body:
            if isinstance(st, ast.Assign) and any(isinstance(t, ast.Name) and t.id == attr for t in st.targets):
                return True
        init = c.find_method('__init__')
        seen, todo = set(), [init] if init is not None else []
        while todo:
            m = todo.pop()
            if m is None or m.qualname in seen:
                continue
            seen.add(m.qualname)
            for n in all_nodes(m):
                if isinstance(n, ast.Attribute) and isinstance(n.ctx, ast.Store) and n.attr == attr and isinstance(n.value, ast.Name) and n.value.id == 'self':
                    return True
                if isinstance(n, ast.Call) and isinstance(n.func, ast.Attribute) and isinstance(n.func.value, ast.Name) and n.func.value.id == 'self':
                    todo.append(c.find_method(n.func.attr))
        return False
    for name in PURE + ['get_mag_idx']:
        f = P.funcs.get(CAT + name)
        if f is None:
            continue
        seen_attrs = set()
        for n in all_nodes(f):
            if not (isinstance(n, ast.Attribute) and isinstance(n.ctx, ast.Load) and isinstance(n.value, ast.Attribute) and n.value.attr == 'region'
                    and isinstance(n.value.value, ast.Name) and n.value.value.id == 'self'):
                continue
            par = getattr(n, '_parent', None)
            if isinstance(par, ast.Call) and par.func is n:
                continue          # methods of the region: C04-D5.sibling / C01
            if n.attr in seen_attrs:
                continue
            protected = False
            for p_ in parents(n):
                if isinstance(p_, ast.Try) and any(n in ast.walk(s_) for s_ in p_.body):
                    for h in p_.handlers:
                        if h.type is None or 'AttributeError' in u(h.type) or u(h.type) in ('Exception', 'BaseException'):
                            protected = True
                if isinstance(p_, ast.Call) and u(p_.func) in ('getattr', 'hasattr'):
                    protected = True
            if protected:
                continue
            seen_attrs.add(n.attr)
            o = ck.ob('C03-D7.regionattrs', f, 'self.region.%s' % n.attr, n)
            miss = [c.node.name for c in region_classes if not defines(c, n.attr)]
            (o.fail('%s reads self.region.%s, which %s never defines: for a catalog bound to such a region the method raises AttributeError '
                    '(also when the bins are given explicitly)' % (f.short, n.attr, ' / '.join(miss))) if miss else o.ok('defined by %d region class(es)' % len(region_classes)))
    # D7.nobins
    f = P.func(CAT + 'magnitude_counts')
    cfg = f.cfg
    reads = [a for a in all_nodes(f) if isinstance(a, ast.Assign) and any(isinstance(t, ast.Name) and t.id == 'mag_bins' for t in a.targets)
             and 'self.region' in u(a.value) and 'magnitudes' in u(a.value)]
    uses = [c for c in all_nodes(f) if isinstance(c, ast.Call) and ((u(c.func) == 'len' and c.args and u(c.args[0]) == 'mag_bins') or
                                                                    (callee(P, f, c) == sentinel.BIN and any(u(a_) == 'mag_bins' for a_ in c.args)))]
    for a in reads:
        o = ck.ob('C03-D7.nobins', f, a, a)
        an = cfg.node_of(a)
        tests = [t for t in all_nodes(f) if isinstance(t, ast.If) and is_none_test(t.test, 'mag_bins')]
        # every path from the read to a use of the bins passes a test `mag_bins is None`
        tnodes = [cfg.node_of(t) for t in tests if cfg.node_of(t) is not None and cfg.node_of(t) is not an]
        unodes = [cfg.stmt_node_containing(c) for c in uses]
        ok = an is not None and bool(unodes) and bool(tnodes) and not any(un is not None and cfg.can_reach(an, un, avoid=tnodes) for un in unodes)
        (o.ok('a None test follows the read') if ok else
         o.fail('the bins read from the region may be None (a Cartesian grid built without magnitudes has `magnitudes = None`): nothing tests '
                'that before `len(mag_bins)`, so the documented fallback to the CSEP magnitude bins only works for a region without the '
                'attribute and a catalog on a plain Cartesian grid raises TypeError'))


def find_assignments_local(f, name):
    from .common import find_assignments
    return find_assignments(f, name)


def rule_binning_shared(ck):
    """the histogram and the space-magnitude counts place a magnitude where bin1d_vec places it: same kernel, same mode, and the values
    handed over as they are stored (shared C02-D4.mag / .coord / .kernel / .sibling / .asstored)"""
    from . import c02
    ck.clause('D1 (shared C02-D4: every magnitude / coordinate is binned by the kernel, in its stored type, in the right mode)')
    c02.rule_callsites(ck)


def rule_filter_agrees(ck):
    """the count of bin k equals the number of events kept by the equivalent range filter: the filter compares the stored column with
    the threshold as the operator table says and converts the threshold with float() - not with a numpy scalar type, which forces
    the comparison of a float32 column into double precision, where 4.1f < 4.1 (shared C04-D1)"""
    from . import c04
    ck.clause('D4 (shared C04-D1: the range filter the histogram is compared with)')
    c04.rule_operators(ck)


RULES = [rule_mag_sentinel, rule_accumulation, rule_pairing, rule_axes, rule_spatial_rejection, rule_pure_gridding, rule_binning_shared, rule_region_attributes, rule_filter_agrees]
