"""C16 - binary likelihood and Brier score equal their definitions."""
import ast

from ..core import sym
from ..core.expand import u, call_name, get_arg, bind_args, Expander, is_marker, phi_alternatives
from ..core.loader import Inconclusive, const_value, parents
from .common import (aliases_of, returns, all_nodes, callee, strip_shape, calls_in, guards_of, stmt_of, loops_around, kw,
                     find_assignments, result_fields, in_loop, compare_nf, opaque_in)
from .c06 import _masked_sources

EXPLANATION = (
    "Decided: D1 `.data` is read only from a masked array of origin kind (direct result of numpy.ma.masked_where & co, "
    "modulo shape-only operations), never from a derived one, and nothing masked reaches a score kernel; D2 "
    "observation arrays reach arithmetic only through a binarising operation (> 0, != 0, nonzero) or shape queries, "
    "so the scores depend on which bins are active, not on how many events they hold; D3 the binary score equals "
    "sum(log(1 - exp(-rate)) over active bins) + sum(-rate over inactive bins) and the Brier score equals "
    "-2 * sum((1 - exp(-rate) - [active])^2) divided by every dimension of the observation array, as identities on "
    "normal forms (P(N>0) may be spelt 1 - poisson.cdf(0, rate)); the per-cell Poisson / binary maps equal their "
    "documented terms with the N_obs/N_fore scale; D4 observed and simulated scores are the same callee with the "
    "same rate argument, differing only by observed <-> simulated counts; public tests pass same-marginal data and "
    "fill the result slots. NOT decided: numerical equality with the closed forms. "
    "Also decided (round 5): D3.double no narrowing dtype; shared C03-D1/D2/D5 (the gridded observation: no sentinel reaches an index) and C11-D1/D4 (the rates are read through the fresh scaled view).")
CLAUSES = {'D1': 'masked-data discipline', 'D2': 'indicator-only dependence', 'D3': 'score identities', 'D4': 'observed/simulated isomorphism'}
TRUSTED = ['CPython ast', 'numpy.ma: data under a derived mask is unspecified', 'scipy.stats.poisson.cdf(0, r) = exp(-r)']
BE, BR, PE = 'csep.core.binomial_evaluations.', 'csep.core.brier_evaluations.', 'csep.core.poisson_evaluations.'
ROOTS = [BE + 'binary_spatial_test', BE + 'binary_conditional_likelihood_test', BR + 'brier_score_test',
         PE + 'poisson_spatial_likelihood', PE + 'binary_spatial_likelihood']
TECHNIQUE = 'static analysis: kind flow (masked origin/derived/plain), taint of observation arrays, polynomial normal-form identities'

BK = BE + 'binary_joint_log_likelihood_ndarray'
RK = BR + '_brier_score_ndarray'
MA_ORIGIN = {'numpy.ma.masked_where', 'numpy.ma.masked_array', 'numpy.ma.masked_invalid', 'numpy.ma.masked_equal',
             'numpy.ma.masked_less_equal', 'numpy.ma.masked_less', 'numpy.ma.array', 'numpy.ma.MaskedArray',
             'numpy.ma.masked_greater', 'numpy.ma.masked_values'}


def rule_masked(ck):
    P = ck.prog
    ck.clause('D1')
    n = 0
    for f in P.funcs_in('csep.core.binomial_evaluations') + P.funcs_in('csep.core.brier_evaluations'):
        ex = Expander(P, f)
        for a in all_nodes(f):
            if isinstance(a, ast.Attribute) and a.attr == 'data' and isinstance(a.ctx, ast.Load):
                base = ex.expand(a.value)
                txt = u(base)
                if 'numpy.ma.' not in txt:
                    continue   # not a masked array (e.g. forecast.data of a GriddedForecast)
                n += 1
                o = ck.ob('C16-D1.data', f, a, a)
                b = strip_shape(base)
                if isinstance(b, ast.Call) and call_name(b) in MA_ORIGIN:
                    o.ok('.data of the array that was masked (origin kind)')
                else:
                    o.fail('`.data` is read from `%s`, the result of arithmetic on a masked array: numpy leaves the entries under '
                           'a derived mask unspecified, so an event in a zero-rate bin yields an arbitrary finite value instead '
                           'of -inf' % txt[:90])
        # kernel arguments must be plain
        for c in [x for x in all_nodes(f) if isinstance(x, ast.Call) and callee(P, f, x) in (BK, RK)]:
            for i, arg in enumerate(c.args[:2]):
                e = ex.expand(arg)
                o = ck.ob('C16-D1.plain', f, '%s arg %d: %s' % (callee(P, f, c).split('.')[-1], i, u(arg)), c)
                ms = _masked_sources(e)
                if ms:
                    o.fail('a masked array (`%s`) is handed to the score kernel: masked reductions skip the masked bins, so zero-rate '
                           'bins drop out of the sum and of the bin count N' % u(ms[0])[:70])
                else:
                    o.ok('plain ndarray')
    ck.extra['masked_data_reads'] = n
    # the mask itself: exactly the bins whose rate is not positive, and a fill that puts exact zeros back
    for f in P.funcs_in('csep.core.binomial_evaluations') + P.funcs_in('csep.core.brier_evaluations'):
        ex = Expander(P, f)
        for c in all_nodes(f):
            if not isinstance(c, ast.Call):
                continue
            nm = callee(P, f, c) or ''
            if nm.startswith('numpy.ma.masked_') or nm in ('numpy.ma.array', 'numpy.ma.masked_array', 'numpy.ma.MaskedArray'):
                o = ck.ob('C16-D1.maskexact', f, c, c)
                good, why = False, 'unrecognised mask constructor'
                if nm == 'numpy.ma.masked_where' and len(c.args) >= 2:
                    cond, arr = c.args[0], c.args[1]
                    good = isinstance(cond, ast.Compare) and len(cond.ops) == 1 and isinstance(cond.ops[0], (ast.LtE, ast.Eq, ast.Lt)) \
                        and const_value(cond.comparators[0]) == 0 and u(cond.left) == u(arr)
                    why = 'the mask condition is `%s`, not <array> <= 0' % u(cond)
                elif nm in ('numpy.ma.masked_equal', 'numpy.ma.masked_less_equal', 'numpy.ma.masked_less') and len(c.args) >= 2:
                    good = const_value(c.args[1]) == 0
                    why = 'masked against %s, not 0' % u(c.args[1])
                elif nm == 'numpy.ma.masked_values':
                    why = 'masked_values compares approximately (atol 1e-8, rtol 1e-5): positive rates up to 1e-8 are masked as if they were zero'
                (o.ok('exact comparison with 0') if good else
                 o.fail('%s: the bins excluded from the logarithm must be exactly those with rate <= 0' % why))
            if isinstance(c.func, ast.Attribute) and c.func.attr == 'filled' and 'numpy.ma.' in u(ex.expand(c.func.value)):
                o = ck.ob('C16-D1.filled', f, c, c)
                v = c.args[0] if c.args else kw(c, 'fill_value')
                (o.ok('masked (zero-rate) bins filled with 0') if v is not None and const_value(v) == 0 and not isinstance(const_value(v), bool) else
                 o.fail('masked zero-rate bins are filled with `%s`; only 0 restores the rates' % (u(v) if v is not None else 'the default fill value')))


BINARISE_CMP = (ast.Gt, ast.NotEq, ast.GtE, ast.Eq, ast.Lt, ast.LtE)


def _obs_uses(P, f, param):
    """classify every use of the observation parameter (and its shape-only aliases)"""
    aliases = {param}
    changed = True
    while changed:
        changed = False
        for n in all_nodes(f):
            if isinstance(n, ast.Assign) and len(n.targets) == 1 and isinstance(n.targets[0], ast.Name):
                v = strip_shape(n.value)
                if isinstance(v, ast.Name) and v.id in aliases and n.targets[0].id not in aliases:
                    aliases.add(n.targets[0].id)
                    changed = True
    out = []
    for n in all_nodes(f):
        if isinstance(n, ast.Name) and isinstance(n.ctx, ast.Load) and n.id in aliases:
            cur = n
            while True:
                p = getattr(cur, '_parent', None)
                if isinstance(p, ast.Call) and (cur in p.args or (isinstance(p.func, ast.Attribute) and p.func.value is cur)):
                    nm = callee(P, f, p) or ''
                    if nm in ('numpy.asarray', 'numpy.array', 'numpy.ravel') or nm in ('.ravel', '.flatten', '.copy', '.astype'):
                        cur = p
                        continue
                if isinstance(p, ast.Attribute) and p.value is cur and p.attr in ('ravel', 'flatten', 'copy', 'astype', 'T'):
                    cur = p
                    continue
                if isinstance(p, ast.Call) and p.func is cur and isinstance(cur, ast.Attribute) and cur.attr in ('ravel', 'flatten', 'copy', 'astype'):
                    cur = p
                    continue
                break
            p = getattr(cur, '_parent', None)
            kind = 'arith'
            if isinstance(p, ast.Compare) and len(p.ops) == 1 and const_value(p.comparators[0] if p.left is cur else p.left) == 0:
                kind = 'binarised'
            elif isinstance(p, ast.Attribute) and p.attr in ('shape', 'size', 'ndim'):
                kind = 'shape'
            elif isinstance(p, ast.Call) and (callee(P, f, p) or '') in ('numpy.nonzero', '.nonzero', 'numpy.flatnonzero', 'numpy.count_nonzero'):
                kind = 'binarised'
            elif isinstance(p, ast.Attribute) and p.attr == 'nonzero':
                kind = 'binarised'
            elif isinstance(p, ast.Assign):
                kind = 'alias'
            elif isinstance(p, ast.Call) and (callee(P, f, p) or '') in ('builtins.len', 'numpy.shape'):
                kind = 'shape'
            out.append((n, kind, p))
    return out


def rule_indicator(ck):
    P = ck.prog
    ck.clause('D2')
    for q, param_idx in ((BK, 1), (RK, 1)):
        f = P.func(q)
        param = f.positional_params[param_idx]
        uses = _obs_uses(P, f, param)
        if not uses:
            ck.ob('C16-D2.indicator', f, param, f.node).fail('the observation array is not used at all')
        for n, kind, p in uses:
            o = ck.ob('C16-D2.indicator', f, '%s in `%s`' % (n.id, u(stmt_of(n))[:70]), n)
            if kind in ('binarised', 'shape', 'alias'):
                o.ok(kind)
            else:
                o.fail('the observed counts `%s` enter `%s` without being reduced to the indicator [count > 0]: a bin holding '
                       'several events would weigh more than a bin holding one' % (n.id, u(p)[:60] if p is not None else ''))


def rule_binary_formula(ck):
    P = ck.prog
    ck.clause('D3')
    f = P.func(BK)
    ex = Expander(P, f)
    rets = [r for r in returns(f) if r.value is not None]
    if len(rets) != 1:
        raise Inconclusive('binary kernel has %d returns' % len(rets))
    fo, ca = f.positional_params[0], f.positional_params[1]
    o = ck.ob('C16-D3.binary', f, rets[0].value, rets[0])
    specs = []
    for act in ('%s > 0' % ca, '%s != 0' % ca):
        specs.append('numpy.sum(numpy.log(1.0 - numpy.exp(-%s[%s]))) + numpy.sum(-%s[~(%s)])' % (fo, act, fo, act))
    N = sym.Normalizer(distribute_sum=True)
    compare_nf(o, ex.expand(rets[0].value), specs, N, what='binary joint log-likelihood')


def rule_brier_formula(ck):
    P = ck.prog
    ck.clause('D3')
    f = P.func(RK)
    ex = Expander(P, f)
    rets = [r for r in returns(f) if r.value is not None]
    if len(rets) != 1:
        raise Inconclusive('brier kernel return shape')
    fo, ob = f.positional_params[0], f.positional_params[1]
    N = sym.Normalizer()
    if isinstance(rets[0].value, ast.Name):
        var = rets[0].value.id
        assigns = [a for a in find_assignments(f, var)]
        plain = [a for a in assigns if isinstance(a, ast.Assign)]
        augs = [a for a in assigns if isinstance(a, ast.AugAssign)]
    else:
        # the score is returned as an expression: the same thing as `score = <expr>; return score`
        var = '<returned expression>'
        syn = ast.Assign(targets=[ast.Name(id='__score__', ctx=ast.Store())], value=rets[0].value, lineno=rets[0].lineno, col_offset=0)
        syn._parent = getattr(rets[0], '_parent', None)
        plain, augs = [syn], []
    o = ck.ob('C16-D3.brier.sum', f, plain[0] if plain else var, plain[0] if plain else f.node)
    if len(plain) != 1:
        o.unknown('%d plain assignments of the score' % len(plain))
        return
    got = ex.expand(plain[0].value)
    inds = ['(%s > 0)' % ob, '(%s != 0)' % ob]
    ps = ['1 - scipy.stats.poisson.cdf(0, %s)' % fo, '1 - numpy.exp(-%s)' % fo]
    specs_sum = ['-2 * numpy.sum(numpy.square((%s) - %s))' % (p, i) for p in ps for i in inds]
    specs_mean = ['-2 * numpy.mean(numpy.square((%s) - %s))' % (p, i) for p in ps for i in inds]
    g = N.nf(got)
    if any(g == N.nf(s) for s in specs_mean) and not augs:
        o.ok('-2 * mean((P(N>0) - [active])^2)')
        return
    specs_size = [s_ + ' / %s' % d_ for s_ in specs_sum for d_ in ('%s.size' % ob, 'numpy.size(%s)' % ob)]
    if any(g == N.nf(s) for s in specs_size) and not augs:
        o.ok('-2 * sum((P(N>0) - [active])^2) / N')
        ck.ob('C16-D3.brier.norm', f, plain[0], plain[0]).ok('one division by the number of bins')
        return
    if not compare_nf(o, got, specs_sum, N, what='Brier sum'):
        return
    # normalisation by every dimension
    oo = ck.ob('C16-D3.brier.norm', f, augs[0] if augs else 'normalisation', augs[0] if augs else f.node)
    ok = False
    why = 'the sum is not divided by the number of bins'
    if len(augs) == 1 and isinstance(augs[0].op, ast.Div):
        a = augs[0]
        lp = in_loop(a, f.node)
        if lp is not None and isinstance(lp, ast.For):
            it = N.nf(ex.expand(lp.iter))
            tv = lp.target.id if isinstance(lp.target, ast.Name) else None
            if it == N.nf('%s.shape' % ob) and isinstance(a.value, ast.Name) and a.value.id == tv and not guards_of(a, lp) \
                    and not any(isinstance(x, (ast.Break, ast.Continue)) for x in ast.walk(lp)):
                why = ('the sum is divided by one dimension after the other: x/a/b and x/(a*b) round differently, so the same bins scored as '
                       'an (a, b) array (the observation) and as a flat array (every simulated catalog) can differ in the last bit - a '
                       'simulated catalog identical to the observation then counts as exceeding it (or not) by rounding alone; divide once by '
                       'the number of bins (observations.size)')
            else:
                why = 'the loop divides by `%s` over `%s`; it must divide by each dimension of the observation array' % (u(a.value), u(lp.iter))
        elif lp is None:
            v = N.nf(ex.expand(a.value))
            if v in (N.nf('%s.size' % ob), N.nf('numpy.size(%s)' % ob), N.nf('numpy.prod(%s.shape)' % ob)):
                ok = True
            else:
                why = 'the score is divided by `%s`: only one dimension / not the total number N of bins' % u(a.value)
    elif len(augs) > 1:
        why = 'several in-place updates of the score'
    (oo.ok('divided by every dimension of the observation array (N bins)') if ok else oo.fail(why))


def rule_isomorphism(ck):
    P = ck.prog
    ck.clause('D4')
    N = sym.Normalizer()
    for tq, kq in ((BE + '_binary_likelihood_test', BK), (BR + '_brier_score_test', RK)):
        t = P.func(tq)
        ex = Expander(P, t)
        od = t.positional_params[1]
        # score call sites: any call producing the value appended to the distribution / returned as observed
        calls = calls_in(P, t, kq)
        inside = [c for c in calls if in_loop(c, t.node) is not None]
        outside = [c for c in calls if in_loop(c, t.node) is None]
        o = ck.ob('C16-D4.iso', t, '%s: observed and simulated score' % kq.split('.')[-1], t.node)
        if len(inside) != 1 or len(outside) != 1:
            o.fail('expected one call of %s for the observed catalog and one per simulated catalog; found %d outside and %d inside the '
                   'simulation loop: the simulated scores are not the same function of the simulated catalog' % (
                       kq.split('.')[-1], len(outside), len(inside)))
            continue
        a_in = [ex.expand(a) for a in inside[0].args]
        a_out = [ex.expand(a) for a in outside[0].args]
        if len(a_in) < 2 or len(a_out) < 2:
            o.unknown('keyword call')
            continue
        if N.nf(a_in[0]) != N.nf(a_out[0]):
            o.fail('the rate argument differs between the observed (`%s`) and the simulated (`%s`) score' % (u(a_out[0])[:60], u(a_in[0])[:60]))
            continue
        so = strip_shape(a_out[1])
        if not (isinstance(so, ast.Name) and so.id == od):
            o.fail('the observed score is computed from `%s`, not from the observed data' % u(a_out[1])[:60])
            continue
        sims_ = [strip_shape(x) for x in phi_alternatives(a_in[1])]
        if not all(isinstance(x, ast.Call) and (call_name(x) or '').endswith('._simulate_catalog') for x in sims_):
            o.fail('the simulated score is computed from `%s`, not from the simulated catalog' % u(a_in[1])[:60])
            continue
        o.ok('same callee, same rates, counts observed <-> simulated')
        # the appended value / the returned observed statistic are those calls
        rets = [r for r in returns(t) if r.value is not None]
        if rets and isinstance(rets[0].value, ast.Tuple) and len(rets[0].value.elts) == 3:
            oe = ex.expand(rets[0].value.elts[1])
            oo = ck.ob('C16-D4.obs', t, rets[0].value.elts[1], rets[0])
            (oo.ok() if isinstance(oe, ast.Call) and call_name(oe) == kq else oo.fail('the returned observed statistic is `%s`, not the score kernel of the observation' % u(oe)[:70]))
            sims = rets[0].value.elts[2]
            if isinstance(sims, ast.Name):
                apps = [n for n in all_nodes(t) if isinstance(n, ast.Call) and isinstance(n.func, ast.Attribute) and n.func.attr == 'append'
                        and isinstance(n.func.value, ast.Name) and n.func.value.id in aliases_of(t, sims.id)]
                oo = ck.ob('C16-D4.sim', t, apps[0] if apps else 'append', apps[0] if apps else t.node)
                good = len(apps) == 1 and apps[0].args and isinstance(ex.expand(apps[0].args[0]), ast.Call) and call_name(ex.expand(apps[0].args[0])) == kq
                (oo.ok() if good else oo.fail('the value appended to the test distribution is not the score kernel applied to the simulated catalog'))


def _is(e, owner, what):
    s = strip_shape(e)
    if what == 'data':
        return isinstance(s, ast.Attribute) and s.attr == 'data' and isinstance(s.value, ast.Name) and s.value.id == owner
    return isinstance(s, ast.Call) and call_name(s) == '.' + what and isinstance(s.func.value, ast.Name) and s.func.value.id == owner and not s.args and not s.keywords


def rule_public(ck):
    P = ck.prog
    ck.clause('D4')
    table = [(BE + 'binary_spatial_test', BE + '_binary_likelihood_test', 'spatial_counts', 'spatial_counts'),
             (BE + 'binary_conditional_likelihood_test', BE + '_binary_likelihood_test', 'data', 'spatial_magnitude_counts'),
             (BR + 'brier_score_test', BR + '_brier_score_test', 'data', 'spatial_magnitude_counts')]
    for q, k, fw, ow in table:
        g = P.func(q)
        ex = Expander(P, g)
        calls = calls_in(P, g, k)
        o = ck.ob('C16-D4.public', g, calls[0] if calls else k, calls[0] if calls else g.node)
        if len(calls) != 1:
            o.fail('%s does not call %s exactly once' % (g.short, k.split('.')[-1]))
            continue
        kf = P.func(k)
        m, ok = bind_args(kf, calls[0])
        fa, oa = ex.expand(m[kf.positional_params[0]]), ex.expand(m[kf.positional_params[1]])
        fore, obs = g.positional_params[0], g.positional_params[1]
        probs = []
        if not _is(fa, fore, fw):
            probs.append('forecast data is `%s`, expected %s.%s' % (u(fa)[:50], fore, fw))
        if not _is(oa, obs, ow):
            probs.append('observed data is `%s`, expected %s.%s()' % (u(oa)[:50], obs, ow))
        (o.fail('; '.join(probs)) if probs else o.ok('%s.%s vs %s.%s()' % (fore, fw, obs, ow)))
        for flds in result_fields(P, g, ex):
            for fld, idx in (('quantile', 0), ('observed_statistic', 1), ('test_distribution', 2)):
                v = flds.get(fld)
                oo = ck.ob('C16-D4.slot.%s' % fld, g, v[1] if v else fld, v[1] if v else g.node)
                e = v[0] if v else None
                good = e is not None and is_marker(e, '__item__') and const_value(e.args[1]) == idx and isinstance(e.args[0], ast.Call) and call_name(e.args[0]) == k
                (oo.ok() if good else oo.fail('%s is not component %d of the kernel test result' % (fld, idx)))


def rule_cell_maps(ck):
    P = ck.prog
    ck.clause('D3')
    N = sym.Normalizer()
    f = P.func(PE + 'poisson_spatial_likelihood')
    ex = Expander(P, f)
    fo, ca = f.positional_params[0], f.positional_params[1]
    s = '(%s.event_count / %s.event_count)' % (ca, fo)
    r = '%s.spatial_counts()' % fo
    w = '%s.spatial_counts()' % ca
    rets = [x for x in returns(f) if x.value is not None]
    o = ck.ob('C16-D3.poll', f, rets[0].value, rets[0])
    compare_nf(o, ex.expand(rets[0].value), '-%s * %s + %s * numpy.log(%s * %s) - scipy.special.loggamma(%s + 1)' % (r, s, w, r, s, w), N,
               what='per-cell Poisson log-likelihood')
    f = P.func(PE + 'binary_spatial_likelihood')
    ex = Expander(P, f)
    fo, ca = f.positional_params[0], f.positional_params[1]
    rets = [x for x in returns(f) if x.value is not None]
    e = ex.expand(rets[0].value)
    o = ck.ob('C16-D3.bill', f, rets[0].value, rets[0])
    # X is an indicator array built by X = zeros; X[nonzero(counts)] = 1 : treat the name X as opaque but require that construction
    xs = [n for n in all_nodes(f) if isinstance(n, ast.Assign) and isinstance(n.targets[0], ast.Subscript) and const_value(n.value) == 1]
    ind_ok = False
    xname = None
    for a in xs:
        if isinstance(a.targets[0].value, ast.Name):
            idx = ex.expand(a.targets[0].slice)
            if 'numpy.nonzero(%s.spatial_counts())' % ca in u(idx):
                ind_ok = True
                xname = a.targets[0].value.id
    if not ind_ok:
        o.fail('the activity indicator is not built as X[nonzero(catalog.spatial_counts())] = 1')
        return
    zeros = 'numpy.zeros(%s.spatial_counts().shape)' % fo
    s = '(%s.event_count / %s.event_count)' % (ca, fo)
    r = '%s.spatial_counts()' % fo
    compare_nf(o, e, '(1 - {X}) * (-{r} * {s}) + {X} * numpy.log(1.0 - numpy.exp(-{r} * {s}))'.format(X=zeros, r=r, s=s), N,
               what='per-cell binary log-likelihood')


def rule_own_magnitudes_shared(ck):
    from . import c11
    ck.clause('shared C11-D5: a forecast bins magnitudes with its own edges')
    c11.rule_own_magnitudes(ck)


def rule_precision(ck):
    """C16-D3.double: numbers stay in the precision they were supplied in - no conversion of rates / counts / statistics to a narrower type
    (shared reading with C05-D5.double)"""
    from .common import rule_double_precision
    ck.clause('D3')
    rule_double_precision(ck, 'C16-D3.double', modules=('csep.core.binomial_evaluations', 'csep.core.brier_evaluations', 'csep.core.forecasts'), what='rates and scores')


def rule_inputs_shared(ck):
    """what the scores are computed from: the observation gridded without a sentinel reaching an index (shared C03-D1/D2/D5: an event
    below the lowest magnitude edge must not activate the last bin) and the rates read through the scaled view, fresh at every
    access (shared C11-D1/D4: after scale() the scores are those of the new rates)"""
    from . import c03, c11
    ck.clause('D2 (shared C03-D1/D2: the gridded observation)')
    c03.rule_mag_sentinel(ck)
    c03.rule_accumulation(ck)
    c03.rule_spatial_rejection(ck)
    ck.clause('D3 (shared C11-D1/D4: the rates that are scored)')
    c11.rule_scaling(ck)
    c11.rule_axes(ck)
    # rates and observation are paired bin by bin after flattening: both row-major, whatever the memory layout of the arrays
    from . import c05
    ck.clause('D3 (shared C05-D4.order: row-major flattening in the kernels)')
    c05.rule_flatten_order(ck)


RULES = [rule_masked, rule_indicator, rule_binary_formula, rule_brier_formula, rule_isomorphism, rule_public, rule_cell_maps, rule_own_magnitudes_shared, rule_precision, rule_inputs_shared]
