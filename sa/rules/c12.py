"""C12 - catalog-forecast CSV files decode to exactly the catalogs they encode (decoder state machine)."""
import ast
import re

from ..core import sym
from ..core.expand import u, call_name, get_arg, bind_args, Expander, is_marker, phi_alternatives
from ..core.loader import Inconclusive, AnchorMissing, const_value, parents
from .common import (explicit_guards_of, literal_dnf, guard_dnf, dispatch_targets, guarded_values, returns, all_nodes, callee, strip_shape, calls_in, guards_of, stmt_of, kw, find_assignments, compare_nf,
                     dict_literal_items, in_loop)

EXPLANATION = (
    "Decided: D1 with d = catalog_id - prev_id the branch tests of the reader loop denote {0}, {1}, {>=2} (or a "
    "refinement) and the else branch raises ValueError - together every integer is covered, decreasing ids are "
    "rejected; D2 in every branch with d >= 1 a `yield cls(data=events, catalog_id=prev_id, ...)` precedes the "
    "rebinding of events and prev_id, events is rebound to a fresh list (never cleared in place: the yielded catalog "
    "may alias it), and an unconditional final flush follows the loop; D3 the ids synthesised for a gap enumerate "
    "prev_id+1 .. catalog_id-1 (first = prev_id+1, count = d-1) and for a leading gap 0 .. catalog_id-1, as affine "
    "identities; D4 columns line[0..6] -> lon, lat, magnitude, time, depth, catalog_id, event_id and the event tuple "
    "is in CSEPCatalog.dtype order; the origin time comes only from strptime_to_utc_epoch with the two documented "
    "formats (no arithmetic on it); a placeholder row is one whose fields 1.. are ALL empty; the header is skipped "
    "only while prev_id is None; D5 'csv'/'ascii' dispatch to load_ascii_catalogs and load_stochastic_event_sets "
    "re-yields every catalog. NOT decided: an exhaustive run over short encodings (a dynamic technique) is the "
    "stronger evidence for the pairs of transitions.")
CLAUSES = {'D1': 'transition cover', 'D2': 'flush before reset', 'D3': 'gap synthesis', 'D4': 'columns / placeholder / header', 'D5': 'dispatch'}
TRUSTED = ['CPython ast', 'csv.reader yields one list of strings per line', 'C15 for strptime_to_utc_epoch']
L = 'csep.core.catalogs.CSEPCatalog.load_ascii_catalogs'
ROOTS = [L, 'csep.load_stochastic_event_sets', 'csep.load_catalog_forecast']
TECHNIQUE = 'static analysis: integer-set reading of the branch tests, statement-order (path) rule inside each branch, affine forms for gap ids'


def _d_set(test, N):
    """interpret a test on catalog_id/prev_id as a set of d = catalog_id - prev_id: ('eq',k) | ('ge',k) | ('le',k) | None"""
    p = N.nf(test)
    st = p.single_term()
    if st is None or st[1] != 1 or len(st[0]) != 1:
        return None
    a = st[0][0][0]
    if a[0] not in ('zero', 'pos', 'nonneg', 'nonzero'):
        return None
    d = a[1]
    cid, pid = ('n', 'catalog_id'), ('n', 'prev_id')
    lin = {}
    const = sym.ZERO
    for m, c in d.t.items():
        if m == ():
            const = c
        elif len(m) == 1 and m[0][1] == 1 and m[0][0] in (cid, pid):
            lin[m[0][0]] = c
        else:
            return None
    s = lin.get(cid, 0)
    if s == 0 or lin.get(pid, 0) != -s:
        return None
    # s*(d) + const  {==,>,>=} 0
    if a[0] == 'zero':
        k = -const / s
        return ('eq', k)
    if a[0] == 'nonzero':
        return None
    if s > 0:
        # d + const/s > 0  -> d >= -const+1 (ints)
        k = -const / s
        return ('ge', k + 1) if a[0] == 'pos' else ('ge', k)
    k = const / (-s)   # -d + const' > 0 -> d < const' -> d <= const'-1
    return ('le', k - 1) if a[0] == 'pos' else ('le', k)


def _chain(ifnode):
    """flatten if/elif/else -> [(test or None, body)]"""
    out = []
    n = ifnode
    while True:
        out.append((n.test, n.body))
        if len(n.orelse) == 1 and isinstance(n.orelse[0], ast.If):
            n = n.orelse[0]
            continue
        if n.orelse:
            out.append((None, n.orelse))
        break
    return out


def _main_loop(P):
    f = P.func(L)
    loops = [n for n in all_nodes(f) if isinstance(n, ast.For) and 'reader' in u(n.iter)]
    if len(loops) != 1:
        raise Inconclusive('cannot find the single reader loop of load_ascii_catalogs')
    return f, loops[0]


def rule_transitions(ck):
    P = ck.prog
    f, lp = _main_loop(P)
    N = sym.Normalizer()
    ck.clause('D1')
    chains = [s for s in lp.body if isinstance(s, ast.If) and _d_set(s.test, N) is not None]
    o = ck.ob('C12-D1.chain', f, chains[0].test if chains else 'if/elif chain on catalog_id vs prev_id', chains[0] if chains else lp)
    if len(chains) != 1:
        o.fail('expected one if/elif chain comparing catalog_id with prev_id in the reader loop, found %d' % len(chains))
        return None
    ch = _chain(chains[0])
    sets = []
    for t, body in ch:
        sets.append(_d_set(t, N) if t is not None else 'else')
    if any(s is None for s in sets):
        o.unknown('a branch test is not a comparison of catalog_id with prev_id: %s' % [u(t) for t, b in ch if t is not None])
        return None
    # cover: integers -3..6 membership
    def member(s, d):
        if s == 'else':
            return True
        k = s[1]
        return (s[0] == 'eq' and d == k) or (s[0] == 'ge' and d >= k) or (s[0] == 'le' and d <= k)
    probs = []
    taken = {}
    for d in range(-4, 8):
        for i, s in enumerate(sets):
            if member(s, d):
                taken[d] = i
                break
        else:
            probs.append('d=%d reaches no branch' % d)
    # d<0 must raise ValueError, d>=0 must not
    for d, i in taken.items():
        body = ch[i][1]
        raises = any(isinstance(x, ast.Raise) for s in body for x in ast.walk(s))
        if d < 0 and not raises:
            probs.append('a decreasing catalog id (d=%d) is accepted by the branch `%s`' % (d, u(ch[i][0]) if ch[i][0] is not None else 'else'))
        if d >= 0 and raises:
            probs.append('d=%d (a legal step) raises' % d)
    # branch for d==0 must not yield; branches for d>=1 must yield
    for d in (0, 1, 2, 5):
        if d in taken:
            body = ch[taken[d]][1]
            yields = any(isinstance(x, ast.Yield) for s in body for x in ast.walk(s))
            if d == 0 and yields:
                probs.append('the same-catalog branch (d=0) yields a catalog')
            if d >= 1 and not yields:
                probs.append('a step of d=%d does not flush the pending catalog' % d)
    if 1 in taken and 2 in taken and taken[1] == taken[2]:
        pass  # uniform handling of d>=1 is a legal refinement
    (o.fail('; '.join(probs)) if probs else o.ok('d in %s; else raises' % [s if s == 'else' else '%s %s' % s for s in sets]))
    return f, lp, ch, sets, taken


def rule_flush(ck):
    P = ck.prog
    r = rule_transitions.__wrapped__(ck) if hasattr(rule_transitions, '__wrapped__') else None
    f, lp = _main_loop(P)
    N = sym.Normalizer()
    ck.clause('D2')
    chains = [s for s in lp.body if isinstance(s, ast.If) and _d_set(s.test, N) is not None]
    if len(chains) != 1:
        return
    ch = _chain(chains[0])
    for t, body in ch:
        s = _d_set(t, N) if t is not None else 'else'
        if s == 'else' or s is None or (s[0] == 'eq' and s[1] == 0):
            continue
        o = ck.ob('C12-D2.order', f, t, body[0])
        # linearise body statements (top level)
        first_yield = None
        rebind_events = rebind_prev = None
        for i, st in enumerate(body):
            ys = [x for x in ast.walk(st) if isinstance(x, ast.Yield)]
            if ys and first_yield is None and not isinstance(st, (ast.For, ast.While)):
                first_yield = (i, ys[0])
            for x in ast.walk(st):
                if isinstance(x, ast.Assign) and any(isinstance(tg, ast.Name) and tg.id == 'events' for tg in x.targets) and rebind_events is None:
                    rebind_events = i
                if isinstance(x, ast.Assign) and any(isinstance(tg, ast.Name) and tg.id == 'prev_id' for tg in x.targets) and rebind_prev is None:
                    rebind_prev = i
                if isinstance(x, ast.Call) and isinstance(x.func, ast.Attribute) and x.func.attr in ('clear', 'pop', 'remove') and u(x.func.value) == 'events':
                    rebind_events = -1
        probs = []
        if first_yield is None:
            probs.append('the pending catalog is not yielded')
        else:
            y = first_yield[1].value
            kws = {k.arg: u(k.value) for k in y.keywords} if isinstance(y, ast.Call) else {}
            if kws.get('data') != 'events' or kws.get('catalog_id') != 'prev_id':
                probs.append('the flush is `%s`, expected cls(data=events, catalog_id=prev_id, ...)' % u(y)[:70])
            if rebind_events is not None and rebind_events <= first_yield[0]:
                probs.append('`events` is %s before the pending catalog is yielded: the catalog of the previous id loses its events or receives the '
                             'new one' % ('cleared in place' if rebind_events == -1 else 'rebound'))
            if rebind_prev is not None and rebind_prev < first_yield[0]:
                probs.append('prev_id is advanced before the flush: the pending catalog is yielded under the new id')
        if rebind_events is None:
            probs.append('the pending list is not restarted for the new catalog')
        if rebind_events == -1:
            probs.append('`events` is cleared in place; the catalog just yielded may alias that list')
        if rebind_prev is None:
            probs.append('prev_id is not advanced to catalog_id')
        else:
            adv = [x for st in body for x in ast.walk(st) if isinstance(x, ast.Assign) and any(isinstance(tg, ast.Name) and tg.id == 'prev_id' for tg in x.targets)]
            if any(u(a.value) != 'catalog_id' for a in adv):
                probs.append('prev_id is set to `%s`, not to catalog_id' % u(adv[0].value))
        # the new list holds the current event unless the row is a placeholder
        news = [x for st in body for x in ast.walk(st) if isinstance(x, ast.Assign) and any(isinstance(tg, ast.Name) and tg.id == 'events' for tg in x.targets)]
        alts = [gv for x in news for gv in guarded_values(P, f, x.value, x, stop=lp)]
        vals = sorted({u(v) for v, _ in alts})
        if vals and vals != ['[]', '[temp_event]']:
            probs.append('the new pending list is %s; it must be [temp_event], or [] for a placeholder row' % vals)
        for v, g in alts:
            if u(v) == '[temp_event]' and ('empty', False) not in g:
                probs.append('[temp_event] is not restricted to non-placeholder rows')
        (o.fail('; '.join(probs)) if probs else o.ok('yield(events, prev_id) -> gap catalogs -> events = [temp_event]|[] -> prev_id = catalog_id'))
    # same-catalog branch appends
    for t, body in ch:
        s = _d_set(t, N) if t is not None else None
        if s == ('eq', 0):
            o = ck.ob('C12-D2.append', f, t, body[0])
            apps = [x for st in body for x in ast.walk(st) if isinstance(x, ast.Call) and isinstance(x.func, ast.Attribute) and x.func.attr == 'append' and u(x.func.value) == 'events']
            good = len(apps) == 1 and u(apps[0].args[0]) == 'temp_event'
            if good:
                g = explicit_guards_of(apps[0], lp)
                inner = [u(t2) for t2, pol in g if t2 is not t and any(x is apps[0] for b_ in body for x in ast.walk(b_)) and
                         any(t2 is x for b_ in body for x in ast.walk(b_))]
                if len(inner) == 1 and re.fullmatch(r'not \w+', inner[0]):
                    # a named condition (`is_blank = all([...])`; `if not is_blank:`): read through its definition
                    nm_ = inner[0][4:]
                    defs_ = [a_ for a_ in find_assignments(f, nm_) if isinstance(a_, ast.Assign)]
                    if len(defs_) == 1:
                        inner = ['not ' + u(defs_[0].value)]
                good = len(inner) == 1 and 'temp_event' in inner[0] and "(None, '')" in inner[0] and inner[0].startswith('not all(')
                if not good and len(inner) == 1 and inner[0].startswith('not all(') and "(None, '')" in inner[0]:
                    # the comprehension over the event tuple written out: one emptiness test per component of temp_event
                    tev = [a_ for a_ in find_assignments(f, 'temp_event') if isinstance(a_, ast.Assign) and isinstance(a_.value, ast.Tuple)]
                    comps = {u(e_) for a_ in tev for e_ in a_.value.elts}
                    tested = set(re.findall(r"(\w+) in \(None, ''\)", inner[0]))
                    good = bool(comps) and tested == comps
            (o.ok('appends the event unless every field is empty') if good else o.fail('the same-catalog branch does not append the (non-placeholder) event to the pending list'))
    # final flush
    o = ck.ob('C12-D2.final', f, 'final flush after the loop', lp)
    parent_body = lp._parent.body if hasattr(lp, '_parent') and hasattr(lp._parent, 'body') else []
    after = parent_body[parent_body.index(lp) + 1:] if lp in parent_body else []
    ys = [x for st in after for x in ast.walk(st) if isinstance(x, ast.Yield)]
    ok = False
    if len(ys) == 1 and not any(isinstance(st, (ast.If, ast.For, ast.While, ast.Try)) for st in after):
        ex = Expander(P, f, keep={'events', 'prev_id', 'catalog_id'})
        v = ex.expand(ys[0].value)
        kws = {k.arg: u(k.value) for k in v.keywords} if isinstance(v, ast.Call) else {}
        ok = kws.get('data') == 'events' and kws.get('catalog_id') in ('prev_id', None) and 'prev_id' in u(v)
    (o.ok('unconditional yield cls(data=events, catalog_id=prev_id) after the loop') if ok else
     o.fail('the last catalog of the file is not flushed unconditionally after the loop'))


def _gap_loops(stmts):
    out = []
    for st in stmts:
        for x in ast.walk(st):
            if isinstance(x, ast.For) and isinstance(x.iter, ast.Call) and u(x.iter.func) == 'range':
                ys = [y for y in ast.walk(x) if isinstance(y, ast.Yield)]
                if ys:
                    out.append((x, ys[0]))
    return out


def rule_gaps(ck):
    P = ck.prog
    f, lp = _main_loop(P)
    ex = Expander(P, f, keep={'events', 'prev_id', 'catalog_id'})
    N = sym.Normalizer()
    ck.clause('D3')
    loops = _gap_loops(lp.body)
    o = ck.ob('C12-D3.sites', f, '%d gap-synthesis loops' % len(loops), lp)
    if len(loops) != 2:
        o.fail('expected two gap-synthesis loops (leading gap, interior gap), found %d' % len(loops))
        return
    o.ok()
    for g, y in loops:
        var = g.target.id if isinstance(g.target, ast.Name) else None
        args = g.iter.args
        lo = N.nf(ex.expand(args[0])) if len(args) >= 2 else sym.Poly()
        hi = N.nf(ex.expand(args[1] if len(args) >= 2 else args[0]))
        if len(args) == 3:
            ck.ob('C12-D3.ids', f, g.iter, g).unknown('range with a step')
            continue
        call = y.value
        kws = {k.arg: k.value for k in call.keywords} if isinstance(call, ast.Call) else {}
        oo = ck.ob('C12-D3.ids', f, '%s: %s' % (u(g.iter), u(kws.get('catalog_id')) if kws.get('catalog_id') is not None else '?'), g)
        if u(kws.get('data', ast.Constant(0))) != '[]' or 'catalog_id' not in kws:
            oo.fail('a synthesised catalog is not cls(data=[], catalog_id=...)')
            continue
        ide = ex.expand(kws['catalog_id'])
        # id as polynomial in var: substitute var -> lo for first; coefficient of var must be 1
        env0 = {var: ast.Constant(0)} if var else {}
        idp = sym.Normalizer().nf(ide)
        vatom = None
        for a in idp.atoms():
            if a[0] in ('index', 'elem') or (a[0] == 'n' and a[1] == var):
                vatom = a
        if vatom is None:
            oo.fail('the synthesised id `%s` does not depend on the loop counter: every missing catalog gets the same id' % u(kws['catalog_id']))
            continue
        lin = {m: c for m, c in idp.t.items()}
        coef = idp.t.get(((vatom, sym.ONE),), 0)
        rest = idp - sym.Poly.atom(vatom).scale(coef)
        if coef != 1 or vatom in rest.atoms():
            oo.fail('ids advance by %s per missing catalog' % coef)
            continue
        first = rest + lo
        count = hi - lo
        # which gap?  leading: inside `if prev_id is None` ; interior: inside the d>=2 branch
        leading = any('prev_id is None' in u(t) and pol for t, pol in guards_of(g, lp))
        if leading:
            wf, wc = sym.Poly(), N.nf('catalog_id')
            desc = '0 .. catalog_id-1'
        else:
            wf, wc = N.nf('prev_id + 1'), N.nf('catalog_id - prev_id - 1')
            desc = 'prev_id+1 .. catalog_id-1'
            # prev_id must still be the old id at this point: no rebinding of prev_id before the loop in the branch
            for t, pol in guards_of(g, lp):
                pass
            br = g._parent
            if hasattr(br, 'body') and g in getattr(br, 'body', []):
                before = br.body[:br.body.index(g)]
                if any(isinstance(x, ast.Assign) and any(isinstance(tg, ast.Name) and tg.id == 'prev_id' for tg in x.targets) for st in before for x in ast.walk(st)) \
                        and ('n', 'prev_id') in (first.atoms() | count.atoms()):
                    oo.fail('prev_id is advanced before the gap ids are computed from it')
                    continue
        if first == wf and count == wc:
            oo.ok('ids %s (first %s, count %s)' % (desc, sym.show(first), sym.show(count)))
        else:
            oo.fail('the synthesised ids start at `%s` and number `%s`; the gap needs %s (first `%s`, count `%s`): an off-by-one duplicates or '
                    'skips a catalog id' % (sym.show(first), sym.show(count), desc, sym.show(wf), sym.show(wc)))


DTYPE_ORDER = ['id', 'origin_time', 'latitude', 'longitude', 'depth', 'magnitude']


def rule_columns(ck):
    P = ck.prog
    ck.clause('D4')
    g = P.funcs.get(L + '.<locals>.read_catalog_line')
    if g is not None:
        ex = Expander(P, g)
        rets = [r for r in returns(g) if r.value is not None]
        o = ck.ob('C12-D4.tuple', g, rets[0].value if rets else 'return', rets[0] if rets else g.node)
        if len(rets) != 1 or not isinstance(rets[0].value, ast.Tuple) or len(rets[0].value.elts) != 2:
            o.fail('read_catalog_line does not return (event, catalog_id)')
            return
        ev, cid = [ex.expand(x) for x in rets[0].value.elts]
        line = g.positional_params[0]
    else:
        # the row decoder is no function of its own (any more): read the event tuple and the catalog id where the reader loop binds them
        g, lp0 = _main_loop(P)
        line = lp0.target.id if isinstance(lp0.target, ast.Name) else 'line'
        ex = Expander(P, g, keep={line})
        evs = [a for a in find_assignments(g, 'temp_event') if isinstance(a, ast.Assign) and in_loop(a, g.node) is lp0]
        cids = [a for a in find_assignments(g, 'catalog_id') if isinstance(a, ast.Assign) and in_loop(a, g.node) is lp0]
        o = ck.ob('C12-D4.tuple', g, evs[-1].value if evs else 'event tuple', evs[-1] if evs else lp0)
        if not evs or not cids:
            raise AnchorMissing('neither the row decoder read_catalog_line nor the bindings of temp_event / catalog_id in the reader loop were found')
        ev, cid = ex.expand(evs[-1].value), ex.expand(cids[-1].value)
    def colidx(e):
        """index of line[...] leaf the value derives from (unique), and the wrapper functions"""
        idx = {const_value(x.slice) for x in ast.walk(e) if isinstance(x, ast.Subscript) and isinstance(x.value, ast.Name) and x.value.id == line}
        return idx
    want = {'id': 6, 'origin_time': 3, 'latitude': 1, 'longitude': 0, 'depth': 4, 'magnitude': 2}
    dt = P.cls('csep.core.catalogs.CSEPCatalog')
    # dtype order from the class literal
    names = None
    for n in dt.node.body:
        if isinstance(n, ast.Assign) and u(n.targets[0]) == 'dtype':
            lst = n.value.args[0] if isinstance(n.value, ast.Call) and n.value.args else None
            if isinstance(lst, ast.List):
                names = [const_value(t.elts[0]) for t in lst.elts if isinstance(t, ast.Tuple)]
    probs = []
    if names != DTYPE_ORDER:
        probs.append('CSEPCatalog.dtype field order is %s' % names)
    if not isinstance(ev, ast.Tuple) or len(ev.elts) != 6:
        probs.append('the event is not a 6-tuple')
    else:
        for fld, e in zip(DTYPE_ORDER, ev.elts):
            ci = colidx(e)
            if ci != {want[fld]}:
                probs.append('slot %s is read from column(s) %s, the CSV layout lon,lat,mag,time,depth,catalog_id,event_id puts it in column %d' % (fld, sorted(ci), want[fld]))
    if colidx(cid) != {5} or 'builtins.int(' not in u(cid):
        probs.append('catalog_id is `%s`, expected int(line[5])' % u(cid))
    (o.fail('; '.join(probs)) if probs else o.ok('(event_id, time, lat, lon, depth, mag) from columns (6,3,1,0,4,2); catalog_id = int(line[5])'))
    # the fallback to the format without a fraction hangs on `except ValueError`: what the string conversion raises for a string that
    # does not match must still *be* a ValueError when it arrives (a wrapper that re-raises another type makes every whole-second time fatal)
    ot = ck.ob('C12-D4.fallbacktype', g, 'a non-matching time string arrives as ValueError', g.node)
    conv = []
    for q_ in ('csep.utils.time_utils.strptime_to_utc_epoch', 'csep.utils.time_utils.strptime_to_utc_datetime'):
        h_ = P.funcs.get(q_)
        for hd in ([x for x in all_nodes(h_) if isinstance(x, ast.ExceptHandler)] if h_ is not None else []):
            catches = hd.type is None or any(w in u(hd.type) for w in ('ValueError', 'Exception'))
            for r_ in [x for st_ in hd.body for x in ast.walk(st_) if isinstance(x, ast.Raise) and x.exc is not None]:
                nm_ = u(r_.exc.func) if isinstance(r_.exc, ast.Call) else u(r_.exc)
                cls_ = next((c_ for q2, c_ in P.classes.items() if q2.split('.')[-1] == nm_.split('.')[-1]), None)
                is_ve = nm_.split('.')[-1] == 'ValueError' or (cls_ is not None and any('ValueError' in u(b_) for b_ in cls_.node.bases))
                if catches and not is_ve:
                    conv.append((h_, nm_))
    (ot.fail('%s re-raises the ValueError of strptime as %s, which is no ValueError: the handler that retries the format without fractional '
             'seconds is never entered and a file with a whole-second time cannot be loaded' % (conv[0][0].short, conv[0][1])) if conv else ot.ok())
    # origin time provenance
    o = ck.ob('C12-D4.time', g, 'origin time conversion', g.node)
    if isinstance(ev, ast.Tuple) and len(ev.elts) == 6:
        t = ev.elts[1]
        alts = phi_alternatives(t)
        probs = []
        fmts = set()
        for a in alts:
            a2 = strip_shape(a)
            if isinstance(a2, ast.Subscript) and u(a2) == '%s[3]' % line:
                continue    # empty string (placeholder row)
            if isinstance(a2, ast.Call) and call_name(a2) == 'csep.utils.time_utils.strptime_to_utc_epoch' and u(a2.args[0]) == '%s[3]' % line:
                fmts.add(const_value(kw(a2, 'format', 1)))
                continue
            probs.append('origin time is computed as `%s`: it must come from strptime_to_utc_epoch(line[3], <format>) alone (arithmetic on '
                         'float seconds truncates about 0.6%% of millisecond values)' % u(a)[:90])
        if not probs and fmts != {'%Y-%m-%dT%H:%M:%S.%f', '%Y-%m-%dT%H:%M:%S'}:
            probs.append('time formats tried are %s; files carry times with and without fractional seconds' % sorted(map(str, fmts)))
        (o.fail('; '.join(probs)) if probs else o.ok('strptime_to_utc_epoch with and without fractional seconds'))
    # placeholder detection in the main loop
    f, lp = _main_loop(P)
    asg = [a for a in find_assignments(f, 'empty') if in_loop(a, f.node) is lp]
    o = ck.ob('C12-D4.placeholder', f, 'placeholder row = all fields 1.. empty', asg[0] if asg else lp)
    trues = [a for a in asg if const_value(a.value) is True]
    falses = [a for a in asg if const_value(a.value) is False]
    ok = False
    if len(asg) == 2 and len(trues) == 1 and len(falses) == 1:
        g_ = guards_of(trues[0], lp)
        ok = len(g_) == 1 and g_[0][1] and u(g_[0][0]).replace(' ', '') in ("all([valin(None,'')forvalintemp_event[1:]])", "all((valin(None,'')forvalintemp_event[1:]))") \
            and not guards_of(falses[0], lp) and falses[0].lineno < trues[0].lineno
    elif len(asg) == 1:
        want = ("all([valin(None,'')forvalintemp_event[1:]])", "all((valin(None,'')forvalintemp_event[1:]))")
        ok = u(asg[0].value).replace(' ', '') in want
        if not ok:
            # the fields named first (`values = temp_event[1:]`): read through the definition
            try:
                ok = u(Expander(P, f, keep={'temp_event'}).expand(asg[0].value)).replace(' ', '').replace('builtins.', '') in want
            except Inconclusive:
                ok = False
    (o.ok() if ok else o.fail('a row counts as a placeholder under another condition than "every field after the event id is empty" (%s): a '
                             'legitimate event (e.g. origin time 0 = 1970-01-01T00:00:00) would be dropped when it opens a catalog' %
                             '; '.join(u(a)[:60] for a in asg)))
    # header skip only while prev_id is None: a row may be passed over (continue before it is decoded) only before the first data
    # row was seen; whatever recognises the header (a helper, an inlined comparison) is not the rule's business
    decode = [n for n in all_nodes(f) if isinstance(n, ast.Assign) and any(isinstance(x, ast.Name) and x.id == 'temp_event' for t_ in n.targets for x in ast.walk(t_))
              and in_loop(n, f.node) is lp]
    first_decode = min((n.lineno for n in decode), default=None)
    skips = [n for n in ast.walk(lp) if isinstance(n, ast.Continue) and in_loop(n, f.node) is lp and first_decode is not None and n.lineno < first_decode]
    o = ck.ob('C12-D4.header', f, skips[0] if skips else 'header skip', skips[0] if skips else lp)
    ok = bool(skips)
    for sk in skips:
        for conj in guard_dnf(sk, lp):
            if ('prev_id is None', True) not in [(u(a_), p_) for a_, p_ in conj]:
                ok = False
    (o.ok('only before the first data row') if ok else o.fail('the header line is not skipped exactly while prev_id is None'))


def _every_path_yields(block):
    """does every path through one iteration (the statements of the loop body) yield a catalog or raise, before moving on?"""
    for i, st in enumerate(block):
        if isinstance(st, ast.Expr) and isinstance(st.value, (ast.Yield, ast.YieldFrom)):
            return True
        if isinstance(st, ast.Raise):
            return True
        if isinstance(st, (ast.Continue, ast.Break, ast.Return)):
            return False
        if isinstance(st, ast.If):
            b = _every_path_yields(st.body)
            ends = bool(st.body) and isinstance(st.body[-1], (ast.Continue, ast.Raise, ast.Return))
            if st.orelse:
                if b and _every_path_yields(st.orelse):
                    return True
                if not b and ends:
                    return False
            else:
                if ends and not b:
                    return False
            # the branch either covered itself and left the iteration, or falls through: go on with the rest
            continue
        if isinstance(st, ast.Try):
            # catalog = next(result) with a StopIteration handler that returns is the end of the stream, not a skipped catalog
            continue
    return False


def _arms(lp):
    """the alternative arms of the loop body (branches of a top-level if/elif chain, else the body itself)"""
    chain = [s_ for s_ in lp.body if isinstance(s_, ast.If)]
    if len(chain) == 1 and any(isinstance(x, ast.Yield) for x in ast.walk(chain[0])):
        arms, cur = [], chain[0]
        while True:
            arms.append(ast.Module(body=cur.body, type_ignores=[]))
            if len(cur.orelse) == 1 and isinstance(cur.orelse[0], ast.If):
                cur = cur.orelse[0]
                continue
            if cur.orelse:
                arms.append(ast.Module(body=cur.orelse, type_ignores=[]))
            break
        return arms
    return [ast.Module(body=lp.body, type_ignores=[])]


def rule_dispatch(ck):
    P = ck.prog
    ck.clause('D5')
    for q, key in (('csep.load_stochastic_event_sets', 'csv'), ('csep.load_catalog_forecast', 'ascii')):
        f = P.func(q)
        tabs = [n for n in all_nodes(f) if isinstance(n, ast.Assign) and isinstance(n.value, ast.Dict)]
        o = ck.ob('C12-D5.map', f, tabs[0].value if tabs else 'mapping', tabs[0] if tabs else f.node)
        good = dispatch_targets(P, f, key) == {L}
        (o.ok("'%s' -> CSEPCatalog.load_ascii_catalogs" % key) if good else o.fail("'%s' does not dispatch to CSEPCatalog.load_ascii_catalogs" % key))
    f = P.func('csep.load_stochastic_event_sets')
    o = ck.ob('C12-D5.reyield', f, 're-yields every catalog', f.node)
    wl = [n for n in all_nodes(f) if isinstance(n, ast.While)]
    ok = False
    fl = [n for n in all_nodes(f) if isinstance(n, ast.For) and isinstance(n.target, ast.Name)]
    if not wl and len(fl) == 1:
        # for catalog in result: ... yield catalog  (the iterator protocol does what next()/StopIteration spelled out)
        lp = fl[0]
        ys = [x for x in ast.walk(lp) if isinstance(x, ast.Yield)]
        brk = [x for x in ast.walk(lp) if isinstance(x, (ast.Break, ast.Return))]
        native = [y for y in ys if u(y.value) == lp.target.id]
        src = Expander(P, f).expand(lp.iter)
        ok = bool(native) and not brk and isinstance(src, ast.Call) and _every_path_yields(lp.body)
    if len(wl) == 1 and const_value(wl[0].test) is True:
        ys = [x for x in ast.walk(wl[0]) if isinstance(x, ast.Yield)]
        nx = [x for x in ast.walk(wl[0]) if isinstance(x, ast.Call) and u(x.func) == 'next']
        stops = [h for x in ast.walk(wl[0]) if isinstance(x, ast.Try) for h in x.handlers if u(h.type) == 'StopIteration' and any(isinstance(s, ast.Return) for s in h.body)]
        brk = [x for x in ast.walk(wl[0]) if isinstance(x, ast.Break)]
        native = [y for y in ys if u(y.value) == 'catalog']
        swallow = [h for x in ast.walk(wl[0]) if isinstance(x, ast.Try) for h in x.handlers
                   if u(h.type) != 'StopIteration' and not any(isinstance(s_, ast.Raise) for s_ in ast.walk(h))]
        ok = len(nx) == 1 and len(stops) == 1 and native and not brk and _every_path_yields(wl[0].body) and not swallow
        if swallow:
            o.fail('an exception of the decoder (`except %s`) ends the stream silently: a file with decreasing catalog ids is accepted and a '
                   'truncated forecast returned instead of the ValueError' % (u(swallow[0].type) if swallow[0].type is not None else ''))
            return
    (o.ok('while True: catalog = next(result) ... yield') if ok else o.fail('load_stochastic_event_sets no longer forwards every catalog of the file'))


def rule_transitions_only(ck):
    rule_transitions(ck)


def rule_dialect(ck):
    from . import c14
    ck.clause('D4 (shared C14-D1 dialect)')
    c14.rule_dialect(ck)


def rule_time_and_order(ck):
    """event times are decoded by the shared string parser (C15-D2/D3) and the decoded events stay in file order: nothing between
    the reader and the catalog object sorts or drops rows (shared C14-D7.roworder on the catalog constructor path)"""
    from . import c14, c15
    ck.clause('D4 (shared C15-D2/D3 time parsing, C14-D7 row order)')
    c15.rule_utc(ck)
    c15.rule_exact(ck, only=('strptime_to_utc_epoch', 'datetime_to_utc_epoch', 'strptime_to_utc_datetime'))
    c15.rule_formats(ck)
    # the forecast object that yields the decoded catalogs: its iteration state has no writer outside its own four methods
    from . import c13
    c13.rule_writers(ck)
    c13.rule_next(ck)
    c14.rule_row_order(ck)


RULES = [rule_dialect, rule_transitions_only, rule_flush, rule_gaps, rule_columns, rule_dispatch, rule_time_and_order]
