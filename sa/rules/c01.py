"""C01 - Cartesian regions: one half-open partition shared by every observer."""
import ast

from ..core import sym
from ..core.expand import u, call_name, get_arg, bind_args, Expander, is_marker, phi_alternatives
from ..core.loader import Inconclusive, const_value, parents
from .common import (returns, all_nodes, callee, strip_shape, calls_in, guards_of, guard_dnf, stmt_of, loops_around, role_of, kw,
                     is_true, find_assignments, literal_dnf, is_none_test, in_loop)
from . import sentinel

EXPLANATION = (
    "Decided: D1 every function that maps a point to a Cartesian cell bins the longitude against the x-edges and "
    "the latitude against the y-edges with bin1d_vec in closed mode and indexes bbox_mask / idx_map as [row, col] - "
    "the axis order and layer roles in which _build_bitmask_vec writes them; D2 outside regions.py nobody bins "
    "coordinates: catalogs go through region.get_index_of(lons, lats) / region.get_masked(lons, lats) in (lon, lat) "
    "order; D3 the -1 of bin1d_vec never reaches an index store or a surviving index load (idiom catalogue), "
    "get_index_of raises for -1 and for masked cells, get_masked flags both; D4 mask polarity: the writer "
    "initialises 1 (masked) and clears to 0 only for a cell whose file flag is 1 (or without flags); every reader's "
    "test leads to the matching outcome (1 -> reject/raise/NaN/skip, 0 -> accept/lookup); D5 cells are hashed by "
    "their midpoints and the edges come from cleaner_range(min origin, max origin, dh); D6 a spacing that may be an "
    "inexact float difference of coordinates is snapped before it scales the integer edge grid; D7 degenerate "
    "one-row / one-column lattices: a coordinate edge array of a single edge must not be binned open-ended. "
    "Round 5: D1.double no conversion of origins, edges or coordinates to a narrower numeric type in regions.py / calc.py. "
    "NOT decided: which side of an edge a particular float64 lands on, the 1e-12 tolerance band, the shipped region files.")
CLAUSES = {'D1': 'single partition, axis order, layer roles', 'D2': 'who may bin coordinates', 'D3': 'sentinel rejection',
           'D4': 'mask polarity', 'D5': 'midpoint hashing and edge generation', 'D6': 'exactness of the lattice step',
           'D7': 'single-edge coordinate grids'}
TRUSTED = ['CPython ast', 'numpy index -1 addresses the last element', 'C02 for the 1-D kernel',
           'vocabulary of coordinate roles (lon/x/binx/xs, lat/y/biny/ys)']
ROOTS = ['csep.core.regions.CartesianGrid2D.get_index_of', 'csep.core.regions.CartesianGrid2D.get_masked',
         'csep.core.regions.CartesianGrid2D.get_location_of', 'csep.core.regions.CartesianGrid2D.get_cartesian',
         'csep.core.regions.CartesianGrid2D.__init__', 'csep.core.regions.CartesianGrid2D.from_origins',
         'csep.core.catalogs.AbstractBaseCatalog.filter_spatial', 'csep.core.catalogs.AbstractBaseCatalog.spatial_counts',
         'csep.core.regions._bin_catalog_spatio_magnitude_counts', 'csep.core.regions._bin_catalog_spatial_counts',
         'csep.core.regions._bin_catalog_probability']
TECHNIQUE = 'static analysis: role typing of binning calls, sentinel taint flow, polarity of mask tests, def-use of the lattice step'

G = 'csep.core.regions.CartesianGrid2D.'
R = 'csep.core.regions.'
BIN = 'csep.utils.calc.bin1d_vec'
OBSERVERS = [G + 'get_index_of', G + 'get_masked', R + '_bin_catalog_spatio_magnitude_counts',
             R + '_bin_catalog_spatial_counts', R + '_bin_catalog_probability', G + '_build_bitmask_vec']
ACCEPTED_SENTINEL = {
    'a[idy[i], idx[i], 1]': 'midpoints derive from the same polygons whose origins span xs/ys: -1 is infeasible by construction',
}
MASK_READERS = [G + 'get_index_of', G + 'get_masked', G + 'get_cartesian', R + '_bin_catalog_spatio_magnitude_counts',
                R + '_bin_catalog_spatial_counts', R + '_bin_catalog_probability']


_WRAP = {}


def coord_binners(P):
    """Package functions of regions.py that wrap bin1d_vec for coordinates: every valued return is a bin1d_vec result
    whose points argument is a parameter. -> {qualname: (points param, edges param)}"""
    key = id(P)
    if key in _WRAP:
        return _WRAP[key]
    out = {}
    for f in P.funcs_in('csep.core.regions'):
        if f.cls is not None or f.parent is not None:
            continue
        rets = [r for r in returns(f) if r.value is not None]
        calls = calls_in(P, f, BIN)
        if not rets or not calls:
            continue
        ex = Expander(P, f)
        ok = True
        pts_p = edges_p = None
        for r in rets:
            for alt in phi_alternatives(ex.expand(r.value)):
                a = strip_shape(alt)
                if not (isinstance(a, ast.Call) and call_name(a) == BIN):
                    ok = False
                    continue
                pa, ea = kw(a, 'p', 0), kw(a, 'bins', 1)
                pa = strip_shape(pa) if pa is not None else None
                if not (isinstance(pa, ast.Name) and pa.id in f.params):
                    ok = False
                    continue
                pts_p = pa.id
                en = [n.id for n in ast.walk(ea) if isinstance(n, ast.Name) and n.id in f.params] if ea is not None else []
                if en:
                    edges_p = en[0]
        if ok and pts_p and edges_p:
            out[f.qualname] = (pts_p, edges_p)
    _WRAP[key] = out
    return out


def _coord_calls(P, f):
    """[(result var, call, role of points, role of edges)] for coordinate binning calls in f (bin1d_vec or a wrapper)"""
    ex = Expander(P, f)
    out = []
    wrappers = coord_binners(P)
    for c in calls_in(P, f, {BIN} | set(wrappers)):
        cq = callee(P, f, c)
        if cq in wrappers:
            if f.qualname == cq:
                continue
            m, ok = bind_args(P.func(cq), c)
            pts, edges = m.get(wrappers[cq][0]), m.get(wrappers[cq][1])
        else:
            if f.qualname in wrappers:
                continue
            pts, edges = kw(c, 'p', 0), kw(c, 'bins', 1)
        if pts is None or edges is None:
            continue
        re_ = (role_of(ex.expand(edges)) | role_of(edges)) & {'lon', 'lat', 'mag'}
        rp = (role_of(ex.expand(pts)) | role_of(pts)) & {'lon', 'lat', 'mag'}
        st = stmt_of(c)
        var = st.targets[0].id if isinstance(st, ast.Assign) and len(st.targets) == 1 and isinstance(st.targets[0], ast.Name) else None
        out.append((var, c, rp, re_, ex.expand(pts), ex.expand(edges)))
    return out


def _col_role(e):
    """role from a column selector x[:, 0] / x[:, 1]"""
    s = strip_shape(e)
    if isinstance(s, ast.Subscript) and isinstance(s.slice, ast.Tuple) and len(s.slice.elts) == 2:
        c = const_value(s.slice.elts[1])
        if c == 0:
            return {'lon'}
        if c == 1:
            return {'lat'}
    return set()


def rule_partition(ck):
    P = ck.prog
    ck.clause('D1')
    nsites = nsubs = 0
    for q in OBSERVERS:
        f = P.func(q)
        rows, cols = set(), set()
        for var, c, rp, re_, epts, eedges in _coord_calls(P, f):
            if 'mag' in re_:
                continue
            nsites += 1
            o = ck.ob('C01-D1.pair', f, c, c)
            if callee(P, f, c) != BIN:
                # wrapper call: mode arguments are fixed inside the wrapper (checked there)
                pass
            rp2 = (rp - {'mag'}) or _col_role(epts)
            if len(re_) != 1:
                o.unknown('cannot tell whether the edges `%s` are x- or y-edges' % u(kw(c, 'bins', 1)))
                continue
            if len(rp2) != 1:
                o.unknown('cannot tell whether `%s` are longitudes or latitudes' % u(kw(c, 'p', 0)))
                continue
            if rp2 != re_:
                o.fail('%s are binned against the %s edges: the two axes of the partition are crossed' % (
                    'longitudes' if 'lon' in rp2 else 'latitudes', 'y (latitude)' if 'lat' in re_ else 'x (longitude)'))
                continue
            direct = callee(P, f, c) == BIN
            rc, tol = (kw(c, 'right_continuous', 3), kw(c, 'tol', 2)) if direct else (None, None)
            if rc is not None and not (isinstance(rc, ast.Constant) and rc.value is False):
                o.fail('coordinate binning passes right_continuous=%s: points beyond the bounding box are attributed to '
                       'the last row/column instead of being outside' % u(rc))
                continue
            if tol is not None and not (isinstance(tol, ast.Constant) and tol.value is None):
                o.fail('coordinate binning passes tol=%s: this observer would use another partition than the others' % u(tol))
                continue
            o.ok('%s against %s edges, closed mode' % ('lon' if 'lon' in rp2 else 'lat', 'x' if 'lon' in re_ else 'y'))
            if var:
                (cols if 'lon' in re_ else rows).add(var)
        # 2-D subscripts of the mask / index map: [row, col(, layer)]
        for n in all_nodes(f):
            if isinstance(n, ast.Subscript) and isinstance(n.slice, ast.Tuple) and len(n.slice.elts) >= 2:
                e0, e1 = n.slice.elts[0], n.slice.elts[1]
                n0 = {x.id for x in ast.walk(e0) if isinstance(x, ast.Name)}
                n1 = {x.id for x in ast.walk(e1) if isinstance(x, ast.Name)}
                if not ((n0 | n1) & (rows | cols)):
                    continue
                nsubs += 1
                o = ck.ob('C01-D1.axes', f, n, n)
                if (n0 & cols) or (n1 & rows):
                    o.fail('`%s` is indexed [column, row]; the mask and index map are written [row (latitude), column '
                           '(longitude)]: the lookup addresses the transposed cell' % u(n)[:70])
                elif (n0 & rows) and (n1 & cols):
                    o.ok('[row, col]')
                else:
                    o.unknown('mixed index `%s`' % u(n))
    ck.extra['coordinate_binning_sites'] = nsites
    ck.extra['mask_subscripts'] = nsubs
    # layer roles
    f = P.func(G + '__init__')
    w = P.func(G + '_build_bitmask_vec')
    layers = {}
    for n in all_nodes(f):
        if isinstance(n, ast.Assign) and isinstance(n.targets[0], ast.Attribute) and n.targets[0].attr in ('bbox_mask', 'idx_map') \
                and isinstance(n.value, ast.Subscript) and isinstance(n.value.slice, ast.Tuple) and len(n.value.slice.elts) == 3:
            layers[n.targets[0].attr] = (const_value(n.value.slice.elts[2]), n)
    o = ck.ob('C01-D1.layers', f, 'bbox_mask / idx_map layers', f.node)
    wl = {}
    for n in all_nodes(w):
        if isinstance(n, ast.Assign) and isinstance(n.targets[0], ast.Subscript) and isinstance(n.targets[0].slice, ast.Tuple) \
                and len(n.targets[0].slice.elts) == 3:
            lay = const_value(n.targets[0].slice.elts[2])
            v = n.value
            kind = 'index' if (isinstance(v, ast.Call) and u(v.func) == 'int') or (isinstance(v, ast.Name)) else \
                ('nan' if 'nan' in u(v) else ('flag' if const_value(v) in (0, 1) else '?'))
            wl.setdefault(lay, set()).add(kind)
    idx_layer = [l for l, k in wl.items() if 'index' in k]
    flag_layer = [l for l, k in wl.items() if 'flag' in k]
    if 'bbox_mask' in layers and 'idx_map' in layers and idx_layer and flag_layer:
        if layers['idx_map'][0] == idx_layer[0] and layers['bbox_mask'][0] == flag_layer[0]:
            o.ok('idx_map = layer %s (polygon indices), bbox_mask = layer %s (0/1 flags)' % (idx_layer[0], flag_layer[0]))
        else:
            o.fail('__init__ exposes layer %s as idx_map and layer %s as bbox_mask, but _build_bitmask_vec writes polygon '
                   'indices into layer %s and flags into layer %s' % (layers['idx_map'][0], layers['bbox_mask'][0], idx_layer[0], flag_layer[0]))
    else:
        o.unknown('cannot identify the layers (init %s, writer %s)' % ({k: v[0] for k, v in layers.items()}, wl))


def rule_who(ck):
    P = ck.prog
    ck.clause('D2')
    for f, call in ck.cg.call_sites_of(BIN):
        if f.module.name in ('csep.core.regions', 'csep.utils.calc', 'csep.utils.plots', 'csep.utils.basic_types'):
            continue
        ex = Expander(P, f)
        edges = kw(call, 'bins', 1)
        r = role_of(ex.expand(edges)) | role_of(edges) if edges is not None else set()
        o = ck.ob('C01-D2.who', f, call, call)
        if r & {'lon', 'lat'} and 'mag' not in r:
            o.fail('%s bins coordinates itself instead of asking the region: a second partition beside '
                   'CartesianGrid2D\'s' % f.short)
        else:
            o.ok('not a coordinate binning')
    # module-level helpers that bin longitudes / latitudes on edges they are handed (the pre-region code path): they know nothing of
    # the region's closed single-edge lattice or its mask conventions, so nothing in the package may route events through them
    wrappers = coord_binners(P)
    for g in P.funcs_in('csep.core.regions'):
        if g.cls is not None or g.parent is not None or g.qualname in wrappers:
            continue
        own = [c for c in calls_in(P, g, BIN) if (role_of(kw(c, 'bins', 1)) if kw(c, 'bins', 1) is not None else set()) & {'lon', 'lat'}
               or (role_of(kw(c, 'p', 0)) if kw(c, 'p', 0) is not None else set()) & {'lon', 'lat'}]
        if not own:
            continue
        users = [(f, c) for f in P.funcs.values() for c in all_nodes(f) if isinstance(c, ast.Call) and callee(P, f, c) == g.qualname and f is not g]
        o = ck.ob('C01-D2.legacy', g, 'no caller inside the package', g.node)
        (o.fail('%s sends coordinates through %s, which bins them directly on the edge arrays: a second partition beside '
                'get_index_of / get_masked (it leaves a single-row or single-column lattice open towards +infinity, so an event beyond '
                'the row is counted in a cell that get_masked says it is outside of)' % (users[0][0].short, g.short)) if users else
         o.ok('unused'))
    # catalogs ask the region with (lon, lat)
    for q in ('spatial_counts', 'spatial_event_probability', 'spatial_magnitude_counts', 'get_spatial_idx', 'to_dataframe', 'filter_spatial'):
        f = P.func('csep.core.catalogs.AbstractBaseCatalog.' + q)
        ex = Expander(P, f)
        meth = 'get_masked' if q == 'filter_spatial' else 'get_index_of'
        calls = [n for n in all_nodes(f) if isinstance(n, ast.Call) and isinstance(n.func, ast.Attribute) and n.func.attr == meth]
        o = ck.ob('C01-D2.ask', f, calls[0] if calls else meth, calls[0] if calls else f.node)
        if len(calls) != 1:
            o.fail('%s does not locate its events through region.%s' % (q, meth))
            continue
        c = calls[0]
        recv = ex.expand(c.func.value)
        if 'region' not in u(recv):
            o.fail('%s is asked of `%s`, not of the catalog\'s region' % (meth, u(recv)))
            continue
        if len(c.args) != 2:
            o.unknown('unexpected arguments')
            continue
        r0, r1 = role_of(ex.expand(c.args[0])), role_of(ex.expand(c.args[1]))
        if 'lon' in r0 and 'lat' in r1 and 'lat' not in r0 and 'lon' not in r1:
            o.ok('region.%s(longitudes, latitudes)' % meth)
        else:
            o.fail('region.%s is called with (%s, %s); the region expects (longitudes, latitudes)' % (meth, u(c.args[0]), u(c.args[1])))


def rule_observer_kernel(ck):
    """D1.kernel: the two region-side observers bin both coordinates through the region's coordinate binner (`_bin_coordinates`, i.e.
    bin1d_vec with the closed last cell) and through nothing else: a sibling lookup on the edge arrays (numpy.digitize / searchsorted /
    histogram) has no closing edge - xs / ys hold lower edges only - and no round-off tolerance, so it draws another partition than the
    index lookup does."""
    P = ck.prog
    ck.clause('D1')
    wrappers = {q for q in ('csep.core.regions._bin_coordinates',) if q in P.funcs}
    for q in (G + 'get_index_of', G + 'get_masked'):
        f = P.func(q)
        o = ck.ob('C01-D1.kernel', f, 'both coordinates binned by the coordinate binner', f.node)
        calls = [c for c in all_nodes(f) if isinstance(c, ast.Call) and (callee(P, f, c) in wrappers or callee(P, f, c) == BIN)]
        sib = [c for c in all_nodes(f) if isinstance(c, ast.Call) and (callee(P, f, c) or '') in (
            'numpy.digitize', 'numpy.searchsorted', 'numpy.histogram', 'numpy.histogram2d', 'numpy.histogramdd', 'bisect.bisect', 'bisect.bisect_left',
            'bisect.bisect_right') or (isinstance(c, ast.Call) and isinstance(c.func, ast.Attribute) and c.func.attr == 'searchsorted')]
        if sib:
            o.fail('%s locates points with `%s`: a second binning rule beside bin1d_vec - the edge arrays hold the lower cell edges only, so the '
                   'last column / row has no upper end (a point east or north of the bounding box is "inside"), and points within round-off '
                   'of an edge go to another cell than get_index_of / the counts put them in' % (f.short, u(sib[0])[:70]))
        elif len(calls) < 2:
            o.fail('%s does not bin longitudes and latitudes through the coordinate binner (%d call(s) found)' % (f.short, len(calls)))
        else:
            o.ok('%d calls of the coordinate binner' % len(calls))


def rule_given_region(ck):
    """D2.given: a region handed to filter_spatial is the region that is asked: the only condition on `self.region = region` is that a
    region was given.  An equality test against the region already bound (`region != self.region`) lets an "equal" region - same
    lattice, other flagged-out cells: region equality compares name, spacing and origins only - be ignored, and the events are
    masked by the old partition."""
    P = ck.prog
    ck.clause('D2')
    f = P.func('csep.core.catalogs.AbstractBaseCatalog.filter_spatial')
    if 'region' not in f.params:
        return
    binds = [a for a in all_nodes(f) if isinstance(a, ast.Assign) and any(u(t) == 'self.region' for t in a.targets)]
    o = ck.ob('C01-D2.given', f, binds[0] if binds else 'self.region = region', binds[0] if binds else f.node)
    if not binds:
        # the region argument must then be the receiver of get_masked itself
        calls = [n for n in all_nodes(f) if isinstance(n, ast.Call) and isinstance(n.func, ast.Attribute) and n.func.attr == 'get_masked']
        ok = bool(calls) and all('region' in u(Expander(P, f).expand(c.func.value)) and 'self.region' not in u(c.func.value) for c in calls)
        (o.ok('the given region is asked directly') if ok else o.fail('a region passed to filter_spatial is never bound or asked'))
        return
    probs = []
    for a in binds:
        if not (isinstance(a.value, ast.Name) and a.value.id == 'region'):
            probs.append('`%s` binds something else than the given region' % u(a))
            continue
        # the whole condition (nested ifs and earlier guard clauses) in disjunctive normal form must be equivalent to `region is not
        # None`: every disjunct contains that literal and one disjunct is that literal alone (absorption)
        conjs = []
        for conj in guard_dnf(a, f.node):
            lits = set()
            for atom, pl in conj:
                if (is_none_test(atom, 'region') and not pl) or (is_none_test(ast.UnaryOp(op=ast.Not(), operand=atom), 'region') and pl):
                    lits.add('GIVEN')
                else:
                    lits.add(('%s' if pl else 'not (%s)') % u(atom))
            conjs.append(lits)
        if not (conjs and all('GIVEN' in c for c in conjs) and any(c == {'GIVEN'} for c in conjs)):
            extra = sorted(x for c in conjs for x in c if x != 'GIVEN')
            probs.append('`%s` also depends on `%s`: a given region that this test calls equal to the bound one is ignored, although regions '
                         'compare by name, spacing and origins only - not by their flagged-out cells' % (u(a), (extra or ['?'])[0][:60]))
    (o.fail('; '.join(probs)) if probs else o.ok('bound whenever a region is given'))


def rule_raw_coordinates(ck):
    """every observer bins the event coordinates as they are stored: no arithmetic (wrapping, shifting, rounding) on the way
    from the catalog accessors to the binning kernel - any such step can move a point across a cell edge for one observer only"""
    P = ck.prog
    ck.clause('D2')
    for q in ('spatial_counts', 'spatial_event_probability', 'spatial_magnitude_counts', 'get_spatial_idx', 'to_dataframe', 'filter_spatial'):
        f = P.func('csep.core.catalogs.AbstractBaseCatalog.' + q)
        ex = Expander(P, f)
        meth = 'get_masked' if q == 'filter_spatial' else 'get_index_of'
        for c in [n for n in all_nodes(f) if isinstance(n, ast.Call) and isinstance(n.func, ast.Attribute) and n.func.attr == meth and len(n.args) == 2]:
            o = ck.ob('C01-D2.raw', f, c, c)
            got = [u(strip_shape(ex.expand(a_))) for a_ in c.args]
            (o.ok() if got == ['self.get_longitudes()', 'self.get_latitudes()'] else
             o.fail('region.%s receives (%s, %s): the coordinates must be the stored longitudes and latitudes themselves' % (meth, got[0][:60], got[1][:60])))
    wrappers = coord_binners(P)
    for q in (G + 'get_index_of', G + 'get_masked'):
        f = P.func(q)
        ex = Expander(P, f)
        for c in [n for n in all_nodes(f) if isinstance(n, ast.Call) and (callee(P, f, n) == BIN or callee(P, f, n) in wrappers)]:
            o = ck.ob('C01-D2.raw', f, c, c)
            pa = kw(c, 'p', 0) if callee(P, f, c) == BIN else (c.args[0] if c.args else None)
            e = strip_shape(ex.expand(pa)) if pa is not None else None
            (o.ok() if isinstance(e, ast.Name) and getattr(e, '_param', False) else
             o.fail('%s bins `%s`, not the coordinates it was given' % (f.short, u(e)[:70] if e is not None else '?')))


def rule_sentinel(ck):
    P = ck.prog
    ck.clause('D3')
    total = 0
    for q in OBSERVERS:
        f = P.func(q)
        total += sentinel.check_function(ck, f, 'C01-D3.sentinel', accepted=ACCEPTED_SENTINEL,
                                         sources={BIN} | set(coord_binners(P)))
    ck.extra['spatial_index_sinks'] = total
    # explicit outcome obligations
    f = P.func(G + 'get_index_of')
    coords = [(v, c) for v, c, rp, re_, a, b in _coord_calls(P, f)]
    names = {v for v, c in coords if v}
    o = ck.ob('C01-D3.raise', f, 'out-of-box points raise ValueError', f.node)
    raised = set()
    for n in all_nodes(f):
        if isinstance(n, ast.If) and any(isinstance(s, ast.Raise) for s in n.body):
            a, e = sentinel.sentinel_test_names(n.test, True)
            raised |= a
    (o.ok('raises when %s == -1' % '/'.join(sorted(names))) if names and names <= raised else
     o.fail('get_index_of does not raise for a -1 in %s: a point beyond the bounding box would be looked up at index -1 '
            '(the last row/column)' % sorted(names - raised)))


def _mask_polarity(node):
    """polarity of a mask load in its context: ('masked'|'unmasked', top expression)"""
    cur = node
    pol = 'masked'
    explicit = False
    while True:
        p = getattr(cur, '_parent', None)
        if isinstance(p, ast.Compare) and len(p.ops) == 1 and p.left is cur:
            cv = const_value(p.comparators[0])
            op = p.ops[0]
            if isinstance(op, ast.Eq) and cv == 1 or isinstance(op, ast.NotEq) and cv == 0 or isinstance(op, ast.Gt) and cv == 0:
                pol = 'masked'
            elif isinstance(op, ast.Eq) and cv == 0 or isinstance(op, ast.NotEq) and cv == 1 or isinstance(op, ast.Lt) and cv == 1:
                pol = 'unmasked'
            else:
                return None, p
            explicit = True
            cur = p
            continue
        if isinstance(p, ast.UnaryOp) and isinstance(p.op, (ast.Not, ast.Invert)):
            pol = 'unmasked' if pol == 'masked' else 'masked'
            cur = p
            continue
        if isinstance(p, ast.Attribute) and p.attr in ('astype', 'any', 'all'):
            cur = getattr(p, '_parent', p)
            continue
        if isinstance(p, ast.Call) and (cur in p.args) and isinstance(p.func, ast.Attribute) and p.func.attr in ('any', 'all', 'where'):
            cur = p
            continue
        return pol, cur


def rule_mask_polarity(ck):
    P = ck.prog
    ck.clause('D4')
    # ---- writer
    w = P.func(G + '_build_bitmask_vec')
    init = [n for n in all_nodes(w) if isinstance(n, ast.Assign) and isinstance(n.value, ast.Call) and
            callee(P, w, n.value) in ('numpy.ones', 'numpy.zeros', 'numpy.full', 'numpy.empty')]
    o = ck.ob('C01-D4.init', w, init[0] if init else 'mask initialisation', init[0] if init else w.node)
    if not init or callee(P, w, init[0].value) != 'numpy.ones':
        o.fail('the mask array is not initialised to 1 (masked): cells of the bounding box that hold no polygon must be outside')
    else:
        o.ok('numpy.ones: every bounding-box cell starts masked')
    clears = []
    for n in all_nodes(w):
        if isinstance(n, ast.Assign) and isinstance(n.targets[0], ast.Subscript) and isinstance(n.targets[0].slice, ast.Tuple) \
                and len(n.targets[0].slice.elts) == 3 and const_value(n.targets[0].slice.elts[2]) == 0:
            clears.append(n)
    for c in clears:
        o = ck.ob('C01-D4.clear', w, c, c)
        if const_value(c.value) != 0:
            o.fail('the flag layer is written with `%s`; only 0 (= active cell) may be written' % u(c.value))
            continue
        g = guards_of(c, w.node)
        why = []
        # every way of reaching the store (disjunct of the guard's normal form) must either see a flag of 1 or see that
        # no flags exist; no disjunct may select a flag of 0
        for conj in guard_dnf(c, w.node):
            ok = False
            for t, pol in conj:
                if isinstance(t, ast.Name):
                    # a named condition (`has_flags = self.poly_mask is not None`) is read through its definition
                    try:
                        te = Expander(P, w).expand(t)
                        if isinstance(te, ast.Compare):
                            t = te
                    except Inconclusive:
                        pass
                txt = u(t)
                if 'poly_mask' not in txt:
                    continue
                if isinstance(t, ast.Compare) and len(t.ops) == 1:
                    cv = const_value(t.comparators[0])
                    op = t.ops[0]
                    if isinstance(op, (ast.Is, ast.IsNot)) and cv is None:
                        if isinstance(op, ast.Is) == pol:
                            ok = True
                        continue
                    eq1 = isinstance(op, ast.Eq) and cv == 1 or isinstance(op, ast.NotEq) and cv == 0
                    eq0 = isinstance(op, ast.Eq) and cv == 0 or isinstance(op, ast.NotEq) and cv == 1
                    if (eq1 and pol) or (eq0 and not pol):
                        ok = True
                    else:
                        why.append('cleared when `%s` is %s' % (txt, pol))
            if not ok:
                why.append('reachable under `%s` without consulting the flag' %
                           (' and '.join(('' if pl else 'not ') + u(t) for t, pl in conj) or 'no condition'))
        if not why:
            o.ok('cleared only for a flag of 1 / when no flags exist')
        else:
            o.fail('the cell is activated under `%s`: the file convention is flag 1 = valid cell, so only a flag of 1 (or the '
                   'absence of flags) may clear the mask%s' % (' and '.join(('' if pl else 'not ') + u(t) for t, pl in g) or 'no condition',
                                                              '; ' + '; '.join(why) if why else ''))
    if not clears:
        ck.ob('C01-D4.clear', w, 'flag layer store', w.node).fail('no statement activates cells (writes 0 into the flag layer)')
    # ---- readers
    for q in MASK_READERS:
        f = P.func(q)
        loads = []
        for n in all_nodes(f):
            if isinstance(n, ast.Subscript) and isinstance(n.ctx, ast.Load):
                b = n.value
                nm = b.attr if isinstance(b, ast.Attribute) else (b.id if isinstance(b, ast.Name) else None)
                if nm in ('bbox_mask', 'mask') and isinstance(n.slice, ast.Tuple):
                    loads.append(n)
        o = ck.ob('C01-D4.consults', f, 'reader consults the cell mask', f.node)
        if not loads:
            o.fail('%s no longer reads bbox_mask: cells flagged out (file flag 0) and holes are not told apart from active '
                   'cells by this observer' % f.short)
            continue
        o.ok('%d mask load(s)' % len(loads))
        for ld in loads:
            oo = ck.ob('C01-D4.reader', f, stmt_of(ld), ld)
            pol, top = _mask_polarity(ld)
            if pol is None:
                oo.unknown('mask compared with an unexpected constant: %s' % u(top))
                continue
            # effect of `top` being True
            effect = None
            st = stmt_of(ld)
            p = getattr(top, '_parent', None)
            # inside an if-test?
            ift = None
            for a in parents(ld):
                if isinstance(a, (ast.If, ast.IfExp)) and any(x is ld for x in ast.walk(a.test)):
                    ift = a
                    break
                if isinstance(a, ast.stmt):
                    break
            if isinstance(ift, ast.If):
                body_raises = any(isinstance(s, ast.Raise) for s in ift.body)
                body_uses = any(isinstance(x, ast.Subscript) and 'idx_map' in u(x.value) for s in ift.body for x in ast.walk(s)) or \
                    any(isinstance(x, ast.AugAssign) for s in ift.body for x in ast.walk(s))
                body_nan = any('nan' in u(s) for s in ift.body) or any(isinstance(s, ast.Continue) for s in ift.body) or \
                    any(isinstance(x, ast.Call) and isinstance(x.func, ast.Attribute) and x.func.attr == 'append' and 'skip' in u(x.func.value) for s in ift.body for x in ast.walk(s))
                if body_raises or (body_nan and not body_uses):
                    effect = 'reject'
                elif body_uses:
                    effect = 'accept'
            elif isinstance(st, ast.Assign) and isinstance(st.targets[0], ast.Name):
                tv = st.targets[0].id
                # bad-mask variable used as ~var, or the returned mask of get_masked
                used_neg = any(isinstance(x, ast.UnaryOp) and isinstance(x.op, ast.Invert) and isinstance(x.operand, ast.Name)
                               and x.operand.id == tv for x in all_nodes(f))
                returned = any(isinstance(r.value, ast.Name) and r.value.id == tv for r in returns(f) if r.value is not None)
                if used_neg or returned:
                    effect = 'reject'
            elif isinstance(st, ast.Return):
                effect = 'reject'
            if effect is None:
                oo.unknown('cannot classify what happens when the mask test holds in `%s`' % u(st)[:80])
            elif (pol == 'masked') == (effect == 'reject'):
                oo.ok('%s -> %s' % (pol, effect))
            else:
                oo.fail('the test is true for %s cells but then the point is %sed: mask polarity inverted (1 = no active '
                        'cell here, 0 = active)' % (pol, effect))


def rule_midpoints(ck):
    P = ck.prog
    ck.clause('D5')
    w = P.func(G + '_build_bitmask_vec')
    ex = Expander(P, w)
    located = _coord_calls(P, w)
    if not located:
        # the slots of the index map are not computed by the binning kernel at all
        st = [n for n in all_nodes(w) if isinstance(n, ast.Assign) and isinstance(n.targets[0], ast.Subscript) and isinstance(n.targets[0].slice, ast.Tuple)
              and in_loop(n, w.node) is not None]
        why = ('cells are put into the bounding-box grid by `%s`, not by binning their midpoints on the lattice edges: a rank among the '
               'coordinates that occur, or any position computed from the origins alone, puts the cells behind an empty column or row of '
               'the box into the wrong slot' % (u(ex.expand(st[0].targets[0].slice))[:110] if st else 'no binning call'))
        ck.ob('C01-D5.hash', w, 'cells are located by their midpoints', st[0] if st else w.node).fail(why)
        ck.ob('C01-D5.edges', w, 'edges of the bounding-box grid', st[0] if st else w.node).fail('no binning of the cells on cleaner_range edges')
    for var, c, rp, re_, epts, eedges in located:
        o = ck.ob('C01-D5.hash', w, c, c)
        t = u(epts)
        if 'centroid' in t and 'origin' not in t:
            o.ok('cells are located by their midpoints')
        else:
            o.fail('cells are hashed into the bounding-box grid by `%s`, not by their midpoints: an origin sits exactly on '
                   'an edge and round-off can put a cell into its neighbour\'s slot' % t[:80])
        o = ck.ob('C01-D5.edges', w, kw(c, 'bins', 1), c)
        e = strip_shape(eedges)
        ok = isinstance(e, ast.Call) and call_name(e) == 'csep.utils.calc.cleaner_range' and len(e.args) == 3
        if ok:
            a0, a1, a2 = e.args
            col = 0 if 'lon' in re_ else 1
            t0, t1, t2 = u(a0), u(a1), u(a2)
            ok = 'numpy.min' in t0 and 'numpy.max' in t1 and 'origin' in t0 and 'origin' in t1 and \
                ('[:, %d]' % col) in t0 and ('[:, %d]' % col) in t1 and t2 == 'self.dh'
        (o.ok('cleaner_range(min origin, max origin, self.dh)') if ok else
         o.fail('edges are `%s`; they must be cleaner_range(min origin, max origin, self.dh) of the matching coordinate - '
                'arange/linspace/cumulative edges drift off the lattice' % u(eedges)[:100]))


def _inexact(e):
    """does the expanded expression contain a float difference of array elements not wrapped by a rounding?"""
    hits = []
    def rec(n, rounded):
        if isinstance(n, ast.Call):
            nm = call_name(n) or ''
            if nm in ('numpy.round', 'numpy.around', 'builtins.round', 'numpy.rint'):
                rounded = True
        if isinstance(n, ast.BinOp) and isinstance(n.op, ast.Sub) and not rounded:
            if any(isinstance(x, ast.Subscript) for x in (strip_shape(n.left), strip_shape(n.right))):
                hits.append(n)
        for ch in ast.iter_child_nodes(n):
            rec(ch, rounded)
    rec(e, False)
    return hits


def rule_lattice_step(ck):
    P = ck.prog
    ck.clause('D6')
    cr = P.func('csep.utils.calc.cleaner_range')
    ex = Expander(P, cr)
    rets = [r for r in returns(cr) if r.value is not None]
    h = cr.positional_params[2]
    e = ex.expand(rets[0].value)
    # every use of h in the provenance of the result sits under a snapping/rounding call
    unsnapped = []
    def rec(n, snapped):
        if isinstance(n, ast.Call):
            nm = call_name(n) or ''
            if nm in ('numpy.round', 'numpy.around', 'builtins.round', 'numpy.rint'):
                snapped = True
            elif nm in P.funcs:
                body = P.funcs[nm]
                if any(isinstance(x, ast.Call) and callee(P, body, x) in ('numpy.round', 'numpy.rint', 'builtins.round', 'numpy.around')
                       for x in all_nodes(body)):
                    snapped = True
        if isinstance(n, ast.Name) and n.id == h and getattr(n, '_param', False) and not snapped:
            unsnapped.append(n)
        for ch in ast.iter_child_nodes(n):
            rec(ch, snapped)
    rec(e, False)
    # inexact producers of dh
    witnesses = []
    for f, call in ck.cg.call_sites_of(G + '__init__'):
        if f.module.name == 'csep.utils.plots':
            continue
        m, ok = bind_args(P.func(G + '__init__'), call)
        dh = m.get('dh')
        if dh is None:
            continue
        exf = Expander(P, f)
        de = exf.expand(dh)
        hits = _inexact(de)
        if hits:
            witnesses.append((f, call, hits[0]))
    o = ck.ob('C01-D6.snap', cr, 'lattice step is exact or snapped before scaling the integer grid', rets[0])
    if not unsnapped:
        o.ok('every use of the step in cleaner_range is snapped/rounded (%d inexact producer(s): %s)' % (
            len(witnesses), ', '.join(w[0].short for w in witnesses)))
    elif not witnesses:
        o.ok('no in-package producer hands an inexact spacing to CartesianGrid2D')
    else:
        o.fail('the spacing reaches cleaner_range unsnapped (`%s` uses the raw step) while %s infers it as a float '
               'difference `%s`: 63.05-63.0 = 0.04999999999999716 stretches the "integer" grid and shifts edges to the '
               'wrong side of cell origins' % (u(rets[0].value)[:60], ', '.join(sorted({w[0].short for w in witnesses})), u(witnesses[0][2])[:60]))
    ck.extra['inexact_spacing_producers'] = [w[0].qualname for w in witnesses]


def rule_single_edge(ck):
    """D7: a coordinate grid with one row/column yields a single-edge array; bin1d_vec bins such an array open-ended
    (C02-D3), so an observer must close it explicitly (or the region must never hold a single edge)."""
    P = ck.prog
    ck.clause('D7')
    b = P.func(BIN)
    forces_open = False
    for n in all_nodes(b):
        if isinstance(n, ast.If) and 'size' in u(n.test) and any(
                isinstance(s, ast.Assign) and isinstance(s.targets[0], ast.Name) and s.targets[0].id == 'right_continuous'
                and is_true(s.value) for s in n.body):
            forces_open = True
    wrappers = coord_binners(P)
    for q in (G + 'get_index_of', G + 'get_masked'):
        f = P.func(q)
        for var, c, rp, re_, epts, eedges in _coord_calls(P, f):
            o = ck.ob('C01-D7.single', f, c, c)
            cq = callee(P, f, c)
            if not forces_open:
                o.ok('bin1d_vec does not force open-ended mode')
                continue
            if cq in wrappers:
                wf = P.func(cq)
                edges_p = wrappers[cq][1]
                handled = False
                for n in all_nodes(wf):
                    if isinstance(n, ast.If):
                        t = u(n.test)
                        if edges_p in t and ('== 1' in t or '< 2' in t or '<= 1' in t) and ('len(' in t or 'size' in t or 'shape' in t):
                            handled = True
                (o.ok('binned through %s, which closes a single-edge lattice at edge + dh' % wf.short) if handled else
                 o.fail('%s does not treat a single-edge lattice separately' % wf.short))
            else:
                o.fail('a one-column / one-row lattice gives a single x/y edge; bin1d_vec treats a single edge as open-ended, '
                       'so every point beyond that edge (e.g. lon 99 for a column at lon 10) is attributed to the cell')
    # the wrapper itself: its calls must be closed-mode and, for a single edge, build [e0, e0 + dh] and keep only bin 0
    for cq in wrappers:
        wf = P.func(cq)
        for c in calls_in(P, wf, BIN):
            o = ck.ob('C01-D7.wrapper', wf, c, c)
            rc, tol = kw(c, 'right_continuous', 3), kw(c, 'tol', 2)
            if rc is not None and not (isinstance(rc, ast.Constant) and rc.value is False):
                o.fail('the coordinate wrapper bins with right_continuous=%s' % u(rc))
            elif tol is not None and not (isinstance(tol, ast.Constant) and tol.value is None):
                o.fail('the coordinate wrapper bins with tol=%s' % u(tol))
            else:
                o.ok('closed mode')
        # single-edge branch: the upper edge e0 + dh is handed to the kernel as a second edge, so that the half-open rule and
        # the tolerance of bin1d_vec decide it like every other edge; nothing in the wrapper compares coordinates itself
        pts_p, edges_p = wrappers[cq][0], wrappers[cq][1]
        N = sym.Normalizer()
        for n in all_nodes(wf):
            if isinstance(n, ast.If) and edges_p in u(n.test) and ('== 1' in u(n.test) or '< 2' in u(n.test) or '<= 1' in u(n.test)):
                exw = Expander(P, wf, keep=set(wf.params))
                kc = [c for st in n.body for c in ast.walk(st) if isinstance(c, ast.Call) and callee(P, wf, c) == BIN]
                o = ck.ob('C01-D7.closed', wf, kc[0] if kc else 'single-edge branch', kc[0] if kc else n)
                good = False
                if len(kc) == 1:
                    be = strip_shape(exw.expand(kw(kc[0], 'bins', 1)))
                    dhp = [p_ for p_ in wf.params if p_ not in (pts_p, edges_p)]
                    if isinstance(be, (ast.List, ast.Tuple)) and len(be.elts) == 2 and dhp:
                        try:
                            good = N.nf(be.elts[0]) == N.nf('%s[0]' % edges_p) and N.nf(be.elts[1]) == N.nf('%s[0] + %s' % (edges_p, dhp[0]))
                        except Exception:
                            good = False
                cmp_ = [x for x in all_nodes(wf) if isinstance(x, ast.Compare) and any(isinstance(y, ast.Name) and y.id == pts_p for y in ast.walk(x))]
                if good and not cmp_:
                    o.ok('binned on [e0, e0 + dh]')
                else:
                    o.fail('a single-edge lattice is not binned on the two edges [e0, e0 + dh]%s: the upper bounding edge is then not '
                           'decided by bin1d_vec\'s half-open rule and tolerance (a point exactly on it, or within round-off of it, '
                           'is attributed differently from every multi-row lattice)' % (' (coordinates are compared by hand: `%s`)' % u(cmp_[0]) if cmp_ else ''))


def rule_kernel_shared(ck):
    """The 1-D kernel and the edge generator are part of C01's mechanism (anchors bin1d_vec, cleaner_range)."""
    from . import c02
    ck.clause('shared C02-D1..D3, D5 (1-D kernel and edge generator)')
    c02.rule_kernel(ck)
    c02.rule_tolerance(ck)
    c02.rule_range(ck)
    c02.rule_generators(ck)


def rule_counts_shared(ck):
    """per-cell event counts agree with the partition: duplicate-safe accumulation, no memoised indices (shared C03-D2/D6)."""
    from . import c03
    ck.clause('shared C03-D2, C03-D6 (per-cell counts)')
    c03.rule_accumulation(ck)
    c03.rule_pure_gridding(ck)


def rule_precision(ck):
    """C01-D1.double: coordinates, bounds and edges stay in the precision they were supplied in - no conversion to a narrower numeric type
    (a bound rounded to float32 moves by up to 4e-6 degrees, so points next to it change owner)"""
    from .common import rule_double_precision
    ck.clause('D1')
    rule_double_precision(ck, 'C01-D1.double', modules=('csep.core.regions', 'csep.utils.calc'), what='cell origins, edges and coordinates')


RULES = [rule_partition, rule_observer_kernel, rule_who, rule_given_region, rule_raw_coordinates, rule_sentinel, rule_mask_polarity, rule_midpoints, rule_lattice_step, rule_single_edge,
         rule_kernel_shared, rule_counts_shared, rule_precision]
