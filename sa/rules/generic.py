"""Generic definedness rules, run on the call-graph closure of a property's API functions.

G-UNDEF   a loaded global name has no binding anywhere (module, builtins)  -> NameError at that statement
G-API     an attribute chain rooted at an installed third-party / stdlib module does not resolve
G-RETURN  a function returns a value on some path and falls off the end / bare-returns on another
G-UNBOUND a local variable may be read before any assignment on a feasible path
"""
import ast
import importlib
import types

from ..core.loader import FuncInfo, SCOPE_NODES, target_names, walk_scope, parents

MODULE_DUNDERS = {'__file__', '__name__', '__doc__', '__package__', '__spec__', '__builtins__', '__class__'}

# modules whose attribute chains are link-checked against the installed environment
LINK_ROOTS = ('numpy', 'scipy', 'pandas', 'datetime', 'math', 'os', 'csv', 'json', 'calendar', 'operator',
              'itertools', 'functools', 're', 'enum', 'time', 'warnings', 'gzip', 'mercantile')


def iter_name_loads(fnode):
    """(Name node, frozenset of comprehension/lambda-bound names) for every name load in the function's own
    scope, including nested lambdas and comprehensions, excluding nested defs/classes."""
    def rec(node, bound):
        for ch in ast.iter_child_nodes(node):
            yield from rec_expr(ch, bound)

    def rec_expr(ch, bound):
        if isinstance(ch, (ast.FunctionDef, ast.AsyncFunctionDef, ast.ClassDef)):
            for d in ch.decorator_list:
                yield from rec_expr(d, bound)
            if not isinstance(ch, ast.ClassDef):
                for d in ch.args.defaults + [k for k in ch.args.kw_defaults if k is not None]:
                    yield from rec_expr(d, bound)
            else:
                for b in ch.bases:
                    yield from rec_expr(b, bound)
            return
        if isinstance(ch, ast.Name):
            if isinstance(ch.ctx, ast.Load):
                yield ch, bound
            return
        if isinstance(ch, ast.Lambda):
            b = bound | {a.arg for a in ch.args.args + ch.args.kwonlyargs + ch.args.posonlyargs}
            if ch.args.vararg:
                b |= {ch.args.vararg.arg}
            if ch.args.kwarg:
                b |= {ch.args.kwarg.arg}
            yield from rec_expr(ch.body, frozenset(b))
            return
        if isinstance(ch, (ast.ListComp, ast.SetComp, ast.GeneratorExp, ast.DictComp)):
            b = set(bound)
            for g in ch.generators:
                yield from rec_expr(g.iter, frozenset(b))
                b |= set(target_names(g.target))
                for c in g.ifs:
                    yield from rec_expr(c, frozenset(b))
            fb = frozenset(b)
            if isinstance(ch, ast.DictComp):
                yield from rec_expr(ch.key, fb)
                yield from rec_expr(ch.value, fb)
            else:
                yield from rec_expr(ch.elt, fb)
            return
        yield from rec(ch, bound)
    if isinstance(fnode, (ast.FunctionDef, ast.AsyncFunctionDef)):
        # decorators, defaults and annotations of the function itself belong to the enclosing scope
        for st in fnode.body:
            yield from rec_expr(st, frozenset())
    else:
        yield from rec(fnode, frozenset())


def g_undef(ck, funcs):
    P = ck.prog
    n = 0
    for f in funcs:
        for name, bound in iter_name_loads(f.node):
            if name.id in bound or name.id in MODULE_DUNDERS:
                continue
            c = P.canon_name(f, name.id)
            if c is None:
                continue
            n += 1
            if c.startswith('?undefined.'):
                ck.ob('G-UNDEF', f, name.id, name).fail(
                    'name `%s` is read but bound nowhere (no local, module-level, imported or builtin binding): '
                    'NameError when this statement runs' % name.id)
    ck.extra.setdefault('generic_counts', {})['G-UNDEF name loads resolved'] = n


_api_cache = {}


def _resolve_api(dotted_name):
    if dotted_name in _api_cache:
        return _api_cache[dotted_name]
    parts = dotted_name.split('.')
    try:
        obj = importlib.import_module(parts[0])
    except Exception as e:
        _api_cache[dotted_name] = (None, 'module %s not importable: %r' % (parts[0], e))
        return _api_cache[dotted_name]
    ok, why = True, ''
    path = parts[0]
    for p in parts[1:]:
        if not isinstance(obj, (types.ModuleType, type)):
            # instance attributes of values are out of reach of link-checking, except for well-known
            # singletons (scipy.stats distributions are instances with real methods)
            if not hasattr(obj, p) and type(obj).__module__.startswith(('scipy', 'numpy')):
                ok, why = False, '%s has no attribute %s' % (path, p)
            break
        if hasattr(obj, p):
            obj = getattr(obj, p)
        else:
            try:
                obj = importlib.import_module(path + '.' + p)
            except Exception:
                ok, why = False, '%s has no attribute %s' % (path, p)
                break
        path += '.' + p
    _api_cache[dotted_name] = (ok, why)
    return _api_cache[dotted_name]


def g_api(ck, funcs):
    P = ck.prog
    checked = 0
    for f in funcs:
        seen = set()
        for n in ast.walk(f.node):
            if not isinstance(n, ast.Attribute):
                continue
            par = getattr(n, '_parent', None)
            if isinstance(par, ast.Attribute) and par.value is n:
                continue  # only maximal chains
            owner = P.func_of_node(_enclosing_def(n)) if _enclosing_def(n) is not f.node else f
            if owner is not f:
                continue
            c = P.canon(f, n)
            if c is None or c.split('.')[0] not in LINK_ROOTS or c in seen:
                continue
            # local module named like a link root (e.g. csep.utils.time) is excluded by canon already
            seen.add(c)
            ok, why = _resolve_api(c)
            checked += 1
            if ok is False:
                ck.ob('G-API', f, c, n).fail('%s in the installed environment: AttributeError when this '
                                              'statement runs' % why)
            elif ok is None:
                ck.note('G-API: %s' % why)
    ck.extra.setdefault('generic_counts', {})['G-API chains resolved'] = \
        ck.extra.get('generic_counts', {}).get('G-API chains resolved', 0) + checked


def _enclosing_def(n):
    for p in parents(n):
        if isinstance(p, (ast.FunctionDef, ast.AsyncFunctionDef)):
            return p
    return None


def g_return(ck, funcs):
    for f in funcs:
        if f.is_generator:
            continue
        rets = [n for n in walk_scope(f.node) if isinstance(n, ast.Return)]
        valued = [r for r in rets if r.value is not None and not (isinstance(r.value, ast.Constant) and r.value.value is None)]
        if not valued:
            continue
        cfg = f.cfg
        reach = set(n.id for n in cfg.reachable_nodes())
        falls = [p for p, lab in cfg.exit.pred if lab == 'fall' and p.id in reach]
        bare = [r for r in rets if r.value is None and cfg.node_of(r) is not None and cfg.node_of(r).id in reach]
        o = ck.ob('G-RETURN', f, 'all paths return a value', f.node)
        if falls or bare:
            at = falls[0] if falls else cfg.node_of(bare[0])
            o.fail('the function returns a value on some path but falls off the end (returns None) after '
                   'L%s; callers that use the result get None' % at.lineno)
        else:
            o.ok('%d valued return(s), no fall-through path' % len(valued))


# ------------------------------------------------------------------------------------------ G-UNBOUND
def _in_body(loop_stmt, node_ast):
    if node_ast is None:
        return False
    for p in parents(node_ast):
        if p is loop_stmt:
            return True
    return False


def _test_key(t):
    return ast.dump(t)


def constant_params(cg, f):
    """For a private function: parameters that receive the same literal at every in-package call site."""
    if not f.node.name.startswith('_') or f.node.name.startswith('__'):
        return {}
    from ..core.expand import bind_args
    from ..core.loader import const_value
    sites = cg.call_sites_of(f.qualname)
    if not sites:
        return {}
    vals = {}
    for caller, call in sites:
        m, ok = bind_args(f, call)
        if not ok:
            return {}
        for p in f.params:
            if p in m:
                v = const_value(m[p])
                vals.setdefault(p, []).append(v if v is not NotImplemented else ('?', id(m[p])))
            else:
                vals.setdefault(p, []).append(('?missing', id(call)))
    out = {}
    for p, vs in vals.items():
        if len(vs) == len(sites) and all(type(v) in (bool, int, float, str, type(None)) for v in vs) and \
                len(set(map(repr, vs))) == 1:
            out[p] = vs[0]
    return out


def maybe_unbound_path(cfg, use, var, zero_iter_feasible, const_params=None):
    """Is there a path entry -> use that assigns `var` nowhere?  Refinements: (a) a `for` loop entered from
    outside is assumed to run at least once unless zero_iter_feasible; (b) two `if` tests that are the same pure
    expression over names not rebound in between are taken in the same direction."""
    defnodes = {n.id for n in cfg.nodes if var in n.defs and n.kind != 'for'}
    fordefs = {n.id for n in cfg.nodes if var in n.defs and n.kind == 'for'}
    if cfg.entry.id in defnodes:
        return None
    # state: (node id, frozenset of (test key, branch) decisions)
    start = (cfg.entry.id, frozenset())
    seen = {start}
    stack = [(cfg.entry, frozenset(), None, [cfg.entry.id])]
    while stack:
        n, decided, came_from, path = stack.pop()
        if n is use and came_from is not None:
            return path
        for s, lab in n.succ:
            if n.id in fordefs and lab == 'iter':
                continue  # the loop target is bound on this edge
            if s.id in defnodes and s is not use:
                continue
            if s.id in defnodes and s is use:
                # use node that also defines: the read happens first for AugAssign / x = f(x)
                pass
            nd = decided
            if n.kind == 'for' and lab == 'done' and not zero_iter_feasible:
                if not _in_body(n.ast, came_from.ast if came_from is not None else None) or came_from.kind == 'entry':
                    continue
            if n.kind == 'test' and lab in (True, False) and const_params:
                t = n.ast.test
                neg = False
                if isinstance(t, ast.UnaryOp) and isinstance(t.op, ast.Not):
                    t, neg = t.operand, True
                if isinstance(t, ast.Name) and t.id in const_params and not any(
                        t.id in d.defs for d in cfg.nodes if d is not cfg.entry):
                    if (bool(const_params[t.id]) != neg) != lab:
                        continue
            if n.kind == 'test' and lab in (True, False) and isinstance(n.ast, ast.If):
                t_, lab_ = n.ast.test, lab
                while isinstance(t_, ast.UnaryOp) and isinstance(t_.op, ast.Not):      # `if not c` decides c as well
                    t_, lab_ = t_.operand, not lab_
                k = _test_key(t_)
                prev = [b for (kk, b) in decided if kk == k]
                if prev and prev[0] != lab_:
                    continue
                nd = decided | {(k, lab_)}
            # a rebinding of a name used in a remembered test invalidates it
            if s.defs:
                drop = set()
                for (kk, b) in nd:
                    if any(("id='%s'" % d) in kk for d in s.defs):
                        drop.add((kk, b))
                if drop:
                    nd = nd - drop
            st = (s.id, nd)
            if st in seen:
                continue
            seen.add(st)
            stack.append((s, nd, n, path + [s.id]))
    return None


def g_unbound(ck, funcs, zero_iter_funcs=(), accepted=None):
    """accepted: {(qualname, var): reason} - hits confirmed infeasible/outside the property by reading."""
    accepted = accepted or {}
    for f in funcs:
        cfg = f.cfg
        zero = f.qualname in zero_iter_funcs or any(f.qualname.startswith(z + '.') for z in zero_iter_funcs)
        params = set(f.params)
        reported = set()
        cparams = constant_params(ck.cg, f) if ck.cg is not None else {}
        for node in cfg.reachable_nodes():
            used = set()
            for e in node.exprs():
                if isinstance(e, (ast.FunctionDef, ast.AsyncFunctionDef, ast.ClassDef)):
                    continue
                for nm, bound in iter_name_loads(ast.Expression(body=e) if isinstance(e, ast.expr) else e):
                    if nm.id not in bound:
                        used.add((nm.id, nm))
                if isinstance(e, ast.AugAssign) and isinstance(e.target, ast.Name):
                    used.add((e.target.id, e.target))
                if isinstance(e, ast.Delete):
                    for t in e.targets:
                        if isinstance(t, ast.Name):
                            used.add((t.id, t))
            for var, nm in used:
                if var in params or var not in f.locals or var in reported:
                    continue
                if var in f.local_imports():
                    pass
                path = maybe_unbound_path(cfg, node, var, zero, cparams)
                if path is None:
                    continue
                reported.add(var)
                key = (f.qualname, var)
                o = ck.ob('G-UNBOUND', f, var, nm)
                if key in accepted:
                    o.ok('accepted: ' + accepted[key])
                else:
                    lines = [cfg.nodes[i].lineno for i in path if cfg.nodes[i].lineno]
                    o.fail('local `%s` may be read at L%s before any assignment (path through lines %s): '
                           'UnboundLocalError on that path' % (var, node.lineno, _compress(lines)))
        ck.extra.setdefault('generic_counts', {})['G-UNBOUND functions analysed'] = \
            ck.extra.get('generic_counts', {}).get('G-UNBOUND functions analysed', 0) + 1


def _compress(lines):
    out = []
    for x in lines:
        if not out or out[-1] != x:
            out.append(x)
    if len(out) > 14:
        out = out[:6] + ['...'] + out[-6:]
    return ' -> '.join(str(x) for x in out)


# ------------------------------------------------------------------------------------------ G-DEFAULT
def g_mutable_default(ck, funcs):
    """A parameter whose default is a mutable display ([] / {} / set() / list() / dict()) is one object for all calls.  It is a defect
    when that object escapes or changes: stored on the instance (every object built without the argument then shares - and, through
    in-place edits, leaks - one list), returned, or mutated in place."""
    n = 0
    for f in funcs:
        a = f.node.args
        pos = a.posonlyargs + a.args
        pairs = list(zip(pos[len(pos) - len(a.defaults):], a.defaults)) + [(x, d) for x, d in zip(a.kwonlyargs, a.kw_defaults) if d is not None]
        for prm, d in pairs:
            mutable = isinstance(d, (ast.List, ast.Dict, ast.Set)) or \
                (isinstance(d, ast.Call) and isinstance(d.func, ast.Name) and d.func.id in ('list', 'dict', 'set', 'bytearray') and not d.args and not d.keywords)
            if not mutable:
                continue
            n += 1
            name = prm.arg
            empty = not (getattr(d, 'elts', None) or getattr(d, 'keys', None))
            o = ck.ob('G-DEFAULT', f, '%s=%s' % (name, ast.unparse(d)), prm)
            bad = None
            for x in _scope_nodes(f):
                if isinstance(x, (ast.Assign, ast.AnnAssign, ast.AugAssign)):
                    tg = x.targets if isinstance(x, ast.Assign) else [x.target]
                    v = x.value
                    esc = isinstance(v, ast.Name) and v.id == name
                    # `p or other` hands out the default object itself only when it is truthy, i.e. non-empty
                    if isinstance(v, ast.BoolOp) and isinstance(v.op, ast.Or) and isinstance(v.values[0], ast.Name) and v.values[0].id == name and not empty:
                        esc = True
                    if esc and any(isinstance(t, (ast.Attribute, ast.Subscript)) for t in tg):
                        bad = ('`%s` stores the default object itself: every call that omits `%s` shares one %s, so an in-place edit made through one '
                               'object shows up in all the others' % (ast.unparse(x)[:70], name, type(d).__name__.lower()))
                    for t in tg:
                        base = t
                        while isinstance(base, (ast.Subscript,)):
                            base = base.value
                        if isinstance(t, ast.Subscript) and isinstance(base, ast.Name) and base.id == name:
                            bad = '`%s` writes into the default object' % ast.unparse(x)[:70]
                        if isinstance(x, ast.AugAssign) and isinstance(t, ast.Name) and t.id == name:
                            bad = '`%s` extends the default object in place' % ast.unparse(x)[:70]
                elif isinstance(x, ast.Call) and isinstance(x.func, ast.Attribute) and isinstance(x.func.value, ast.Name) and x.func.value.id == name \
                        and x.func.attr in ('append', 'extend', 'update', 'add', 'insert', 'setdefault', 'pop', 'clear', 'remove', 'sort'):
                    bad = '`%s` changes the default object in place' % ast.unparse(x)[:70]
                elif isinstance(x, ast.Return) and x.value is not None and (
                        (isinstance(x.value, ast.Name) and x.value.id == name) or
                        (isinstance(x.value, (ast.Tuple, ast.List)) and any(isinstance(e_, ast.Name) and e_.id == name for e_ in x.value.elts))):
                    bad = 'the default object itself is returned: the caller keeps (and fills) the one object that the next call starts from'
                elif isinstance(x, ast.Call) and ck.prog is not None:
                    # handed to a package function that writes into that parameter (an accumulator filled by the callee)
                    try:
                        q = ck.prog.canon(f, x.func)
                    except Exception:
                        q = None
                    g = ck.prog.funcs.get(q) if q else None
                    if g is not None:
                        from ..core.expand import bind_args
                        from .common import parameter_writes
                        m_, ok_ = bind_args(g, x)
                        for prm_, arg_ in (m_ or {}).items():
                            if isinstance(arg_, ast.Name) and arg_.id == name:
                                ws = [w_ for w_ in parameter_writes(ck.prog, g) if prm_ in ast.unparse(w_)]
                                if ws:
                                    bad = ('`%s` hands the default object to %s, which fills it (`%s`): what one call collects is still there in the next'
                                           % (ast.unparse(x)[:60], g.short, ast.unparse(ws[0])[:40]))
            (o.fail('mutable default argument: ' + bad) if bad else o.ok('the default object neither escapes nor changes'))
    ck.extra.setdefault('generic_counts', {})['G-DEFAULT mutable defaults found'] = n


NDARRAY_ONLY = ('astype', 'reshape', 'ravel', 'flatten', 'sum', 'mean', 'cumsum', 'nonzero', 'transpose', 'squeeze', 'tolist', 'any', 'all', 'argsort')


def g_list_as_array(ck, funcs):
    """G-EMPTYLOOP: a name that starts as a Python list display and becomes an array only inside a loop (`idx = []; for ...: idx =
    numpy.append(idx, ...)`) is still the list when the loop runs zero times; an array-only method called on it afterwards (`idx.astype`)
    raises AttributeError for the empty input.  Decided on reaching definitions: the list display reaches the method call."""
    n = 0
    for f in funcs:
        try:
            cfg = f.cfg
        except Exception:
            continue
        for c in _scope_nodes(f):
            if not (isinstance(c, ast.Call) and isinstance(c.func, ast.Attribute) and c.func.attr in NDARRAY_ONLY and isinstance(c.func.value, ast.Name)):
                continue
            v = c.func.value.id
            if v in f.params:
                continue
            try:
                node = cfg.stmt_node_containing(c)
            except Exception:
                node = None
            if node is None:
                continue
            byid = {nd.id: nd for nd in cfg.nodes}
            defs = [byid[i] for i in cfg.defs_reaching(node, v) if i in byid]
            lists = [d for d in defs if isinstance(d.ast, ast.Assign) and isinstance(d.ast.value, (ast.List, ast.ListComp))
                     and any(isinstance(t, ast.Name) and t.id == v for t in d.ast.targets)]
            others = [d for d in defs if d not in lists]
            if not lists or not others:
                continue
            n += 1
            o = ck.ob('G-EMPTYLOOP', f, c, c)
            o.fail('`%s` is still the Python list of L%d when the loop that turns it into an array runs zero times (an empty input): '
                   '`.%s` then raises AttributeError' % (v, lists[0].ast.lineno, c.func.attr))
    ck.extra.setdefault('generic_counts', {})['G-EMPTYLOOP list-or-array receivers'] = n


def g_none_belief(ck, funcs):
    """G-BELIEF (contradicting beliefs, Engler et al.): a function that reads `X.a` inside `try: ... except AttributeError:` believes that
    X may be None (or lack the attribute).  When the same function then stores an attribute on X - `X.b = ...` - without a test that X
    is not None and outside any such try, the path on which the belief is true (X is None) raises the very AttributeError the function
    set out to handle."""
    n = 0
    for f in funcs:
        nodes = _scope_nodes(f)
        beliefs = {}
        for t in nodes:
            if not isinstance(t, ast.Try):
                continue
            catches = any(h.type is None or any(isinstance(x, ast.Name) and x.id in ('AttributeError', 'Exception') for x in ast.walk(h.type)) for h in t.handlers)
            if not catches:
                continue
            for st in t.body:
                for x in ast.walk(st):
                    if isinstance(x, ast.Attribute) and isinstance(x.ctx, ast.Load) and isinstance(x.value, (ast.Name, ast.Attribute)):
                        beliefs.setdefault(ast.unparse(x.value), t)
        beliefs = {k: v for k, v in beliefs.items() if k not in ('self', 'cls') and not k.split('.')[0] in ('numpy', 'np', 'os', 'datetime', 'json')}
        if not beliefs:
            continue
        par = {}
        for x in nodes:
            for ch in ast.iter_child_nodes(x):
                par[id(ch)] = x
        for x in nodes:
            if not (isinstance(x, ast.Attribute) and isinstance(x.ctx, ast.Store) and ast.unparse(x.value) in beliefs):
                continue
            recv = ast.unparse(x.value)
            if ast.unparse(x) in beliefs:
                # `X.b = ...` where X.b itself is what may be missing: the assignment is the answer to the belief, not a contradiction of it
                continue
            # protected: inside a try that catches AttributeError, or under a test mentioning `recv is not None` / `recv` / hasattr(recv...)
            prot = False
            cur = x
            while id(cur) in par:
                up = par[id(cur)]
                if isinstance(up, ast.Try) and cur in up.body and any(h.type is None or 'AttributeError' in ast.unparse(h.type) or 'Exception' in ast.unparse(h.type) for h in up.handlers):
                    prot = True
                if isinstance(up, (ast.If, ast.IfExp)) and recv in ast.unparse(up.test):
                    prot = True
                cur = up
            # an earlier guard clause `if recv is None: raise / return`
            for y in nodes:
                if isinstance(y, ast.If) and recv in ast.unparse(y.test) and 'None' in ast.unparse(y.test) and y.lineno < x.lineno and \
                        any(isinstance(z, (ast.Raise, ast.Return)) for z in y.body):
                    prot = True
            n += 1
            o = ck.ob('G-BELIEF', f, stmt_text(par, x), x)
            (o.ok('guarded') if prot else
             o.fail('`%s` is read under `except AttributeError` at L%d (it may be None), yet `%s.%s` is assigned without a test: when %s is None '
                    'the assignment raises the AttributeError the function meant to handle' % (recv, beliefs[recv].lineno, recv, x.attr, recv)))
    ck.extra.setdefault('generic_counts', {})['G-BELIEF attribute stores on a possibly-None receiver'] = n


def g_dead_handler(ck, funcs):
    """G-DEADHANDLER: a `try` whose body only reads names and attributes (`_ = catalog.region.magnitudes`) can raise nothing but
    AttributeError / NameError.  A handler for a package-defined exception that is neither (CSEPCatalogException) can then never run: the
    fallback it holds - binding the forecast's region to a catalog that has none - is unreachable, and the AttributeError it was meant to
    answer escapes."""
    P = ck.prog
    n = 0
    for f in funcs:
        for t in [x for x in _scope_nodes(f) if isinstance(x, ast.Try)]:
            def plain(e):
                return isinstance(e, (ast.Name, ast.Constant)) or (isinstance(e, ast.Attribute) and plain(e.value))
            if not t.body or not all((isinstance(st, ast.Assign) and plain(st.value) and all(isinstance(tg, ast.Name) for tg in st.targets)) or
                                     (isinstance(st, ast.Expr) and plain(st.value)) for st in t.body):
                continue
            if not any(isinstance(x, ast.Attribute) for st in t.body for x in ast.walk(st)):
                continue
            for h in t.handlers:
                if h.type is None:
                    continue
                names = h.type.elts if isinstance(h.type, ast.Tuple) else [h.type]
                quals = []
                for nm in names:
                    try:
                        quals.append(P.canon(f, nm))
                    except Exception:
                        quals.append(None)
                if not all(q is not None and q in P.classes for q in quals):
                    continue        # a builtin or unknown class: not decided here

                def derives(c, seen=()):
                    for b in c.node.bases:
                        bt = ast.unparse(b).split('.')[-1]
                        if bt in ('AttributeError', 'NameError', 'LookupError', 'BaseException', 'Exception') and bt in ('AttributeError', 'NameError'):
                            return True
                        try:
                            bq = P.canon(c.module_func if hasattr(c, 'module_func') else f, b)
                        except Exception:
                            bq = None
                        if bq in P.classes and bq not in seen and derives(P.classes[bq], seen + (bq,)):
                            return True
                    return False
                if any(derives(P.classes[q]) for q in quals):
                    continue
                n += 1
                o = ck.ob('G-DEADHANDLER', f, 'except %s' % ast.unparse(h.type), h)
                o.fail('the try at L%d only reads `%s`, which can raise AttributeError and nothing else; `except %s` never runs, so the fallback '
                       '`%s` is unreachable and a missing attribute (a catalog without region) escapes as AttributeError'
                       % (t.lineno, ast.unparse(t.body[0])[:50], ast.unparse(h.type), ast.unparse(h.body[0])[:60] if h.body else ''))
    ck.extra.setdefault('generic_counts', {})['G-DEADHANDLER unreachable handlers'] = n


def stmt_text(par, x):

    cur = x
    while id(cur) in par and not isinstance(cur, ast.stmt):
        cur = par[id(cur)]
    return ast.unparse(cur)[:80]


def _scope_nodes(f):
    out = []
    def rec(nd):
        for ch in ast.iter_child_nodes(nd):
            if isinstance(ch, (ast.FunctionDef, ast.AsyncFunctionDef, ast.ClassDef, ast.Lambda)):
                continue
            out.append(ch)
            rec(ch)
    for st in f.node.body:
        out.append(st)
        rec(st)
    return out


def run_generic(ck, roots, stop_modules=(), zero_iter_funcs=(), accepted_unbound=None, extra_funcs=()):
    cg = ck.cg
    P = ck.prog
    stop = set(q for q, f in P.funcs.items() if f.module.name in stop_modules)
    missing = [r for r in roots if r not in P.funcs]
    for r in missing:
        ck.error('anchor missing: API function %s not found (renamed or removed?)' % r)
    clo = cg.closure([r for r in roots if r in P.funcs], stop=stop)
    clo |= set(q for q in extra_funcs if q in P.funcs)
    # nested functions of closure members belong to the closure
    for q in list(P.funcs):
        if '.<locals>.' in q and q.split('.<locals>.')[0] in clo:
            clo.add(q)
    ck.closure = clo
    funcs = [P.funcs[q] for q in sorted(clo)]
    ck.clause('G (definedness on the closure)')
    g_undef(ck, funcs)
    g_api(ck, funcs)
    g_return(ck, funcs)
    g_unbound(ck, funcs, zero_iter_funcs=zero_iter_funcs, accepted=accepted_unbound)
    g_mutable_default(ck, funcs)
    g_list_as_array(ck, funcs)
    g_none_belief(ck, funcs)
    g_dead_handler(ck, funcs)
    return funcs
