"""C05 - Poisson L/CL/S/M statistics = Poisson joint log-likelihood."""
import ast

from ..core import sym
from ..core.expand import u, call_name, get_arg, bind_args, Expander, is_marker, phi_alternatives
from ..core.loader import Inconclusive, const_value
from .common import (kw, returns, all_nodes, callee, strip_shape, result_fields, calls_in, compare_nf, guards_of,
                     find_assignments, stmt_of, opaque_in)

EXPLANATION = (
    "Decided: D1 the kernel returns sum(log-rate*count) - sum(loggamma(count+1)) - N as a polynomial identity (all "
    "three terms, count plus exactly one), and at both call sites its arguments are (log-rates[I]*counts[I], "
    "counts[I], expected count) with I = nonzero(counts) of one and the same count array; D2 each public test hands "
    "forecast and observation data of the same marginal (L/CL: full space-magnitude; S: spatial/spatial; M: "
    "magnitude/magnitude on the forecast's magnitude bins) with the documented flags, and stores (quantile, "
    "observed statistic, distribution) in their slots; D3 the normalisation is scale = N_obs/N_fore applied to the "
    "rates inside the log with the expected count int(N_obs), only under use_observed_counts and "
    "normalize_likelihood; D4 the observed and each simulated statistic are the same callee on provenance trees "
    "equal up to the renaming observed<->simulated; D5 the log-rates are numpy.log of the (scaled) rates with no "
    "where=/out=/clip/nan_to_num/masking in between (the structural reason a zero-rate bin holding an event gives "
    "-inf and nothing else does); plus the duplicate-safe accumulation of the gridded counts the tests consume "
    "D5.double neither the forecast container nor the kernels convert rates / counts to a narrower numeric type; shared C11-D1/D4: the rates are read through a fresh scaled view and its marginals; shared C03-D6: the observed counts are recomputed from the current events. "
    "(shared with C03). NOT decided: numerical equality with sum log pmf (loggamma, log, summation order).")
CLAUSES = {'D1': 'kernel terms and call-site arguments', 'D2': 'marginals and flags per test', 'D3': 'normalisation',
           'D4': 'observed/simulated isomorphism', 'D5': 'no laundering of log-rates'}
TRUSTED = ['CPython ast', 'numpy.log(0) = -inf, numpy.nonzero, scipy.special.loggamma(n+1) = log n!']
ROOTS = ['csep.core.poisson_evaluations.likelihood_test', 'csep.core.poisson_evaluations.conditional_likelihood_test',
         'csep.core.poisson_evaluations.spatial_test', 'csep.core.poisson_evaluations.magnitude_test']
TECHNIQUE = 'static analysis: def-use expansion + polynomial normal forms + role typing of call arguments'

K = 'csep.utils.stats.poisson_joint_log_likelihood_ndarray'
T = 'csep.core.poisson_evaluations._poisson_likelihood_test'
PE = 'csep.core.poisson_evaluations.'


def rule_kernel(ck):
    P = ck.prog
    ck.clause('D1')
    f = P.func(K)
    ex = Expander(P, f)
    rets = [r for r in returns(f) if r.value is not None]
    if len(rets) != 1:
        raise Inconclusive('kernel has %d returns' % len(rets))
    a, b, c = f.positional_params[:3]
    o = ck.ob('C05-D1.kernel', f, rets[0].value, rets[0])
    compare_nf(o, ex.expand(rets[0].value),
               'numpy.sum(%s) - numpy.sum(scipy.special.loggamma(%s + 1)) - %s' % (a, b, c), what='joint log-likelihood')


def _expand_calls(ck):
    P = ck.prog
    f = P.func(T)
    ex = Expander(P, f)
    calls = calls_in(P, f, K)
    return f, ex, calls


def rule_callsites(ck):
    P = ck.prog
    ck.clause('D1')
    f, ex, calls = _expand_calls(ck)
    o = ck.ob('C05-D1.sites', f, '%d kernel call sites' % len(calls), f.node)
    if len(calls) != 2:
        o.fail('expected the observed and the simulated call of the kernel, found %d' % len(calls))
        return
    o.ok()
    fd, od = f.positional_params[0], f.positional_params[1]
    N = sym.Normalizer()
    k = P.func(K)
    forms = []
    from .common import in_loop
    for call in calls:
        m, ok = bind_args(k, call)
        a0, a1, a2 = [ex.expand(m[p]) for p in k.positional_params[:3]]
        role = 'sim' if in_loop(call, f.node) is not None else 'obs'
        oo = ck.ob('C05-D1.args.' + role, f, call, call)
        # a1 = DATA[nonzero(DATA)] ; a0 = LOGR[nonzero(DATA)] * a1
        s1 = strip_shape(a1)
        probs = []
        data = None
        if isinstance(s1, ast.Subscript):
            idx = strip_shape(s1.slice)
            if isinstance(idx, ast.Call) and call_name(idx) in ('numpy.nonzero', '.nonzero', 'numpy.flatnonzero'):
                arg = idx.args[0] if idx.args else idx.func.value
                if N.nf(arg) == N.nf(s1.value):
                    data = s1.value
                else:
                    probs.append('counts `%s` are taken at the non-zero bins of a different array `%s`' % (u(s1.value)[:50], u(arg)[:50]))
            else:
                probs.append('counts are indexed by `%s`, not by nonzero(counts)' % u(idx)[:60])
        else:
            probs.append('second argument `%s` is not counts[nonzero(counts)]' % u(a1)[:60])
        logr = None
        if data is not None:
            n0 = N.nf(a0)
            n1 = N.nf(a1)
            q = n0 * sym.power(n1, -1)
            st = q.single_term()
            if st is None or st[1] != 1 or len(st[0]) != 1 or st[0][0][1] != 1 or st[0][0][0][0] != 'sub':
                probs.append('first argument is `%s`; expected log-rates[target bins] * counts[target bins]' % sym.show(n0)[:120])
            else:
                atom = st[0][0][0]
                if atom[2] != N.nf(s1.slice):
                    probs.append('log-rates and counts are taken at different index sets')
                logr = atom[1]
        if probs:
            oo.fail('; '.join(probs))
        else:
            oo.ok('(logr[I]*w[I], w[I], N) with I = nonzero(w)')
        forms.append((role, data, logr, N.nf(a2), call))
    # D4 isomorphism
    ck.clause('D4')
    byrole = {r: x for r, *x in forms}
    o = ck.ob('C05-D4.iso', f, 'observed and simulated statistic computed alike', f.node)
    if 'obs' in byrole and 'sim' in byrole and byrole['obs'][1] is not None and byrole['sim'][1] is not None:
        if byrole['obs'][1] != byrole['sim'][1]:
            o.fail('observed statistic uses log-rates `%s` but the simulated statistic uses `%s`' % (
                sym.show(byrole['obs'][1])[:100], sym.show(byrole['sim'][1])[:100]))
        elif byrole['obs'][2] != byrole['sim'][2]:
            o.fail('expected-count argument differs: observed `%s`, simulated `%s`' % (sym.show(byrole['obs'][2])[:80], sym.show(byrole['sim'][2])[:80]))
        else:
            od_ = strip_shape(byrole['obs'][0])
            sd_ = strip_shape(byrole['sim'][0])
            if not (isinstance(od_, ast.Name) and od_.id == od):
                o.fail('the observed statistic is computed from `%s`, not from the observed data parameter' % u(od_)[:60])
            elif isinstance(sd_, ast.Name) and sd_.id == od:
                o.fail('the simulated statistic is computed from the observed data')
            else:
                o.ok('same log-rates and expected count; counts differ only by observed <-> simulated')
    else:
        o.unknown('could not pair observed and simulated call')
    return byrole


def rule_normalisation(ck):
    P = ck.prog
    f, ex, calls = _expand_calls(ck)
    if len(calls) != 2:
        return
    fd, od = f.positional_params[0], f.positional_params[1]
    N = sym.Normalizer()
    k = P.func(K)
    m, ok = bind_args(k, calls[-1])
    a0 = ex.expand(m[k.positional_params[0]])
    # locate the log-rates variable: the subscripted base in a0
    logvars = [n for n in ast.walk(m[k.positional_params[0]]) if isinstance(n, ast.Name)]
    ck.clause('D5')
    # all assignments of log-rate arrays: values that are numpy.log calls
    logs = calls_in(P, f, {'numpy.log', 'numpy.log10', 'numpy.log2', 'math.log', 'numpy.log1p'})
    F = N.nf(ast.Name(id=fd, ctx=ast.Load()))
    O = N.nf(ast.Name(id=od, ctx=ast.Load()))
    scale_spec = N.nf('numpy.sum(%s) / numpy.sum(%s)' % (od, fd))
    seen_plain = seen_scaled = False
    for lc in logs:
        o = ck.ob('C05-D5.log', f, lc, lc)
        e = ex.expand(lc)
        if callee(P, f, lc) != 'numpy.log':
            o.fail('log-rates are taken with %s, the statistic is defined with the natural logarithm' % callee(P, f, lc))
            continue
        if len(lc.args) != 1 or lc.keywords:
            o.fail('numpy.log is called with extra arguments (%s): masked-out / pre-filled entries replace the -inf of a '
                   'zero-rate bin, so an event in a zero-rate bin no longer gives -inf' % ', '.join(
                       [k_.arg or '*' for k_ in lc.keywords] + [u(a) for a in lc.args[1:]]))
            continue
        arg = e.args[0]
        laundering = [n for n in ast.walk(arg) if isinstance(n, ast.Call) and (call_name(n) or '') in (
            'numpy.clip', 'numpy.nan_to_num', 'numpy.where', 'numpy.maximum', 'numpy.fmax', '.clip',
            'numpy.ma.masked_where', 'numpy.ma.masked_array', 'numpy.ma.masked_equal', 'numpy.ma.masked_less_equal',
            'numpy.ma.log', '.filled')]
        if laundering:
            o.fail('the rates are passed through `%s` before the log: zero rates are replaced, so an event in a zero-rate '
                   'bin no longer yields -inf' % u(laundering[0])[:80])
            continue
        a = N.nf(arg)
        if a == F:
            seen_plain = True
            o.ok('log(rates)')
        else:
            q = a * sym.power(F, -1)
            if q == scale_spec:
                seen_scaled = True
                g = guards_of(stmt_of(lc), f.node)
                gtxt = ' and '.join(('' if pol else 'not ') + u(t) for t, pol in g)
                want = {'use_observed_counts', 'normalize_likelihood'}
                names = set()
                for t, pol in g:
                    if pol:
                        names |= {n.id for n in ast.walk(t) if isinstance(n, ast.Name)}
                ck.clause('D3')
                if want <= names and all(pol for t, pol in g):
                    o.ok('log(rates * N_obs/N_fore) under `%s`' % gtxt)
                else:
                    o.fail('the normalised log-rates are used under `%s`; they must apply only when use_observed_counts '
                           'and normalize_likelihood' % (gtxt or 'no condition'))
                ck.clause('D5')
            elif (a * sym.power(F, -1)).atoms() and not opaque_in(a):
                o.fail('log-rates are log(`%s`): the rates must be the forecast rates, scaled only by N_obs/N_fore '
                       '(found factor `%s`)' % (sym.show(a)[:80], sym.show(q)[:80]))
            else:
                o.unknown('cannot relate `%s` to the forecast rates' % sym.show(a)[:80])
    o = ck.ob('C05-D5.present', f, 'plain and normalised log-rates exist', f.node)
    (o.ok() if seen_plain and seen_scaled else o.fail('expected both log(rates) (L/CL) and log(rates*N_obs/N_fore) (S/M): '
                                                      'plain=%s normalised=%s' % (seen_plain, seen_scaled)))
    # expected count: sum(forecast) or int(N_obs) under the same guard
    ck.clause('D3')
    third = ex.expand(m[k.positional_params[2]])
    alts = phi_alternatives(third)
    o = ck.ob('C05-D3.count', f, m[k.positional_params[2]], calls[-1])
    want = {N.nf('numpy.sum(%s)' % fd).skey(): 'sum(forecast)', N.nf('builtins.int(numpy.sum(%s))' % od).skey(): 'int(N_obs)'}
    got = {N.nf(a).skey() for a in alts}
    if got == set(want):
        # the int(n_obs) assignment must sit under the normalisation guard
        var = m[k.positional_params[2]]
        okg = True
        if isinstance(var, ast.Name):
            for asg in find_assignments(f, var.id):
                if N.nf(ex.expand(asg.value)).skey() == N.nf('builtins.int(numpy.sum(%s))' % od).skey():
                    names = set()
                    for t, pol in guards_of(asg, f.node):
                        if pol:
                            names |= {n.id for n in ast.walk(t) if isinstance(n, ast.Name)}
                    okg = {'use_observed_counts', 'normalize_likelihood'} <= names
        (o.ok('sum(forecast) | int(N_obs) when normalised') if okg else
         o.fail('the expected count int(N_obs) is not restricted to the normalised (S/M) case'))
    else:
        o.fail('expected-count term is %s; it must be the forecast total, replaced by int(N_obs) only when the rates are '
               'normalised' % [sym.show(N.nf(a))[:60] for a in alts])


FLAGS = {
    'likelihood_test': ('full', False, False),
    'conditional_likelihood_test': ('full', True, False),
    'spatial_test': ('space', True, True),
    'magnitude_test': ('mag', True, True),
}


def _marginal_of(e, owner, kind):
    """Does expanded expr e denote the `kind` marginal of object `owner`? kind in full/space/mag; returns bool,text"""
    s = strip_shape(e)
    if kind == 'full':
        if isinstance(s, ast.Attribute) and s.attr == 'data' and isinstance(s.value, ast.Name) and s.value.id == owner:
            return True
        if isinstance(s, ast.Call) and call_name(s) == '.spatial_magnitude_counts' and isinstance(s.func.value, ast.Name) \
                and s.func.value.id == owner and not s.args and not s.keywords:
            return True
        return False
    meth = '.spatial_counts' if kind == 'space' else '.magnitude_counts'
    if isinstance(s, ast.Call) and call_name(s) == meth and isinstance(s.func.value, ast.Name) and s.func.value.id == owner:
        if s.args:
            return False
        return True
    return False


def rule_public(ck):
    P = ck.prog
    ck.clause('D2')
    t = P.func(T)
    for name, (kind, uoc, norm) in FLAGS.items():
        g = P.func(PE + name)
        ex = Expander(P, g)
        calls = calls_in(P, g, T)
        o = ck.ob('C05-D2.call.' + name, g, calls[0] if calls else T, calls[0] if calls else g.node)
        if len(calls) != 1:
            o.fail('%s does not call _poisson_likelihood_test exactly once' % name)
            continue
        m, ok = bind_args(t, calls[0])
        fore, obs = g.positional_params[0], g.positional_params[1]
        fa, oa = ex.expand(m[t.positional_params[0]]), ex.expand(m[t.positional_params[1]])
        probs = []
        if not _marginal_of(fa, fore, kind):
            probs.append('forecast data is `%s`, expected the %s rates of `%s`' % (u(fa)[:60], kind, fore))
        if not _marginal_of(oa, obs, kind):
            probs.append('observed data is `%s`, expected the %s counts of `%s`' % (u(oa)[:60], kind, obs))
        if kind == 'mag':
            so = strip_shape(oa)
            mb = get_arg(so, None, 'mag_bins') if isinstance(so, ast.Call) else None
            if not (isinstance(mb, ast.Attribute) and mb.attr == 'magnitudes' and isinstance(mb.value, ast.Name) and mb.value.id == fore):
                probs.append('the observed magnitudes are not binned on the forecast\'s magnitude bins (mag_bins=%s)' % (u(mb) if mb is not None else 'missing'))
        for par, want in (('use_observed_counts', uoc), ('normalize_likelihood', norm)):
            v = const_value(m[par]) if par in m else NotImplemented
            if v is not want:
                probs.append('%s=%s, must be %s' % (par, u(m[par]) if par in m else '?', want))
        for par in ('num_simulations', 'seed', 'random_numbers'):
            if not (par in m and isinstance(m[par], ast.Name) and m[par].id == par and par in g.params):
                probs.append('%s is not forwarded' % par)
        (o.fail('; '.join(probs)) if probs else o.ok('%s marginals, use_observed_counts=%s, normalize=%s' % (kind, uoc, norm)))
        for flds in result_fields(P, g, ex):
            for fld, idx in (('quantile', 0), ('observed_statistic', 1), ('test_distribution', 2)):
                v = flds.get(fld)
                oo = ck.ob('C05-D2.slot.%s.%s' % (name, fld), g, v[1] if v else fld, v[1] if v else g.node)
                e = v[0] if v else None
                good = e is not None and is_marker(e, '__item__') and const_value(e.args[1]) == idx and \
                    isinstance(e.args[0], ast.Call) and call_name(e.args[0]) == T
                (oo.ok() if good else oo.fail('%s is `%s`, expected component %d of the kernel result (qs, obs_ll, simulated_ll)' % (
                    fld, u(v[1])[:50] if v else 'unset', idx)))
    # the test kernel returns (qs, obs_ll, simulated_ll)
    rets = [r for r in returns(t) if r.value is not None]
    o = ck.ob('C05-D2.ret', t, rets[0].value if rets else 'return', rets[0] if rets else t.node)
    if len(rets) == 1 and isinstance(rets[0].value, ast.Tuple) and len(rets[0].value.elts) == 3:
        ex = Expander(P, t)
        e = ex.expand(rets[0].value)
        k_obs = isinstance(e.elts[1], ast.Call) and call_name(e.elts[1]) == K
        (o.ok('(quantile, observed ll, simulated lls)') if k_obs else o.fail('second component is not the observed kernel value'))
    else:
        o.fail('kernel test does not return a triple')


def rule_counts(ck):
    from . import c03
    ck.clause('shared C03-D2 (accumulation of gridded counts)')
    c03.rule_accumulation(ck)
    c03.rule_mag_sentinel(ck)
    # the observed counts are those of the catalog's current events, region and bins (no memo that outlives a filter)
    ck.clause('shared C03-D6 (gridded counts are recomputed from the current events)')
    c03.rule_pure_gridding(ck)
    # ... located with their own coordinates, longitude as longitude (a transposed lookup counts the events of another catalog)
    from . import c01
    ck.clause('shared C01-D2 (the region is asked about the stored coordinates, in the order (lons, lats))')
    c01.rule_raw_coordinates(ck)


def rule_rates_view(ck):
    """the rates every statistic reads are forecast.data = a fresh array `_data * _scale`, its marginals sums of that view (shared
    C11-D1 scaling and C11-D4 axes): a caller that edits what it was handed cannot change the forecast"""
    from . import c11
    ck.clause('shared C11-D1/D4 (the scaled view and its marginals)')
    c11.rule_scaling(ck)
    c11.rule_axes(ck)


def rule_simulated_catalogs(ck):
    """every entry of the test distribution is the same function of a freshly simulated catalog (shared C06-D6)."""
    from . import c06
    ck.clause('shared C06-D6 (scratch array reset on every path)')
    c06.rule_reset(ck)


def rule_flatten_order(ck, modules=('csep.core.poisson_evaluations', 'csep.core.binomial_evaluations', 'csep.core.brier_evaluations')):
    """forecast rates and gridded counts are paired bin by bin after flattening: every flattening in the test kernels uses the
    logical (row-major) order, never the memory layout (order='K'/'A') or column-major order of one of the arrays"""
    P = ck.prog
    ck.clause('D4')
    n = 0
    for mod in modules:
        for f in P.funcs_in(mod):
            for c in all_nodes(f):
                if isinstance(c, ast.Call) and (isinstance(c.func, ast.Attribute) and c.func.attr in ('ravel', 'flatten', 'reshape') or
                                                (callee(P, f, c) or '') in ('numpy.ravel', 'numpy.reshape')):
                    n += 1
                    od = kw(c, 'order')
                    if od is None and isinstance(c.func, ast.Attribute) and c.func.attr in ('ravel', 'flatten') and c.args:
                        od = c.args[0]
                    if od is not None and const_value(od) != 'C':
                        ck.ob('C05-D4.order', f, c, c).fail('`%s` flattens in order=%s: for an array that is not C-contiguous (e.g. a transposed rate '
                                                            'table) the elements come out in another order than the gridded counts they are paired with' % (u(c)[:60], u(od)))
    o = ck.ob('C05-D4.order', P.func(T), '%d flattening calls in the test kernels use the logical order' % n, P.func(T).node)
    (o.ok() if n else o.unknown('no flattening call found'))


def rule_own_magnitudes_shared(ck):
    from . import c11
    ck.clause('shared C11-D5: a forecast bins magnitudes with its own edges')
    c11.rule_own_magnitudes(ck)


def rule_precision(ck):
    """D5.double: the rates the statistic is defined on are the rates that were supplied: neither the forecast container nor the test
    kernels convert them to a narrower numeric type"""
    from .common import rule_double_precision
    ck.clause('D5')
    rule_double_precision(ck, 'C05-D5.double',
                          modules=('csep.core.poisson_evaluations', 'csep.utils.stats', 'csep.core.forecasts'),
                          what='forecast rates and observed counts')


def rule_binning_shared(ck):
    """the histogram and the space-magnitude counts place a magnitude where bin1d_vec places it: same kernel, same mode, and the values
    handed over as they are stored (shared C02-D4.mag / .coord / .kernel / .sibling / .asstored)"""
    from . import c02
    ck.clause('D2 (shared C02-D4: the observed counts are binned by the kernel, in the stored type of the magnitudes)')
    c02.rule_callsites(ck)


RULES = [rule_kernel, rule_callsites, rule_normalisation, rule_public, rule_counts, rule_simulated_catalogs, rule_flatten_order, rule_own_magnitudes_shared,
         rule_precision, rule_rates_view, rule_binning_shared]
