"""C13 - a catalog forecast is a stable, re-iterable collection (typestate of CatalogForecast)."""
import ast

from ..core import sym
from ..core.expand import u, call_name, get_arg, bind_args, Expander, is_marker, phi_alternatives
from ..core.loader import Inconclusive, const_value, parents, walk_scope
from .common import (holds_on_every_path, guard_dnf, literal_nf, returns, all_nodes, callee, strip_shape, calls_in, guards_of, stmt_of, loops_around, kw,
                     find_assignments, in_loop)

EXPLANATION = (
    "Decided (typestate over _idx, catalogs, _catalogs, _event_counts, n_cat, expected_rates, apply_filters): D1 the "
    "state is written only by CatalogForecast.__init__/__next__/_load_catalogs/get_expected_rates and by no other "
    "module; D2 every path of __next__ to `raise StopIteration` leaves _idx == 0 and n_cat established; D3 a field "
    "that may be None (n_cat) is not used in a None-intolerant context without a dominating assignment or None-test; "
    "D4 a per-item accumulator (_event_counts) is reset under a pass-start guard that dominates the append, and the "
    "recorded count is that of the catalog as yielded (same reaching definitions as at `return catalog`, i.e. after "
    "the filters); D5 on the path that swaps the cache into `catalogs` apply_filters is switched off, and it is "
    "switched off nowhere else (re-reading from file keeps filtering); D6 get_expected_rates returns "
    "self.expected_rates on every path; D7 the mean: += of each catalog's space-magnitude counts over a complete "
    "pass, each catalog bound to the forecast's region first, true-divided by n_cat after the loop; D8 "
    "get_event_counts iterates only when no counts are recorded; D9 no break/return inside a loop over a forecast "
    "D2.count where n_cat is read off the cursor no rewind of _idx (direct or inside a called method) lies between the last increment and that assignment; shared C11-D1/D4: the cached expected rates hand out fresh arrays; G-DEFAULT on the constructor. "
    "anywhere in the package (a partial pass leaves the cursor mid-way). NOT decided: equality of the yielded "
    "catalog objects across passes for store=False (loader determinism), user-mutated filters.")
CLAUSES = {'D1': 'writers of the state', 'D2': 'pass-end postcondition', 'D3': 'nullness', 'D4': 'per-pass accumulators',
           'D5': 'cache hand-over', 'D6': 'cached getter', 'D7': 'mean of gridded counts', 'D8': 'lazy counts', 'D9': 'complete passes',
           'D10': 'read-only consumers'}
TRUSTED = ['CPython ast', 'iterator protocol (StopIteration ends a pass)', 'catalog filters act in place and return the catalog']
F = 'csep.core.forecasts.CatalogForecast.'
ROOTS = [F + '__init__', F + '__iter__', F + '__next__', F + 'get_event_counts', F + 'get_expected_rates', F + 'spatial_counts',
         F + 'magnitude_counts', 'csep.load_catalog_forecast']
TECHNIQUE = 'static analysis: typestate on the CFG of __next__ (dominators, reaching definitions), who-may-write rule, nullness'

STATE = ['_idx', 'catalogs', '_catalogs', '_event_counts', 'n_cat', 'expected_rates', 'apply_filters']
WRITERS = {'__init__', '__next__', '_load_catalogs', 'get_expected_rates'}


def rule_writers(ck):
    P = ck.prog
    ck.clause('D1')
    n = 0
    for f in P.funcs.values():
        if f.module.name in ('csep.utils.plots',):
            continue
        for node in all_nodes(f):
            targets = []
            if isinstance(node, ast.Assign):
                targets = node.targets
            elif isinstance(node, (ast.AugAssign, ast.AnnAssign)):
                targets = [node.target]
            elif isinstance(node, ast.Delete):
                targets = node.targets
            for t in targets:
                for x in ast.walk(t):
                    if isinstance(x, ast.Attribute) and isinstance(x.ctx, (ast.Store, ast.Del)) and x.attr in ('_idx', '_catalogs', '_event_counts', 'n_cat', 'apply_filters') \
                            or (isinstance(x, ast.Attribute) and isinstance(x.ctx, (ast.Store, ast.Del)) and x.attr in ('catalogs', 'expected_rates')
                                and (('forecast' in u(x.value).lower()) or (u(x.value) == 'self' and f.cls is not None and f.cls.qualname.endswith('CatalogForecast')))):
                        inside = f.cls is not None and f.cls.qualname == 'csep.core.forecasts.CatalogForecast'
                        if not inside and u(x.value) == 'self':
                            continue   # another class's own attribute of the same name
                        if f.cls is not None and f.cls.qualname == 'csep.models.EvaluationConfiguration':
                            continue
                        n += 1
                        o = ck.ob('C13-D1.writer', f, node, node)
                        fname_ = f.qualname.split('.')[-1]      # the name the method had on the reference tree
                        if inside and fname_ in WRITERS:
                            o.ok('%s may write %s' % (fname_, x.attr))
                        else:
                            o.fail('`%s` writes the iteration state `%s` of a catalog forecast from %s: the state machine of '
                                   'CatalogForecast is no longer closed over its own four writers' % (u(node)[:60], x.attr, f.short))
    ck.extra['state_writes'] = n


def rule_next(ck):
    P = ck.prog
    f = P.func(F + '__next__')
    cfg = f.cfg
    N = sym.Normalizer()
    raises = [n for n in cfg.nodes if n.kind == 'raise' and 'StopIteration' in u(n.ast)]
    ck.clause('D2')
    if len(raises) < 1:
        ck.ob('C13-D2.exit', f, 'raise StopIteration', f.node).fail('__next__ has no StopIteration exit')
        return
    idx_defs = [n for n in cfg.nodes if 'self._idx' in n.defs]
    for r in raises:
        o = ck.ob('C13-D2.idx', f, r.ast, r.ast)
        # the last write to self._idx on every path to r is the constant 0: there is a def node with value 0 dominating r
        # with no other def of _idx between it and r
        zeros = [d for d in idx_defs if isinstance(d.ast, ast.Assign) and const_value(d.ast.value) == 0 and cfg.dominates(d, r)]
        ok = False
        for z in zeros:
            others = [d for d in idx_defs if d is not z]
            # no other def reachable from z that reaches r without passing z again
            between = [d for d in others if cfg.can_reach(z, d) and cfg.can_reach(d, r, avoid=[z])]
            if not between:
                ok = True
        (o.ok('self._idx = 0 is the last write before the pass ends') if ok else
         o.fail('a pass can end with the cursor not reset to 0: the next pass starts mid-way or ends immediately'))
        o = ck.ob('C13-D2.ncat', f, 'n_cat established at pass end (L%d)' % r.lineno, r.ast)
        ndefs = [d for d in cfg.nodes if 'self.n_cat' in d.defs and cfg.dominates(d, r)]
        tests = [n for n in cfg.nodes if n.kind == 'test' and 'self.n_cat' in u(n.ast.test) and cfg.dominates(n, r)]
        asserts = [n for n in cfg.nodes if isinstance(n.ast, ast.Assert) and 'self.n_cat' in u(n.ast.test) and cfg.dominates(n, r)]
        (o.ok() if ndefs or tests or asserts else o.fail('the number of catalogs is not established when this pass ends'))
    # D2.count: where the number of catalogs is read off the cursor, the cursor still holds the count: no reset of _idx - in __next__
    # itself or inside a method it calls on the way - lies between the last increment and that assignment
    def writes_idx(g, depth=0):
        for x in all_nodes(g):
            if isinstance(x, ast.Attribute) and isinstance(x.ctx, ast.Store) and u(x) == 'self._idx':
                return True
            if depth < 2 and isinstance(x, ast.Call) and isinstance(x.func, ast.Attribute) and isinstance(x.func.value, ast.Name) and x.func.value.id == 'self' \
                    and f.cls is not None:
                m_ = f.cls.find_method(x.func.attr)
                if m_ is not None and m_ is not g and writes_idx(m_, depth + 1):
                    return True
        return False
    def _is_inc(a_):
        # `self._idx += k` and its spelling `self._idx = self._idx + k`
        return isinstance(a_, ast.AugAssign) or (
            isinstance(a_, ast.Assign) and isinstance(a_.value, ast.BinOp) and isinstance(a_.value.op, ast.Add) and
            ((u(a_.value.left) == 'self._idx' and isinstance(const_value(a_.value.right), int) and const_value(a_.value.right) > 0) or
             (u(a_.value.right) == 'self._idx' and isinstance(const_value(a_.value.left), int) and const_value(a_.value.left) > 0)))
    incs = [d for d in idx_defs if _is_inc(d.ast)]
    resets = [d for d in idx_defs if not _is_inc(d.ast)]
    for n in cfg.nodes:
        a = n.ast
        if n.kind in ('test', 'for', 'while') or a is None or isinstance(a, (ast.FunctionDef, ast.ClassDef)):
            continue
        for x in ast.walk(a) if isinstance(a, (ast.Expr, ast.Assign, ast.AugAssign, ast.Return)) else []:
            if isinstance(x, ast.Call) and isinstance(x.func, ast.Attribute) and isinstance(x.func.value, ast.Name) and x.func.value.id == 'self' and f.cls is not None:
                m_ = f.cls.find_method(x.func.attr)
                if m_ is not None and m_ is not f and writes_idx(m_):
                    resets.append(n)
    for d in cfg.nodes:
        if isinstance(d.ast, ast.Assign) and 'self.n_cat' in d.defs and 'self._idx' in u(d.ast.value):
            o = ck.ob('C13-D2.count', f, d.ast, d.ast)
            def reaches(w):
                # a plain store of a constant raises nothing: leave the reset through its normal successor only
                first = [s_ for s_, lab in w.succ if not (lab == 'exc' and isinstance(w.ast, ast.Assign) and isinstance(w.ast.value, ast.Constant))]
                return any(s_ is d or (s_ not in incs and cfg.can_reach(s_, d, avoid=incs)) for s_ in first)
            bad = [w for w in resets if w is not d and reaches(w)]
            (o.fail('`%s` (L%d) rewinds the cursor before `%s` reads it: the forecast then reports 0 catalogs after the pass and the expected '
                    'rates are divided by 0' % (u(bad[0].ast)[:60], bad[0].lineno, u(d.ast))) if bad else
             o.ok('the cursor still counts the catalogs of the pass when it is read'))
    # D3 nullness of n_cat inside __next__
    ck.clause('D3')
    init = P.func(F + '__init__')
    dflt = init.defaults().get('n_cat')
    may_none = dflt is not None and isinstance(dflt, ast.Constant) and dflt.value is None
    for n in cfg.reachable_nodes():
        for e in n.exprs():
            if isinstance(e, (ast.FunctionDef, ast.ClassDef)):
                continue
            for x in ast.walk(e):
                if isinstance(x, ast.Attribute) and u(x) == 'self.n_cat' and isinstance(x.ctx, ast.Load):
                    par = getattr(x, '_parent', None)
                    intolerant = (isinstance(par, ast.Compare) and not any(isinstance(op, (ast.Is, ast.IsNot)) for op in par.ops)) or \
                        isinstance(par, ast.BinOp)
                    if not intolerant or not may_none:
                        continue
                    o = ck.ob('C13-D3.null', f, stmt_of(x), x)
                    guarded = False
                    for d in cfg.nodes:
                        if d is n:
                            continue
                        if 'self.n_cat' in d.defs and cfg.dominates(d, n):
                            guarded = True
                        if d.kind == 'test' and 'self.n_cat is None' in u(d.ast.test) and cfg.dominates(d, n):
                            # the test's true branch must assign n_cat
                            if any(isinstance(s, ast.Assign) and u(s.targets[0]) == 'self.n_cat' for s in d.ast.body):
                                guarded = True
                        if d.kind == 'test' and 'self.n_cat is not None' in u(d.ast.test) and cfg.dominates(d, n):
                            guarded = True
                    (o.ok('dominated by an assignment / None-test of n_cat') if guarded else
                     o.fail('self.n_cat may still be None here (forecast built from a list of catalogs without n_cat): `%s` then fails '
                            'on the very first next()' % u(stmt_of(x))[:60]))
    # every catalog of the source is yielded: no handler inside __next__ answers an error by moving on to the next catalog, and the
    # handler around next(<stream>) is there for the end of the stream only
    ck.clause('D1')
    o = ck.ob('C13-D1.noskip', f, 'no catalog is skipped on an error', f.node)
    skips = [c for c in all_nodes(f) if isinstance(c, ast.Call) and u(c.func) in ('self.__next__', 'next') and (u(c.func) == 'self.__next__' or (c.args and u(c.args[0]) == 'self'))]
    (o.fail('`%s` inside __next__: a catalog whose filtering raised is left out of the pass, so the number of catalogs and the counts differ '
            'from the source' % u(skips[0])) if skips else o.ok())
    for h in [x for x in all_nodes(f) if isinstance(x, ast.Try)]:
        if any(isinstance(c, ast.Call) and u(c.func) == 'next' and c.args and 'catalogs' in u(c.args[0]) for st in h.body for c in ast.walk(st)):
            oo = ck.ob('C13-D1.endonly', f, 'the handler around next(catalogs) catches the end of the stream only', h)
            wide = [hh for hh in h.handlers if hh.type is None or any(w in u(hh.type) for w in ('Exception', 'BaseException', 'ValueError', 'RuntimeError'))]
            (oo.fail('`except %s` around next(self.catalogs): an error of the loader (a file whose catalog ids decrease is rejected with '
                     'ValueError) is taken for the end of the pass, and the truncated forecast is accepted' % (u(wide[0].type) if wide[0].type is not None else ''))
             if wide else oo.ok('StopIteration'))
    # D4 accumulators
    ck.clause('D4')
    ret_nodes = [n for n in cfg.nodes if n.kind == 'return' and n.ast.value is not None]
    apps = []
    for n in cfg.nodes:
        a = n.ast
        if isinstance(a, ast.Expr) and isinstance(a.value, ast.Call) and isinstance(a.value.func, ast.Attribute) and a.value.func.attr == 'append' \
                and isinstance(a.value.func.value, ast.Attribute) and u(a.value.func.value.value) == 'self':
            apps.append((n, a.value.func.value.attr, a.value))
    for n, fld, call in apps:
        o = ck.ob('C13-D4.acc', f, call, call)
        if fld == '_catalogs':
            # consumption at pass end: moved into catalogs and deleted
            consumed = any(isinstance(m.ast, ast.Delete) and 'self._catalogs' in u(m.ast) for m in cfg.nodes) and \
                any(isinstance(m.ast, ast.Assign) and u(m.ast.targets[0]) == 'self.catalogs' and u(m.ast.value) == 'self._catalogs' for m in cfg.nodes)
            g = [u(t) for t, pol in guards_of(call, f.node) if pol]
            (o.ok('cache filled during the first streamed pass and consumed (moved + deleted) at its end') if consumed and any('store' in x for x in g) else
             o.fail('the cache `_catalogs` is appended without being consumed at pass end / outside the store branch'))
            # what is cached is what is yielded: the filters are switched off once the cache replaces the loader, so a cached catalog
            # that is not the filtered one comes back unfiltered on every later pass
            arg = call.args[0] if call.args else None
            oo = ck.ob('C13-D5.cached', f, call, call)
            rv = [r for r in ret_nodes if isinstance(r.ast.value, ast.Name)]
            if not isinstance(arg, ast.Name) or not rv:
                oo.unknown('cannot relate the cached object to the returned one')
            else:
                diff = [r for r in rv if r.ast.value.id != arg.id or set(cfg.defs_reaching(r, arg.id)) != set(cfg.defs_reaching(n, arg.id))]
                (oo.fail('the cache receives `%s` while the pass yields `%s`: the first pass hands out filtered catalogs, every later pass (served '
                         'from the cache, filters off) the unfiltered ones' % (arg.id, diff[0].ast.value.id)) if diff else
                 oo.ok('the catalog as yielded'))
            continue
        resets = [d for d in cfg.nodes if ('self.' + fld) in d.defs and isinstance(d.ast, ast.Assign) and
                  isinstance(d.ast.value, (ast.List, ast.Call)) and u(d.ast.value) in ('[]', 'list()')]
        ok = False
        for d in resets:
            g = guards_of(d.ast, f.node)
            if len(g) == 1 and g[0][1] and N.nf(g[0][0]) == N.nf('self._idx == 0'):
                tn = cfg.node_of(d.ast._parent) if hasattr(d.ast, '_parent') else None
                if tn is not None and cfg.dominates(tn, n):
                    ok = True
        (o.ok('reset under `self._idx == 0`, which dominates the append') if ok else
         o.fail('`self.%s` is appended once per yielded catalog but never reset at the start of a pass: after k passes it holds k '
                'times the number of catalogs' % fld))
        # the recorded value is the event count of the catalog as yielded
        arg = call.args[0] if call.args else None
        if arg is not None and isinstance(arg, ast.Attribute) and arg.attr == 'event_count' and isinstance(arg.value, ast.Name):
            oo = ck.ob('C13-D4.value', f, call, call)
            var = arg.value.id
            here = set(cfg.defs_reaching(n, var))
            bad = None
            for r in ret_nodes:
                if isinstance(r.ast.value, ast.Name) and r.ast.value.id == var:
                    there = set(cfg.defs_reaching(r, var))
                    if here != there:
                        bad = r
            (oo.fail('the count is recorded before the catalog takes its final value (filters are applied between the append and '
                     '`return %s`): get_event_counts reports unfiltered sizes while the pass yields filtered catalogs' % var) if bad else
             oo.ok('count of the catalog as yielded'))
    if not any(fld == '_event_counts' for _, fld, _ in apps):
        ck.ob('C13-D4.acc', f, '_event_counts.append', f.node).fail('__next__ no longer records the per-catalog event counts')
    # D5 cache hand-over
    ck.clause('D5')
    swaps = [n for n in cfg.nodes if isinstance(n.ast, ast.Assign) and u(n.ast.targets[0]) == 'self.catalogs' and u(n.ast.value) == 'self._catalogs']
    offs = [n for n in cfg.nodes if isinstance(n.ast, ast.Assign) and u(n.ast.targets[0]) == 'self.apply_filters' and const_value(n.ast.value) is False]
    o = ck.ob('C13-D5.off', f, 'apply_filters switched off when the cache is swapped in', swaps[0].ast if swaps else f.node)
    if not swaps:
        o.fail('the cached catalogs are never swapped into `catalogs`')
    else:
        good = True
        for s in swaps:
            # on every path from the swap to an exit, an off-switch (or a false test of apply_filters) is passed
            reach = cfg.reachable(s, avoid=offs)
            exits = [x for x in reach if x in (cfg.exit, cfg.raise_exit)]
            if exits:
                # allowed if the path went through `if self.apply_filters` false branch
                tests = [t for t in cfg.nodes if t.kind == 'test' and u(t.ast.test) == 'self.apply_filters' and cfg.dominates(s, t)]
                if not tests:
                    good = False
        (o.ok() if good and offs else o.fail('after the cache replaces the loader the filters stay on: every later pass filters the already '
                                            'filtered catalogs again (time-dependent filters such as apply_mct are not idempotent)'))
    for off in offs:
        oo = ck.ob('C13-D5.only', f, off.ast, off.ast)
        dom = any(cfg.dominates(s, off) for s in swaps)
        (oo.ok('only on the cache hand-over path') if dom else
         oo.fail('apply_filters is switched off on a path that does not swap in the cached (already filtered) catalogs: with store=False '
                 'the catalogs are re-read from file and every later pass would yield them unfiltered'))
    # filters block control-dependent on apply_filters only
    fb = [n for n in all_nodes(f) if isinstance(n, ast.Call) and isinstance(n.func, ast.Attribute) and n.func.attr in ('filter', 'apply_mct', 'filter_spatial')]
    for c in fb:
        oo = ck.ob('C13-D5.block', f, c, c)
        dnf = guard_dnf(c, f.node)
        under = bool(dnf) and all(any(u(t) == 'self.apply_filters' and pol for t, pol in conj) for conj in dnf)
        (oo.ok() if under else oo.fail('the filter call is not under `if self.apply_filters`'))


def rule_getters(ck):
    P = ck.prog
    ck.clause('D6')
    f = P.func(F + 'get_expected_rates')
    cfg = f.cfg
    for r in returns(f):
        o = ck.ob('C13-D6.ret', f, r, r)
        (o.ok() if r.value is not None and u(r.value) == 'self.expected_rates' else o.fail('returns `%s` instead of the cached self.expected_rates' % (u(r.value) if r.value else 'None')))
    falls = [p for p, lab in cfg.exit.pred if lab == 'fall']
    o = ck.ob('C13-D6.all', f, 'every path returns the rates', f.node)
    (o.fail('a path falls off the end of get_expected_rates (second and later calls return None)') if falls or not returns(f) else o.ok())
    # D7 mean
    ck.clause('D7')
    ex = Expander(P, f)
    loops = [n for n in all_nodes(f) if isinstance(n, ast.For) and 'self' in u(n.iter)]
    o = ck.ob('C13-D7.loop', f, loops[0].iter if loops else 'loop over self', loops[0] if loops else f.node)
    if len(loops) != 1:
        o.fail('expected rates are not accumulated in one loop over the forecast')
        return
    lp = loops[0]
    body = list(ast.walk(lp))
    if any(isinstance(x, (ast.Break, ast.Return)) for x in body):
        o.fail('the accumulation loop can stop early')
    else:
        o.ok()
    reg = [s for s in lp.body if isinstance(s, ast.Assign) and isinstance(s.targets[0], ast.Attribute) and s.targets[0].attr == 'region'
           and u(Expander(P, f, expand_self=False).expand(s.value)) == 'self.region']
    cnt = [x for x in body if isinstance(x, ast.Call) and isinstance(x.func, ast.Attribute) and x.func.attr == 'spatial_magnitude_counts']
    o = ck.ob('C13-D7.region', f, reg[0] if reg else 'cat.region = self.region', reg[0] if reg else lp)
    good = bool(reg) and bool(cnt) and reg[0].lineno < cnt[0].lineno and u(reg[0].targets[0].value) == u(cnt[0].func.value)
    (o.ok() if good else o.fail('each catalog is not bound to the forecast\'s region before its space-magnitude counts are taken'))
    accs = [x for x in body if isinstance(x, ast.AugAssign) and isinstance(x.op, ast.Add)]
    o = ck.ob('C13-D7.acc', f, accs[0] if accs else 'data += counts', accs[0] if accs else lp)
    good = len(accs) == 1 and cnt and (u(cnt[0]) in u(ex.expand(accs[0].value)) or 'spatial_magnitude_counts' in u(ex.expand(accs[0].value)))
    (o.ok() if good else o.fail('the gridded counts of each catalog are not accumulated with +='))
    # the accumulator is set up by the first catalog of the pass: no catalog may be skipped before that happened
    accname = accs[0].target.id if accs and isinstance(accs[0].target, ast.Name) else 'data'
    inits = [a for a in find_assignments(f, accname) if isinstance(a, ast.Assign) and in_loop(a, f.node) is lp]
    if inits:
        def top(n):
            while getattr(n, '_parent', None) is not lp:
                n = n._parent
            return lp.body.index(n) if n in lp.body else len(lp.body)
        conts = [x for x in body if isinstance(x, ast.Continue) and in_loop(x, f.node) is lp]
        early = [c for c in conts if top(c) < max(top(a) for a in inits)]
        o = ck.ob('C13-D7.everycat', f, 'no catalog is skipped before the accumulator is set up', early[0] if early else lp)
        (o.fail('a `continue` stands before `%s`, which sets the accumulator up during the first iteration only: when the first catalog '
                'is skipped the sum is never initialised, so the expected rates depend on which catalog is stored first' % u(inits[0])[:60])
         if early else o.ok())
    divs = [a for a in find_assignments(f, accname)
            if isinstance(a, ast.Assign) and isinstance(a.value, ast.BinOp) and in_loop(a, f.node) is None]
    o = ck.ob('C13-D7.mean', f, divs[0] if divs else 'data / n_cat', divs[0] if divs else f.node)
    good = len(divs) == 1 and isinstance(divs[0].value.op, ast.Div) and u(divs[0].value.right) == 'self.n_cat' and divs[0].lineno > lp.lineno
    (o.ok('sum over a complete pass / n_cat') if good else
     o.fail('the accumulated counts are not true-divided by self.n_cat after the loop (found `%s`): the expected rates are not the '
            'per-cell mean over the synthetic catalogs' % (u(divs[0]) if divs else 'no division')))
    # D8
    ck.clause('D8')
    g = P.func(F + 'get_event_counts')
    lps = [n for n in all_nodes(g) if isinstance(n, ast.For)]
    o = ck.ob('C13-D8.lazy', g, lps[0] if lps else 'loop', lps[0] if lps else g.node)
    N = sym.Normalizer()
    ok = False
    if len(lps) == 1:
        gs = guards_of(lps[0], g.node)
        want = (N.nf('len(self._event_counts) == 0'), N.nf('not self._event_counts'))
        ok = len(gs) == 1 and (literal_nf(N, gs[0][0], gs[0][1]) in want or
                               (not gs[0][1] and u(gs[0][0]) in ('self._event_counts', 'len(self._event_counts)')))
    (o.ok('iterates only when no counts are recorded') if ok else o.fail('get_event_counts iterates unconditionally / under another condition'))
    r = [x for x in returns(g) if x.value is not None]
    o = ck.ob('C13-D8.ret', g, r[0].value if r else 'return', r[0] if r else g.node)
    (o.ok() if r and 'self._event_counts' in u(r[0].value) else o.fail('does not return the recorded counts'))


def rule_complete_passes(ck):
    P = ck.prog
    ck.clause('D9')
    n = 0
    for f in P.funcs.values():
        if f.module.name not in ('csep.core.catalog_evaluations', 'csep.core.forecasts', 'csep.utils.stats', 'csep.utils.calc'):
            continue
        for lp in [x for x in all_nodes(f) if isinstance(x, ast.For)]:
            it = u(lp.iter)
            is_fc = ('forecast' in it and 'forecasts' not in it and '.magnitudes' not in it and 'len(' not in it) or \
                (f.cls is not None and f.cls.qualname.endswith('CatalogForecast') and ('enumerate(self)' in it or it == 'self'))
            if not is_fc:
                continue
            n += 1
            o = ck.ob('C13-D9.complete', f, lp.iter, lp)
            # the pass ends when the forecast itself raises StopIteration: iterated side by side with another iterable (zip, map,
            # islice, takewhile) the loop may end on the OTHER one, and the forecast is never asked for the item that rewinds it
            short = [c for c in ast.walk(lp.iter) if isinstance(c, ast.Call) and (u(c.func).split('.')[-1] in ('zip', 'zip_longest', 'islice', 'takewhile', 'map', 'iter', 'next'))
                     and any(('forecast' in u(a_) or u(a_) == 'self') for a_ in c.args)
                     and not (u(c.func).split('.')[-1] == 'zip' and c.args and ('forecast' in u(c.args[0]) or u(c.args[0]) == 'self')
                              and all(isinstance(a_, ast.Call) and u(a_.func).split('.')[-1] == 'count' for a_ in c.args[1:]))]
            if short:
                o.fail('the forecast is iterated inside `%s`: such a loop ends as soon as the other iterable is exhausted, without the forecast '
                       'being asked for one more item - its end-of-pass branch (cursor back to 0, n_cat, cache hand-over) never runs and the next '
                       'pass is empty' % u(short[0])[:70])
                continue
            bad = [x for s in lp.body for x in ast.walk(s) if isinstance(x, (ast.Break, ast.Return))
                   and not any(isinstance(p, (ast.For, ast.While)) and p is not lp for p in _loops_between(x, lp))]
            (o.fail('the loop over the forecast can be left early (%s at L%d): the cursor stays mid-way and the next pass starts there' % (
                type(bad[0]).__name__.lower(), bad[0].lineno)) if bad else o.ok('always runs to StopIteration'))
    ck.extra['forecast_loops'] = n


def _mutators(P, family):
    """{method name: 'always' | 'in_place'} for the catalog and gridded-data classes: methods that store into self
    (directly or through another mutator of self), and whether every such store is guarded by the in_place parameter"""
    out = {}
    if family == 'catalog':
        classes = [c for c in P.classes.values() if c.qualname.startswith('csep.core.catalogs.')]
    else:
        classes = [c for c in P.classes.values() if c.qualname.startswith('csep.core.forecasts.') and not c.qualname.endswith('CatalogForecast')]
    changed = True
    while changed:
        changed = False
        for c in classes:
            for name, m in c.methods.items():
                if name in ('__init__', '__iter__', '__next__') or m.kind in ('classmethod', 'staticmethod') or name in out:
                    continue
                if any(isinstance(d, ast.Attribute) and d.attr == 'setter' or (isinstance(d, ast.Name) and d.id == 'property')
                       for d in m.node.decorator_list):
                    continue
                stores = []
                for n in all_nodes(m):
                    tg = n.targets if isinstance(n, ast.Assign) else [n.target] if isinstance(n, (ast.AugAssign, ast.AnnAssign)) else []
                    for t in tg:
                        for x in ast.walk(t):
                            if isinstance(x, ast.Attribute) and isinstance(x.ctx, ast.Store) and isinstance(x.value, ast.Name) and x.value.id == 'self' \
                                    and not x.attr.startswith('__') and x.attr != 'filters':
                                # `filters` only records the last statements given; it does not hold events, region or rates
                                stores.append(n)
                    if isinstance(n, ast.Call) and isinstance(n.func, ast.Attribute) and isinstance(n.func.value, ast.Name) and n.func.value.id == 'self' \
                            and out.get(n.func.attr) == 'always':
                        stores.append(n)
                if not stores:
                    continue
                guarded = 'in_place' in m.params and all(holds_on_every_path(s_, 'in_place', m.node)
                                                          for s_ in stores)
                out[name] = 'in_place' if guarded else 'always'
                changed = True
    return out


def rule_consumers(ck):
    """the evaluations read the forecast: they call no state-changing method on, and store nothing into, the catalogs a pass
    hands them or the cached expected rates (both are the forecast's own objects and are handed out again)"""
    P = ck.prog
    ck.clause('D10')
    mut_cat, mut_grid = _mutators(P, 'catalog'), _mutators(P, 'gridded')
    ck.note('state-changing methods derived from the catalog classes: %s' % ', '.join('%s(%s)' % kv for kv in sorted(mut_cat.items())))
    ck.note('state-changing methods derived from the gridded-data classes: %s' % ', '.join('%s(%s)' % kv for kv in sorted(mut_grid.items())))
    if not {'filter', 'filter_spatial', 'apply_mct'} <= set(mut_cat) or not {'scale', 'scale_to_test_date'} <= set(mut_grid):
        raise Inconclusive('mutator derivation lost its known members: %s / %s' % (sorted(mut_cat), sorted(mut_grid)))
    n = 0
    for f in P.funcs.values():
        if f.module.name not in ('csep.core.catalog_evaluations', 'csep.utils.stats', 'csep.utils.calc', 'csep.utils.plots'):
            continue
        owned = set()
        for lp in [x for x in all_nodes(f) if isinstance(x, ast.For)]:
            it = u(lp.iter)
            if 'forecast' in it and 'forecasts' not in it and '.magnitudes' not in it and 'len(' not in it:
                for t in ast.walk(lp.target):
                    if isinstance(t, ast.Name) and not (isinstance(lp.iter, ast.Call) and u(lp.iter.func) == 'enumerate'
                                                        and isinstance(lp.target, ast.Tuple) and t is lp.target.elts[0]):
                        owned.add(t.id)
        owned_grid = set()

        def is_owned(e):
            """'catalog' | 'gridded' | None"""
            while isinstance(e, (ast.Attribute, ast.Subscript, ast.Call)):
                if isinstance(e, ast.Attribute) and e.attr == 'expected_rates' and 'forecast' in u(e.value):
                    return 'gridded'
                if isinstance(e, ast.Call):
                    if isinstance(e.func, ast.Attribute) and e.func.attr == 'get_expected_rates' and 'forecast' in u(e.func.value):
                        return 'gridded'
                    return None
                e = e.value
            if isinstance(e, ast.Name):
                return 'catalog' if e.id in owned else 'gridded' if e.id in owned_grid else None
            return None
        for a in all_nodes(f):
            # plain aliases of an owned object (x = catalog, er = forecast.expected_rates, er = forecast.get_expected_rates())
            if isinstance(a, ast.Assign) and len(a.targets) == 1 and isinstance(a.targets[0], ast.Name):
                v = a.value
                if isinstance(v, ast.Name) or (isinstance(v, ast.Attribute) and v.attr == 'expected_rates') or \
                        (isinstance(v, ast.Call) and isinstance(v.func, ast.Attribute) and v.func.attr == 'get_expected_rates'):
                    k_ = is_owned(v)
                    if k_ == 'catalog':
                        owned.add(a.targets[0].id)
                    elif k_ == 'gridded':
                        owned_grid.add(a.targets[0].id)
        if not owned and 'expected_rates' not in ' '.join(u(s_) for s_ in f.node.body):
            continue
        bad = []
        for x in all_nodes(f):
            fam = is_owned(x.func.value) if isinstance(x, ast.Call) and isinstance(x.func, ast.Attribute) else None
            mut = mut_cat if fam == 'catalog' else mut_grid
            if fam and x.func.attr in mut:
                how = mut[x.func.attr]
                ip = kw(x, 'in_place')
                if how == 'always' or ip is None or const_value(ip) is not False:
                    bad.append((x, '`%s` changes the object it is called on%s' % (u(x)[:70], '' if how == 'always' else ' (in_place defaults to True)')))
            tg = x.targets if isinstance(x, ast.Assign) else [x.target] if isinstance(x, (ast.AugAssign,)) else []
            for t in tg:
                if isinstance(t, (ast.Attribute, ast.Subscript)) and is_owned(t.value):
                    bad.append((x, '`%s` stores into an object of the forecast' % u(x)[:70]))
        n += 1
        o = ck.ob('C13-D10.readonly', f, 'forecast-owned catalogs and expected rates are only read', f.node)
        (o.fail('%s: the forecast hands the same object out again (stored catalogs, cached expected rates), so later passes, counts and '
                'rates differ from the first' % bad[0][1]) if bad else o.ok('owned: %s' % (sorted(owned) or ['forecast.expected_rates'])))
    ck.extra['consumers_checked'] = n
    # ... and they reach the synthetic catalogs only through the iterator: the container behind it (`forecast.catalogs`, `_catalogs`) is
    # a list at one time and the generator of the next streamed pass at another - consuming it directly skips the filters and leaves the
    # next pass empty - and the cursor is nobody's business
    PRIVATE = ('catalogs', '_catalogs', '_idx', '_event_counts', 'loader')
    for f in P.funcs.values():
        if f.module.name not in ('csep.core.catalog_evaluations',):
            continue
        fc = [p_ for p_ in f.params if 'forecast' in p_ and 'forecasts' not in p_]
        if not fc:
            continue
        uses = [x for x in all_nodes(f) if isinstance(x, ast.Attribute) and x.attr in PRIVATE and isinstance(x.value, ast.Name) and x.value.id in fc]
        o = ck.ob('C13-D10.iterator', f, 'the catalogs are reached through the iterator only', uses[0] if uses else f.node)
        (o.fail('`%s` reaches behind the iterator of the forecast: for a streamed forecast this is the generator of the next pass (unfiltered, '
                'and exhausted afterwards, so the forecast learns n_cat = 0)' % u(uses[0])) if uses else o.ok())


def _loops_between(node, outer):
    out = []
    for p in parents(node):
        if p is outer:
            break
        if isinstance(p, (ast.For, ast.While)):
            out.append(p)
    return out


def rule_init(ck):
    P = ck.prog
    ck.clause('D2')
    f = P.func(F + '__init__')
    for fld, want in (('_idx', '0'), ('_event_counts', '[]'), ('_catalogs', '[]')):
        a = find_assignments(f, 'self.' + fld)
        o = ck.ob('C13-D2.init', f, a[0] if a else fld, a[0] if a else f.node)
        (o.ok() if len(a) == 1 and u(a[0].value) == want else o.fail('self.%s is not initialised to %s' % (fld, want)))
    a = find_assignments(f, 'self.expected_rates')
    o = ck.ob('C13-D2.init', f, a[0] if a else 'expected_rates', a[0] if a else f.node)
    (o.ok() if len(a) == 1 and u(a[0].value) == 'expected_rates' else o.fail('expected_rates not taken from the constructor argument'))
    # spatial_counts / magnitude_counts compute the rates on demand
    for q in ('spatial_counts', 'magnitude_counts'):
        g = P.func(F + q)
        o = ck.ob('C13-D6.ondemand', g, 'computes expected rates when missing', g.node)
        ok = any(isinstance(n, ast.If) and u(n.test) == 'self.expected_rates is None' and 'get_expected_rates' in ' '.join(u(s) for s in n.body) for n in all_nodes(g))
        (o.ok() if ok else o.fail('%s no longer computes the expected rates when they are missing' % q))


def rule_tolerance_shared(ck):
    from . import c02
    ck.clause('shared C02-D2: no fixed binning tolerance inside the package')
    c02.rule_tolerance_flow(ck)


def rule_rates_view(ck):
    """the cached expected rates are a gridded forecast: what a caller reads from them (`.data`, the marginals) is a fresh array, so
    nothing a consumer does to its copy can change what the next request returns (shared C11-D1 scaling / view, C11-D4 marginals)"""
    from . import c11
    ck.clause('D6 (shared C11-D1/D4: the cached rates hand out fresh arrays)')
    c11.rule_scaling(ck)
    c11.rule_axes(ck)


def rule_precheck(ck):
    """D7.precheck: what makes computing the expected rates impossible (no region, no magnitude bins) is refused before the pass over
    the catalogs starts - a refusal raised from inside the loop leaves the cursor, the recorded counts and the cache of a half-done
    pass behind, and the retry after the caller repaired the forecast resumes mid-way"""
    P = ck.prog
    ck.clause('D7')
    f = P.func(F + 'get_expected_rates')
    cfg = f.cfg
    loops = [x for x in all_nodes(f) if isinstance(x, ast.For) and ('self' in u(x.iter))]
    o = ck.ob('C13-D7.precheck', f, 'region and magnitude bins are tested before the pass', loops[0] if loops else f.node)
    if not loops:
        o.unknown('no loop over the forecast in get_expected_rates')
        return
    guards = []
    for n in all_nodes(f):
        if isinstance(n, ast.If) and any(isinstance(s_, ast.Raise) for s_ in n.body):
            t = u(n.test)
            if 'self.region' in t and 'None' in t and 'magnitudes' in t:
                guards.append(n)
    ok = any(cfg.node_of(g_) is not None and cfg.node_of(loops[0]) is not None and cfg.dominates(cfg.node_of(g_), cfg.node_of(loops[0])) for g_ in guards)
    (o.ok('raises before the first catalog is consumed') if ok else
     o.fail('nothing refuses a forecast without region / magnitude bins before the loop over its catalogs: the failure then comes from the '
            'binning of the first catalog, after __next__ has advanced the cursor and recorded that catalog'))


def rule_filters_applied(ck):
    """the configured filters are applied by catalog.filter / filter_spatial: every statement narrows the events on every path, and
    neither method trusts remembered state instead of filtering (shared C04-D2 narrowing, C04-D7 paths)"""
    from . import c04
    ck.clause('D5 (shared C04-D2/D7: filter applies every statement on every path)')
    c04.rule_operators(ck)
    c04.rule_narrowing(ck)
    c04.rule_paths(ck)
    c04.rule_every_path_selects(ck)
    # the expected rates are the mean of the catalogs' space-magnitude counts: every event counted once, in the bin the kernel puts it
    from . import c03, c02
    ck.clause('D7 (shared C03-D1/D2, C02-D4: what is averaged are duplicate-safe counts binned by the kernel)')
    c03.rule_mag_sentinel(ck)
    c03.rule_accumulation(ck)
    c02.rule_callsites(ck)


def rule_stream_shared(ck):
    """a streamed pass yields what an in-memory forecast of the same catalogs yields: the loader flushes every catalog of the file,
    the last one and empty ones included (shared C12-D2)"""
    from . import c12
    ck.clause('D1 (shared C12-D2: the loader flushes every catalog of the file, the final and the empty ones included)')
    c12.rule_flush(ck)


RULES = [rule_writers, rule_init, rule_next, rule_getters, rule_complete_passes, rule_consumers, rule_tolerance_shared, rule_rates_view, rule_precheck, rule_filters_applied,
         rule_stream_shared]
