"""C09 - empirical quantiles: ties and out-of-range observations exact (rank algebra)."""
import ast

from ..core import sym
from ..core.expand import u, call_name, get_arg, bind_args, phi_alternatives, is_marker, Expander
from ..core.loader import Inconclusive, const_value, parents
from .common import returns, all_nodes, callee, strip_shape, guards_of, stmt_of

EXPLANATION = (
    "Decided for every multiset and query value, given numpy's sort/searchsorted contract: D1 the sample and the "
    "query flow only into sort / searchsorted / comparisons / len / shape (the result depends on the order type "
    "only); D2 rank algebra over L=#{x<v} (searchsorted left), R=#{x<=v} (right), n: every return of "
    "greater_equal_ecdf equals (n-L)/n and every return of less_equal_ecdf equals R/n under its path condition "
    "(lemmas v>max => L=R=n, v<min => L=R=0, not(v>max) => L<=n-1, not(v<min) => R>=1), and every subscript lies in "
    "[0,n-1]; the ecdf ramp is arange(1,n+1)/n; D3 get_quantiles returns (at-least, at-most) of (sample, value) and "
    "an empty sample yields None before any indexing; binned_ecdf evaluates the at-most probability on the ecdf of "
    "the same sample. NOT decided: float division k/n rounding.")
CLAUSES = {'D1': 'order-only dependence', 'D2': 'rank algebra of returns and index ranges', 'D3': 'pair order, empty sample'}
TRUSTED = ['CPython ast', 'numpy.sort / numpy.searchsorted(side) contracts', 'a caller-supplied cdf= equals ecdf(x)']
ROOTS = ['csep.utils.stats.get_quantiles', 'csep.utils.stats.greater_equal_ecdf', 'csep.utils.stats.less_equal_ecdf',
         'csep.utils.stats.ecdf', 'csep.utils.stats.binned_ecdf']
TECHNIQUE = 'static analysis: per-return-path abstract interpretation in a rank algebra (affine forms over L, R, n) + flow rule'

M = 'csep.utils.stats.'
L, R, NN = ('n', 'L'), ('n', 'R'), ('n', 'n')
pL, pR, pN = sym.Poly.atom(L), sym.Poly.atom(R), sym.Poly.atom(NN)
ONE = sym.Poly.const(1)


class Vec:
    """abstract vector: elem(k) as a Poly in k"""
    def __init__(self, kind, a=None, base=None):
        self.kind, self.a, self.base = kind, a, base

    def elem(self, i):
        if self.kind == 'ramp':
            return (i + sym.Poly.const(self.a)) * sym.power(pN, -1)
        if self.kind == 'rev':
            return self.base.elem(pN - ONE - i)
        raise Inconclusive('unknown vector')

    def valid_index(self):
        return True


class RankEval:
    def __init__(self, ck, f, sample, query):
        self.ck, self.f, self.sample, self.query = ck, f, sample, query
        self.N = sym.Normalizer()
        self.index_uses = []   # (vector, index poly, node)

    def is_sample_len(self, e):
        e = strip_shape(e)
        if isinstance(e, ast.Call) and call_name(e) in ('builtins.len', 'numpy.size', 'builtins.float') and e.args:
            if call_name(e) == 'builtins.float':
                return self.is_sample_len(e.args[0])
            return self.is_sample(e.args[0])
        if isinstance(e, ast.Subscript) and isinstance(e.value, ast.Attribute) and e.value.attr == 'shape' \
                and const_value(e.slice) == 0:
            return self.is_sample(e.value.value)
        if isinstance(e, ast.Attribute) and e.attr == 'size':
            return self.is_sample(e.value)
        return False

    def is_sample(self, e):
        e = strip_shape(e)
        if isinstance(e, ast.Name) and e.id == self.sample:
            return True
        if isinstance(e, ast.Call) and call_name(e) in ('numpy.sort', 'builtins.sorted') and e.args:
            return self.is_sample(e.args[0])
        return False

    def is_sorted_sample(self, e):
        e0 = e
        e = strip_shape(e)
        if isinstance(e, ast.Call) and call_name(e) in ('numpy.sort', 'builtins.sorted') and e.args:
            return self.is_sample(e.args[0])
        if is_marker(e, '__item__') and const_value(e.args[1]) == 0:
            return self._is_cdf(e.args[0])
        if is_marker(e, '__phi__'):
            return all(self.is_sorted_sample(a) for a in e.args)
        return False

    def _is_cdf(self, e):
        # the pair may be chosen between the caller's and the computed one by a conditional expression or on two branches
        if isinstance(e, ast.IfExp):
            return self._is_cdf(e.body) and self._is_cdf(e.orelse)
        if is_marker(e, '__phi__'):
            return bool(e.args) and all(self._is_cdf(a) for a in e.args)
        return isinstance(e, ast.Name) and e.id == 'cdf' or (
            isinstance(e, ast.Call) and call_name(e) == M + 'ecdf' and e.args and self.is_sample(e.args[0]))

    def scalar(self, e):
        """affine Poly over L, R, n for an integer/len expression"""
        e = strip_shape(e)
        if isinstance(e, ast.Constant) and isinstance(e.value, (int, float)) and not isinstance(e.value, bool):
            return sym.Poly.const(sym.Fraction(repr(e.value)) if isinstance(e.value, float) else e.value)
        if self.is_sample_len(e):
            return pN
        if isinstance(e, ast.Call) and call_name(e) in ('numpy.searchsorted', '.searchsorted'):
            args = list(e.args)
            if call_name(e) == '.searchsorted':
                args = [e.func.value] + args
            a = args[0] if args else get_arg(e, None, 'a')
            v = args[1] if len(args) > 1 else get_arg(e, None, 'v')
            side = args[2] if len(args) > 2 else get_arg(e, None, 'side')
            if a is None or v is None or not self.is_sorted_sample(a):
                raise Inconclusive('searchsorted on something that is not the sorted sample: %s' % u(e))
            if not (isinstance(strip_shape(v), ast.Name) and strip_shape(v).id == self.query):
                raise Inconclusive('searchsorted query is not the value parameter: %s' % u(e))
            s = const_value(side) if side is not None else 'left'
            if s == 'left':
                return pL
            if s == 'right':
                return pR
            raise Inconclusive('searchsorted side=%s' % u(side))
        if isinstance(e, ast.BinOp) and isinstance(e.op, (ast.Add, ast.Sub, ast.Mult, ast.Div)):
            a, b = self.value(e.left), self.value(e.right)
            if isinstance(e.op, ast.Add):
                return a + b
            if isinstance(e.op, ast.Sub):
                return a - b
            if isinstance(e.op, ast.Mult):
                return a * b
            return a * sym.power(b, -1)
        if isinstance(e, ast.UnaryOp) and isinstance(e.op, ast.USub):
            return -self.value(e.operand)
        raise Inconclusive('cannot evaluate `%s` in the rank algebra' % u(e)[:80])

    def vector(self, e):
        s = strip_shape(e)
        if is_marker(s, '__phi__'):
            vs = [self.vector(a) for a in s.args]
            # all alternatives must denote the same vector (cdf[1] is trusted to be the ramp)
            return vs[0]
        if is_marker(s, '__item__') and const_value(s.args[1]) == 1 and self._is_cdf(s.args[0]):
            if isinstance(s.args[0], ast.Name):
                return Vec('ramp', 1)        # trusted: caller-supplied cdf equals ecdf(x)
            return self.ecdf_ramp()
        if isinstance(s, ast.Subscript) and isinstance(s.slice, ast.Slice):
            sl = s.slice
            if sl.lower is None and sl.upper is None and sl.step is not None and const_value(sl.step) == -1:
                return Vec('rev', base=self.vector(s.value))
            raise Inconclusive('slice %s' % u(s))
        if isinstance(s, ast.Call) and call_name(s) in ('numpy.flip', 'numpy.flipud') and s.args:
            return Vec('rev', base=self.vector(s.args[0]))
        if isinstance(s, ast.BinOp) and isinstance(s.op, ast.Div):
            num = strip_shape(s.left)
            if isinstance(num, ast.Call) and call_name(num) == 'numpy.arange' and self.is_sample_len(s.right):
                a = num.args
                if len(a) == 2:
                    lo = self.scalar(a[0])
                    hi = self.scalar(a[1])
                    if lo.is_const() and (hi - lo) == pN:
                        return Vec('ramp', lo.const_value())
                    raise Inconclusive('arange(%s, %s) is not a ramp of the sample length' % (u(a[0]), u(a[1])))
                if len(a) == 1 and self.scalar(a[0]) == pN:
                    return Vec('ramp', 0)
        raise Inconclusive('cannot read `%s` as a vector of the rank algebra' % u(e)[:80])

    _ramp = None

    def ecdf_ramp(self):
        if self._ramp is None:
            g = self.ck.prog.func(M + 'ecdf')
            rets = [r for r in returns(g) if r.value is not None]
            if len(rets) != 1 or not isinstance(rets[0].value, ast.Tuple) or len(rets[0].value.elts) != 2:
                raise Inconclusive('ecdf does not return a pair')
            ex = Expander(self.ck.prog, g)
            sub = RankEval(self.ck, g, g.positional_params[0], None)
            xs, ys = [ex.expand(e) for e in rets[0].value.elts]
            o = self.ck.ob('C09-D2.ecdf', g, rets[0].value, rets[0])
            if not sub.is_sorted_sample(xs):
                o.fail('first component of ecdf is `%s`, not the sorted sample' % u(xs)[:80])
            v = sub.vector(ys)
            if v.kind == 'ramp' and v.a == 1:
                o.ok('(sort(x), arange(1, n+1)/n)')
            else:
                o.fail('ecdf ordinates are elem k -> (k+%s)/n, must be (k+1)/n so that the last value is 1' % v.a)
            RankEval._ramp_cache = v
            self._ramp = v
        return self._ramp

    def value(self, e):
        s = strip_shape(e)
        if isinstance(s, ast.Subscript) and not isinstance(s.slice, ast.Slice):
            vec = self.vector(s.value)
            idx = self.scalar(s.slice)
            c_ = const_value(s.slice)
            if isinstance(c_, int) and not isinstance(c_, bool) and c_ < 0:
                idx = pN + sym.Poly.const(c_)      # a negative literal counts from the end
            self.index_uses.append((vec, idx, s))
            return vec.elem(idx)
        return self.scalar(s)


def _paths(stmts, conds):
    """yield (return node, [(test, polarity)]) for straight-line if/return code."""
    conds = list(conds)
    for s in stmts:
        if isinstance(s, ast.Return):
            yield s, list(conds)
            return
        if isinstance(s, ast.If):
            body_returns = _always_returns(s.body)
            yield from _paths(s.body, conds + [(s.test, True)])
            if s.orelse:
                else_returns = _always_returns(s.orelse)
                yield from _paths(s.orelse, conds + [(s.test, False)])
                if body_returns and else_returns:
                    return
                if body_returns:
                    conds.append((s.test, False))
                elif else_returns:
                    conds.append((s.test, True))
            elif body_returns:
                conds.append((s.test, False))


def _always_returns(stmts):
    for s in stmts:
        if isinstance(s, (ast.Return, ast.Raise)):
            return True
        if isinstance(s, ast.If) and s.orelse and _always_returns(s.body) and _always_returns(s.orelse):
            return True
    return False


def _classify_cond(rk, ex, test, f):
    """-> ('A'|'Ap'|'B'|'Bp'|'empty'|'other') for a path test."""
    t = ex.expand(test)
    if isinstance(t, ast.Compare) and len(t.ops) == 1:
        a, op, b = t.left, t.ops[0], t.comparators[0]
        def is_q(x):
            x = strip_shape(x)
            return isinstance(x, ast.Name) and x.id == rk.query
        def end(x):
            x = strip_shape(x)
            if isinstance(x, ast.Subscript) and rk.is_sorted_sample(x.value):
                c = const_value(x.slice)
                if c == -1:
                    return 'max'
                if c == 0:
                    return 'min'
            if isinstance(x, ast.Call) and call_name(x) in ('numpy.max', 'numpy.amax', 'builtins.max', '.max'):
                arg = x.args[0] if x.args else x.func.value
                if rk.is_sample(arg) or rk.is_sorted_sample(arg):
                    return 'max'
            if isinstance(x, ast.Call) and call_name(x) in ('numpy.min', 'numpy.amin', 'builtins.min', '.min'):
                arg = x.args[0] if x.args else x.func.value
                if rk.is_sample(arg) or rk.is_sorted_sample(arg):
                    return 'min'
            return None
        def raw_end(x):
            x = strip_shape(x)
            return isinstance(x, ast.Subscript) and rk.is_sample(x.value) and not rk.is_sorted_sample(x.value) and const_value(x.slice) in (0, -1)
        if (is_q(a) and raw_end(b)) or (is_q(b) and raw_end(a)):
            return 'rawend'
        flip = {ast.Gt: ast.Lt, ast.Lt: ast.Gt, ast.GtE: ast.LtE, ast.LtE: ast.GtE}
        if is_q(b) and end(a):
            a, b = b, a
            op = flip.get(type(op), type(op))()
        if is_q(a) and end(b):
            e = end(b)
            k = type(op)
            if e == 'max' and k is ast.Gt:
                return 'A'
            if e == 'max' and k is ast.GtE:
                return 'Ap'
            if e == 'min' and k is ast.Lt:
                return 'B'
            if e == 'min' and k is ast.LtE:
                return 'Bp'
            if k in (ast.Eq, ast.NotEq):
                return ('E' if k is ast.Eq else 'NE') + e
            return 'other'
        # emptiness
        if (rk.is_sample_len(a) and const_value(b) == 0) or (rk.is_sample_len(b) and const_value(a) == 0):
            return 'empty' if isinstance(op, ast.Eq) else 'other'
    if isinstance(t, ast.UnaryOp) and isinstance(t.op, ast.Not):
        return 'neutral'
    if isinstance(t, ast.Name):
        return 'neutral'
    return 'other'


def analyse(ck, fname, target, what):
    P = ck.prog
    f = P.func(M + fname)
    sample, query = f.positional_params[0], f.positional_params[1]
    ex = Expander(P, f, inline_depth=1, inline_filter=lambda g: g.qualname != M + 'ecdf')
    rk = RankEval(ck, f, sample, query)
    ck.clause('D2')
    n_paths = 0
    empty_guard = False
    for ret, conds in _paths(f.node.body, []):
        n_paths += 1
        # constraints from the path condition
        subst, hiL, loR, loL, hiR = {}, 'n', 0, 0, 'n'
        is_empty_path = False
        unknown = []
        rawend = []
        flags = set()
        for test, pol in conds:
            k = _classify_cond(rk, ex, test, f)
            if k == 'A' and not pol:
                flags.add('lemax')
            if k == 'B' and not pol:
                flags.add('gemin')
            if k == 'empty':
                if pol:
                    is_empty_path = True
            elif k == 'A':
                if pol:
                    subst[L], subst[R] = pN, pN
                else:
                    hiL = 'n-1'
            elif k == 'Ap':
                if pol:
                    subst[R] = pN
                else:
                    hiL = 'n-1'
                    hiR = 'n-1'
            elif k == 'B':
                if pol:
                    subst[L], subst[R] = sym.Poly(), sym.Poly()
                else:
                    loR = 1
            elif k == 'Bp':
                if pol:
                    subst[L] = sym.Poly()
                else:
                    loL, loR = 1, 1
            elif k in ('Emax', 'NEmax'):
                # v equals the largest sample value: R = n and at least that element is not below v
                if pol == (k == 'Emax'):
                    subst[R] = pN
                    hiL = 'n-1'
                else:
                    flags.add('nemax')
            elif k in ('Emin', 'NEmin'):
                if pol == (k == 'Emin'):
                    subst[L] = sym.Poly()
                    loR = 1
                else:
                    flags.add('nemin')
            elif k == 'neutral':
                pass
            elif k == 'rawend':
                rawend.append(u(test))
            elif isinstance(test, ast.Compare) and len(test.ops) == 1 and isinstance(test.ops[0], (ast.Is, ast.IsNot)) \
                    and const_value(test.comparators[0]) is None and isinstance(test.left, ast.Name) and test.left.id not in (sample, query):
                # a test whether an intermediate result exists: says nothing about ranks; a path that takes the "missing"
                # side and returns None signals "no distribution" like the empty sample does
                missing = isinstance(test.ops[0], ast.Is) == pol
                if missing:
                    is_empty_path = True
            else:
                unknown.append(u(test))
        if {'nemax', 'lemax'} <= flags:
            hiL = hiR = 'n-1'          # v below the maximum
        if {'nemin', 'gemin'} <= flags:
            loL = loR = 1              # v above the minimum
        o = ck.ob('C09-D2.ret.' + fname, f, 'return %s  [path: %s]' % (
            u(ret.value) if ret.value else 'None',
            ' and '.join(('' if pl else 'not ') + '(' + u(t) + ')' for t, pl in conds) or 'entry'), ret)
        if is_empty_path:
            if ret.value is None or (isinstance(ret.value, ast.Constant) and ret.value.value is None):
                empty_guard = True
                o.ok('empty sample -> None')
            else:
                o.fail('an empty sample returns `%s` instead of signalling None' % u(ret.value))
            continue
        if rawend:
            o.fail('the path is selected by `%s`: the first / last *stored* element of the sample, which is its minimum / maximum only for a '
                   'sample stored in ascending order; for any other arrangement (12, 7, 9, 15, 7, 3, 9, 5 and v = 6) the out-of-range '
                   'answer 0 or 1 is given for a value inside the range' % rawend[0])
            continue
        if unknown:
            o.unknown('path condition not understood: %s' % '; '.join(unknown)[:120])
            continue
        if ret.value is None:
            o.fail('returns None for a non-empty sample')
            continue
        rk.index_uses = []
        try:
            val = rk.value(ex.expand(ret.value))
        except Inconclusive as e:
            o.unknown(str(e))
            continue

        def sub(p):
            # substitute equalities for L / R
            out = sym.Poly()
            for m, c in p.t.items():
                term = sym.Poly.const(c)
                for a, e in m:
                    base = subst.get(a)
                    term = term * (sym.power(base, e) if base is not None else sym.Poly({((a, e),): sym.ONE}))
                out = out + term
            return out
        got, want = sub(val), sub(target)
        if got == want:
            o.ok('= %s under the path condition' % sym.show(want))
        else:
            o.fail('%s: this path returns %s but #{...}/n is %s here (L=#{x<v}, R=#{x<=v})' % (what, sym.show(got), sym.show(want)))
        # index ranges
        for vec, idx, node in rk.index_uses:
            oi = ck.ob('C09-D2.idx.' + fname, f, u(node), ret)
            i = sub(idx)
            lin = {}
            const = sym.ZERO
            bad = False
            for m, c in i.t.items():
                if m == ():
                    const = c
                elif len(m) == 1 and m[0][1] == 1 and m[0][0] in (L, R, NN):
                    lin[m[0][0]] = c
                else:
                    bad = True
            if bad or any(c not in (1, -1) for c in lin.values()):
                oi.unknown('index %s is not affine in L, R, n' % sym.show(i))
                continue
            # bounds as (coef of n, const) pairs; lower/upper of each variable
            def bnd(var, upper):
                if var == NN:
                    return (1, 0)
                if var == L:
                    return ((1, -1) if hiL == 'n-1' else (1, 0)) if upper else (0, loL)
                return ((1, -1) if hiR == 'n-1' else (1, 0)) if upper else (0, loR)
            lo_n = hi_n = 0
            lo_c = hi_c = const
            for var, c in lin.items():
                up, dn = bnd(var, True), bnd(var, False)
                if c > 0:
                    hi_n += up[0]; hi_c += up[1]; lo_n += dn[0]; lo_c += dn[1]
                else:
                    hi_n -= dn[0]; hi_c -= dn[1]; lo_n -= up[0]; lo_c -= up[1]
            # need lo >= 0 and hi <= n-1 for all n >= 1
            lo_ok = (lo_n > 0 and lo_n + lo_c >= 0) or (lo_n == 0 and lo_c >= 0)
            hi_ok = (hi_n < 1 and hi_n + hi_c <= 0) or (hi_n == 1 and hi_c <= -1)
            if lo_ok and hi_ok:
                oi.ok('index %s within [0, n-1] under the path condition' % sym.show(i))
            else:
                oi.fail('index %s can leave [0, n-1] (%s): for a query %s the subscript wraps around or overflows' % (
                    sym.show(i), 'can be negative' if not lo_ok else 'can reach n',
                    'below every sample value' if not lo_ok else 'above every sample value'))
    o = ck.ob('C09-D3.empty.' + fname, f, 'empty sample returns None before indexing', f.node)
    (o.ok() if empty_guard else o.fail('no path returns None for an empty sample: ex[-1] / ex[0] would raise IndexError '
                                       'and callers rely on None to signal "no distribution"'))
    return n_paths


def rule_rank(ck):
    n1 = analyse(ck, 'greater_equal_ecdf', (pN - pL) * sym.power(pN, -1), 'P(x >= v)')
    n2 = analyse(ck, 'less_equal_ecdf', pR * sym.power(pN, -1), 'P(x <= v)')
    ck.extra['return_paths'] = {'greater_equal_ecdf': n1, 'less_equal_ecdf': n2}


ORDER_OK_CALLS = {'numpy.sort', 'numpy.asarray', 'numpy.array', 'numpy.searchsorted', 'builtins.len', 'builtins.sorted',
                  M + 'ecdf', 'numpy.max', 'numpy.min', 'numpy.amax', 'numpy.amin', 'builtins.max', 'builtins.min',
                  'numpy.size', M + 'less_equal_ecdf', M + 'greater_equal_ecdf'}


def rule_order_only(ck):
    P = ck.prog
    ck.clause('D1')
    for fname in ('greater_equal_ecdf', 'less_equal_ecdf'):
        f = P.func(M + fname)
        sample, query = f.positional_params[0], f.positional_params[1]
        # names carrying sample/query values: the parameters and the sorted copy
        tainted = {sample, query}
        ex = Expander(P, f, inline_depth=1, inline_filter=lambda g: g.qualname != M + 'ecdf')
        for n in all_nodes(f):
            if isinstance(n, ast.Assign):
                for t in n.targets:
                    for nm in ast.walk(t):
                        if isinstance(nm, ast.Name) and isinstance(nm.ctx, ast.Store):
                            v = ex.value_of(nm.id, f.cfg.exit) if False else None
        # sorted sample variables: those whose expansion is the sorted sample
        rk = RankEval(ck, f, sample, query)
        for n in all_nodes(f):
            if isinstance(n, ast.Name) and isinstance(n.ctx, ast.Load):
                e = ex.expand(n)
                if rk.is_sorted_sample(e) or rk.is_sample(e) or (isinstance(e, ast.Name) and e.id == query):
                    par = getattr(n, '_parent', None)
                    o = ck.ob('C09-D1.' + fname, f, '%s in `%s`' % (n.id, u(stmt_of(n))[:70]), n)
                    ok, why = _order_context(P, f, n, par)
                    (o.ok(why) if ok else o.fail('sample/query value `%s` flows into %s: the probability would depend '
                                                 'on magnitudes, not only on the order of sample and query' % (n.id, why)))


def _order_context(P, f, n, par):
    # climb through subscripts with constant index and shape attributes
    cur, p = n, par
    while True:
        if isinstance(p, ast.Subscript) and p.value is cur and const_value(p.slice) is not NotImplemented:
            cur, p = p, getattr(p, '_parent', None)
            continue
        if isinstance(p, ast.Attribute) and p.attr in ('shape', 'size'):
            return True, 'shape only'
        break
    if isinstance(p, ast.Compare):
        return True, 'comparison'
    if isinstance(p, ast.Call):
        c = callee(P, f, p)
        if c in ORDER_OK_CALLS and (cur in p.args or any(k.value is cur for k in p.keywords)):
            return True, 'argument of %s' % c
        if c in P.funcs and c.startswith(M) and c != f.qualname:
            # a helper of the same module: the value must be used order-only inside it as well
            g = P.funcs[c]
            m, okb = bind_args(g, p)
            pnames = [k for k, v in m.items() if v is cur]
            if okb and pnames:
                for x in all_nodes(g):
                    if isinstance(x, ast.Name) and x.id in pnames and isinstance(x.ctx, ast.Load):
                        ok2, why2 = _order_context(P, g, x, getattr(x, '_parent', None))
                        if not ok2:
                            return False, 'helper %s: %s' % (g.short, why2)
                return True, 'order-only inside helper %s' % g.short
        return False, 'call %s' % (c or u(p.func))
    if isinstance(p, ast.keyword):
        return _order_context(P, f, p, getattr(p, '_parent', None)) if False else (True, 'keyword')
    if isinstance(p, (ast.Assign, ast.Tuple, ast.Return)):
        return True, 'copy'
    if isinstance(p, (ast.UnaryOp,)) and isinstance(p.op, ast.Not):
        return True, 'truth test'
    if isinstance(p, (ast.If, ast.While, ast.IfExp)):
        return True, 'truth test'
    if isinstance(p, (ast.BinOp, ast.AugAssign)):
        return False, 'arithmetic `%s`' % u(p)[:60]
    return False, type(p).__name__


def rule_pair(ck):
    P = ck.prog
    ck.clause('D3')
    f = P.func(M + 'get_quantiles')
    ex = Expander(P, f)
    rets = [r for r in returns(f) if r.value is not None]
    o = ck.ob('C09-D3.pair', f, rets[0].value if rets else 'return', rets[0] if rets else f.node)
    # an early `return None, None` for an empty sample is the pair (None, None) the ecdf functions themselves would give
    main = [r for r in rets if not (isinstance(r.value, ast.Tuple) and all(const_value(x) is None for x in r.value.elts))]
    if len(main) != 1:
        raise Inconclusive('get_quantiles has %d returns' % len(rets))
    # ... and only for an empty sample: the observed value may be 0 (an empty catalog, a zero statistic), the sample may hold zeros
    from .common import guard_dnf
    smp = f.positional_params[0]
    for r in rets:
        if r in main:
            continue
        oe = ck.ob('C09-D3.nopair', f, 'no scores only for an empty sample', r)
        try:
            d = guard_dnf(r, f.node)
        except Inconclusive:
            oe.unknown('guard of the early return too large')
            continue

        def emptiness(a, pol):
            if isinstance(a, ast.Compare) and len(a.ops) == 1 and const_value(a.comparators[0]) == 0 and isinstance(a.ops[0], (ast.Eq, ast.NotEq)):
                t = u(a.left)
                return t in ('len(%s)' % smp, '%s.size' % smp, 'numpy.size(%s)' % smp, '%s.shape[0]' % smp) and (isinstance(a.ops[0], ast.Eq) == pol)
            if isinstance(a, ast.Call) and u(a) == 'len(%s)' % smp:
                return not pol
            return False
        bad = [c for c in d if not any(emptiness(a, pol) for a, pol in c)]
        (oe.fail('get_quantiles gives (None, None) for a non-empty sample when `%s`: a value that is a legitimate observation (0, 0.0) '
                 'is taken for a missing one' % ' and '.join(('' if pol else 'not ') + u(a) for a, pol in bad[0])[:100]) if bad else
         oe.ok('only when the sample is empty'))
    rets = main
    e = ex.expand(rets[0].value)
    ps = f.positional_params
    if not (isinstance(e, ast.Tuple) and len(e.elts) == 2):
        o.fail('get_quantiles does not return a pair')
        return
    want = [M + 'greater_equal_ecdf', M + 'less_equal_ecdf']
    probs = []
    for k, (elt, w) in enumerate(zip(e.elts, want)):
        if not (isinstance(elt, ast.Call) and call_name(elt) == w):
            probs.append('component %d is `%s`, expected %s(sample, value)' % (k, u(elt)[:60], w.split('.')[-1]))
            continue
        m, ok = bind_args(P.func(w), elt)
        g = P.func(w)
        a, b = m.get(g.positional_params[0]), m.get(g.positional_params[1])
        a, b = (strip_shape(a) if a is not None else None), b
        if not (isinstance(a, ast.Name) and a.id == ps[0] and isinstance(b, ast.Name) and b.id == ps[1]):
            probs.append('component %d is called as (%s, %s), expected (%s, %s)' % (
                k, u(a) if a is not None else '?', u(b) if b is not None else '?', ps[0], ps[1]))
        cdf = m.get('cdf')
        if cdf is not None and not (isinstance(cdf, ast.Constant) or (isinstance(cdf, ast.Tuple) and not cdf.elts)):
            # a precomputed distribution must be the ecdf of the same sample, one support point per sample value: the rank
            # arithmetic of the ecdf functions counts positions
            ctxt = u(cdf)
            if not (isinstance(cdf, ast.Call) and call_name(cdf) == M + 'ecdf' and cdf.args and u(strip_shape(cdf.args[0])) == ps[0]) and \
                    not (isinstance(cdf, ast.Tuple) and len(cdf.elts) == 2 and all(is_marker(x, '__item__') and isinstance(x.args[0], ast.Call)
                                                                                 and call_name(x.args[0]) == M + 'ecdf' for x in cdf.elts)):
                probs.append('component %d is given the precomputed distribution `%s`, which is not ecdf(%s): the ecdf functions index it by '
                             'sample position (one entry per sample value, ties repeated)' % (k, ctxt[:70], ps[0]))
    (o.fail('; '.join(probs) + ': callers unpack (delta_1 = P(X >= obs), delta_2 = P(X <= obs))') if probs
     else o.ok('(greater_equal_ecdf(sim, obs), less_equal_ecdf(sim, obs))'))
    # binned_ecdf
    g = P.func(M + 'binned_ecdf')
    calls = [n for n in all_nodes(g) if isinstance(n, ast.Call) and callee(P, g, n) in (M + 'less_equal_ecdf', M + 'greater_equal_ecdf')]
    o = ck.ob('C09-D3.binned', g, calls[0] if calls else 'less_equal_ecdf call', calls[0] if calls else g.node)
    def _in_handler(n_):
        cur = n_
        while getattr(cur, '_parent', None) is not None and cur is not g.node:
            if isinstance(cur._parent, ast.ExceptHandler):
                return True
            cur = cur._parent
        return False
    lookups = [n for n in all_nodes(g) if isinstance(n, ast.Call) and (call_name(n) or '').split('.')[-1] in ('searchsorted', 'digitize', 'bisect_right', 'bisect_left')]
    if len(calls) != 1 or callee(P, g, calls[0]) != M + 'less_equal_ecdf':
        o.fail('binned_ecdf does not evaluate P(X <= val) with less_equal_ecdf')
    elif _in_handler(calls[0]) or lookups:
        o.fail('binned_ecdf answers from `%s` and reaches less_equal_ecdf only %s: a position of -1 for a value below the sample wraps around '
               'instead of raising, so P(X <= v) = 1 is reported where it is 0' % (u(lookups[0])[:50] if lookups else 'another lookup',
                                                                                   'in an exception handler' if _in_handler(calls[0]) else 'beside it'))
    else:
        exg = Expander(P, g)
        c = exg.expand(calls[0])
        m, ok = bind_args(P.func(M + 'less_equal_ecdf'), c)
        le = P.func(M + 'less_equal_ecdf')
        a = m.get(le.positional_params[0])
        cdf = m.get('cdf')
        good = isinstance(a, ast.Name) and a.id == g.positional_params[0]
        if cdf is not None and not (isinstance(cdf, ast.Constant)) and not (isinstance(cdf, ast.Tuple) and len(cdf.elts) == 0):
            # must be the ecdf of the same sample
            txt = u(cdf)
            whole = isinstance(cdf, ast.Call) and call_name(cdf) == M + 'ecdf' and cdf.args and u(strip_shape(cdf.args[0])) == g.positional_params[0]
            good = good and (whole or (('ecdf(%s)' % g.positional_params[0]) in txt and isinstance(cdf, ast.Tuple) and
                                       len(cdf.elts) == 2 and '0)' in u(cdf.elts[0]) and '1)' in u(cdf.elts[1])))
        (o.ok('less_equal_ecdf(x, val, cdf=ecdf(x))') if good else
         o.fail('binned_ecdf evaluates `%s`: sample or precomputed ecdf do not belong to the sample x' % u(c)[:90]))
    o = ck.ob('C09-D3.binned-empty', g, 'empty sample returns None', g.node)
    ok = False
    for ret, conds in _paths(g.node.body, []):
        if conds and ret.value is not None and isinstance(ret.value, ast.Constant) and ret.value.value is None:
            ok = True
    (o.ok() if ok else o.fail('binned_ecdf no longer returns None for an empty sample'))


def rule_stateless(ck):
    """D1.stateless: the empirical probabilities are functions of (sample, value) alone: the five functions declare no global /
    nonlocal name and store into no module-level object, so nothing computed for one sample can be handed out for another (a memo
    keyed by object identity returns the ecdf of the old contents after the array was refilled in place)"""
    P = ck.prog
    ck.clause('D1')
    for q in ROOTS:
        f = P.func(q)
        o = ck.ob('C09-D1.stateless', f, 'no state kept between calls', f.node)
        decl = [n for n in all_nodes(f) if isinstance(n, (ast.Global, ast.Nonlocal))]
        mod_names = set(f.module.consts) if hasattr(f.module, 'consts') else set()
        glob_stores = []
        for n in all_nodes(f):
            if isinstance(n, (ast.Subscript, ast.Attribute)) and isinstance(n.ctx, ast.Store):
                base = n
                while isinstance(base, (ast.Subscript, ast.Attribute)):
                    base = base.value
                if isinstance(base, ast.Name) and base.id not in f.locals and base.id not in f.params:
                    glob_stores.append(n)
            if isinstance(n, ast.Call) and isinstance(n.func, ast.Attribute) and n.func.attr in ('append', 'update', 'setdefault', 'add', 'insert', 'extend', 'pop', 'clear') \
                    and isinstance(n.func.value, ast.Name) and n.func.value.id not in f.locals and n.func.value.id not in f.params:
                glob_stores.append(n)
        if decl:
            o.fail('%s declares `%s`: a result remembered at module level is returned for a later call whose sample has other contents (same '
                   'array object refilled in place, or a new object at a recycled address)' % (f.short, u(decl[0])))
        elif glob_stores:
            o.fail('%s writes into the module-level object `%s`' % (f.short, u(glob_stores[0])[:60]))
        else:
            o.ok()


RULES = [rule_stateless, rule_rank, rule_order_only, rule_pair]
