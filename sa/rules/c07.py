"""C07 - number tests: exact inclusive tails."""
import ast

from ..core import sym
from ..core.expand import u, call_name, get_arg, bind_args, Expander, is_marker
from ..core.loader import Inconclusive, const_value
from .common import returns, all_nodes, callee, strip_shape, result_fields, calls_in, linear_coeffs, loops_around

EXPLANATION = (
    "Decided: D1 the Poisson kernel returns (1 - cdf(n_obs - e, lambda), cdf(n_obs + e, lambda)) with 0 < e <= 1 below "
    "and 0 <= e < 1 above (inclusive tails at every integer count), lambda = forecast total and n_obs = observed "
    "count by role, in the order (delta1, delta2), and the public test stores that pair as `quantile`; D2 the NBD "
    "kernel uses the same tail template on scipy.stats.nbinom.cdf(k, n, p) with, as polynomial identities, "
    "p == mean/var and n == mean^2/(var - mean); D3 the catalog test calls get_quantiles(sizes of the synthetic "
    "catalogs, observed size) where sizes are appended once per catalog of a complete pass, and stores "
    "D1.double no narrowing of the forecast total / observed count. "
    "(delta_1, delta_2) in that order. NOT decided: monotonicity / range of scipy's cdf, float evaluation.")
CLAUSES = {'D1': 'Poisson tails, roles, order', 'D2': 'NBD tails and re-parameterisation identity', 'D3': 'empirical tails'}
TRUSTED = ['CPython ast', 'scipy.stats.poisson.cdf(k, mu) and nbinom.cdf(k, n, p) signatures', 'C09 for get_quantiles']
ROOTS = ['csep.core.poisson_evaluations.number_test', 'csep.core.binomial_evaluations.negative_binomial_number_test',
         'csep.core.catalog_evaluations.number_test', 'csep.utils.stats.get_quantiles']
TECHNIQUE = 'static analysis: def-use expansion + polynomial normal-form identities + role typing of call arguments'

# spacing of float64 at 1e5 (the largest observed count of the quantifier) is 1.46e-11: a smaller offset is lost
EPS_MIN = 1.5e-11
PK = 'csep.core.poisson_evaluations._number_test_ndarray'
NK = 'csep.core.binomial_evaluations._nbd_number_test_ndarray'


def _tail(ck, f, expr, which, dist, obs, eps, node, rule):
    """which: 'upper' (P(N>=n) = 1 - cdf(n - e)) or 'lower' (P(N<=n) = cdf(n + e)). Returns the cdf call."""
    o = ck.ob(rule, f, expr, node)
    N = sym.Normalizer()
    p = N.nf(expr)
    lin, const, other = linear_coeffs(p)
    cdf_atoms = [(a, c) for a, c in lin.items() if a[0] == 'call' and a[1] in (dist + '.cdf', dist + '.sf')]
    if len(cdf_atoms) != 1 or other:
        o.fail('%s tail is `%s`: not an affine function of one %s.cdf value' % (which, sym.show(p), dist))
        return None
    (atom, coef) = cdf_atoms[0]
    is_sf = atom[1].endswith('.sf')
    # value = const + coef*F(k)
    if which == 'upper':
        good = (not is_sf and const == 1 and coef == -1) or (is_sf and const == 0 and coef == 1)
        want = '1 - cdf(n_obs - e, .)'
    else:
        good = (not is_sf and const == 0 and coef == 1) or (is_sf and const == 1 and coef == -1)
        want = 'cdf(n_obs + e, .)'
    rest = {a: c for a, c in lin.items() if a != atom}
    if rest or not good:
        o.fail('%s tail `%s` is not of the form %s: the complement is missing, doubled or misplaced' % (which, sym.show(p), want))
        return None
    k = atom[2][0] if atom[2] else None
    if k is None:
        o.unknown('cdf called without positional count')
        return None
    klin, kconst, kother = linear_coeffs(k)
    obs_atom = ('n', obs)
    if klin.get(obs_atom) != 1 or kother:
        o.fail('the count handed to the cdf is `%s`; it must be the observed count plus/minus a sub-integer offset' % sym.show(k))
        return None
    off_atoms = {a: c for a, c in klin.items() if a != obs_atom}
    # offset = kconst + c*eps
    eps_c = off_atoms.pop(('n', eps), 0) if eps else 0
    if off_atoms:
        o.fail('unexpected terms in the cdf count: %s' % sym.show(k))
        return None
    # the effective offset sign and size: eps is a caller constant in (0,1) (checked separately)
    lo_ok = hi_ok = False
    if which == 'upper':
        # need offset in [-1, 0): either -eps (eps in (0,1)) or a constant in [-1,0)
        ok = (eps_c == -1 and kconst == 0) or (eps_c == 0 and -1 <= kconst < 0)
        if not ok:
            o.fail('P(N >= n) must be 1 - cdf(n - e) with 0 < e <= 1; found count `%s` (cdf(n) itself excludes n from the '
                   'upper tail; an offset with the wrong sign excludes n and more)' % sym.show(k))
            return None
    else:
        ok = (eps_c == 1 and kconst == 0) or (eps_c == 0 and 0 <= kconst < 1)
        if not ok:
            o.fail('P(N <= n) must be cdf(n + e) with 0 <= e < 1; found count `%s`' % sym.show(k))
            return None
    o.ok('%s with offset %s%s' % (want, '%+d*%s' % (eps_c, eps) if eps_c else '', kconst if kconst else ''))
    return atom


def _kernel(ck, qual, dist, nparams):
    P = ck.prog
    f = P.func(qual)
    ex = Expander(P, f)
    rets = [r for r in returns(f) if r.value is not None]
    if len(rets) != 1:
        raise Inconclusive('%s has %d returns' % (qual, len(rets)))
    e = ex.expand(rets[0].value)
    o = ck.ob('C07-D1.order' if dist.endswith('poisson') else 'C07-D2.order', f, rets[0].value, rets[0])
    if not (isinstance(e, ast.Tuple) and len(e.elts) == 2):
        o.fail('kernel does not return the pair (delta1, delta2)')
        return None
    o.ok('pair')
    ps = f.positional_params
    fore, obs = ps[0], ps[1]
    eps = 'epsilon' if 'epsilon' in f.params else None
    pre = 'C07-D1' if dist.endswith('poisson') else 'C07-D2'
    a1 = _tail(ck, f, e.elts[0], 'upper', dist, obs, eps, rets[0], pre + '.delta1')
    a2 = _tail(ck, f, e.elts[1], 'lower', dist, obs, eps, rets[0], pre + '.delta2')
    # epsilon default in (0,1)
    if eps:
        d = f.defaults().get(eps)
        o = ck.ob(pre + '.eps', f, 'epsilon default %s' % (u(d) if d is not None else 'none'), f.node)
        v = const_value(d) if d is not None else NotImplemented
        if d is None:
            o.ok('no default; call sites checked')
        elif v is not NotImplemented and isinstance(v, (int, float)) and EPS_MIN <= v < 1:
            o.ok('%g <= %s < 1' % (EPS_MIN, v))
        else:
            o.fail('epsilon default %s is not in [%g, 1): below the spacing of float64 at the largest count of the quantifier (1e5) '
                   'n_obs - epsilon rounds back to n_obs and the upper tail becomes exclusive; at 1 or above a neighbouring count is included' % (u(d), EPS_MIN))
    return f, a1, a2, fore, obs


def rule_poisson(ck):
    P = ck.prog
    ck.clause('D1')
    r = _kernel(ck, PK, 'scipy.stats.poisson', 2)
    if r is None:
        return
    f, a1, a2, fore, obs = r
    N = sym.Normalizer()
    for a, nm in ((a1, 'delta1'), (a2, 'delta2')):
        if a is None:
            continue
        o = ck.ob('C07-D1.mu.' + nm, f, sym.show_atom(a), f.node)
        mu = a[2][1] if len(a[2]) > 1 else dict(a[3]).get('mu')
        if mu is not None and mu == N.nf(ast.Name(id=fore, ctx=ast.Load())) and not [k for k in dict(a[3]) if k not in ('mu', 'loc')]:
            o.ok('mean = forecast count parameter')
        else:
            o.fail('the Poisson mean of %s is `%s`, not the forecast-count parameter `%s`' % (nm, sym.show(mu) if mu is not None else '?', fore))
    _public(ck, 'csep.core.poisson_evaluations.number_test', PK, 'C07-D1')


def _pair_of(e, kernel):
    """the pair returned by `kernel`, in its order: the call itself, or the display of its components 0 and 1"""
    if isinstance(e, ast.Call) and call_name(e) == kernel:
        return True
    return isinstance(e, ast.Tuple) and len(e.elts) == 2 and all(
        is_marker(x, '__item__') and const_value(x.args[1]) == i and isinstance(x.args[0], ast.Call)
        and call_name(x.args[0]) == kernel for i, x in enumerate(e.elts))


def _public(ck, qual, kernel, pre):
    P = ck.prog
    g = P.func(qual)
    k = P.func(kernel)
    ex = Expander(P, g)
    calls = calls_in(P, g, kernel)
    o = ck.ob(pre + '.call', g, calls[0] if calls else kernel, calls[0] if calls else g.node)
    if len(calls) != 1:
        o.fail('%s does not call %s exactly once' % (g.short, k.short))
        return
    m, ok = bind_args(k, calls[0])
    fore, obs = k.positional_params[0], k.positional_params[1]
    probs = []
    fe = ex.expand(m[fore]) if fore in m else None
    oe = ex.expand(m[obs]) if obs in m else None
    fps = g.positional_params
    def is_count_of(e, owner):
        e = strip_shape(e)
        if isinstance(e, ast.Attribute) and e.attr == 'event_count' and isinstance(e.value, ast.Name) and e.value.id == owner:
            return True
        if isinstance(e, ast.Call) and call_name(e) in ('.sum', '.get_number_of_events') and isinstance(e.func.value, ast.Name) \
                and e.func.value.id == owner and not e.args:
            return True
        return False
    if fe is None or not is_count_of(fe, fps[0]):
        probs.append('the forecast-count argument is `%s`, expected the total of `%s`' % (u(fe) if fe is not None else '?', fps[0]))
    if oe is None or not is_count_of(oe, fps[1]):
        probs.append('the observed-count argument is `%s`, expected the event count of `%s`' % (u(oe) if oe is not None else '?', fps[1]))
    if 'epsilon' in m:
        ev = ex.expand(m['epsilon'])
        v = const_value(ev)
        if v is NotImplemented or not (EPS_MIN <= v < 1):
            probs.append('epsilon passed is `%s`, must be a constant in [%g, 1): a smaller offset is absorbed by float64 rounding for counts up '
                         'to 1e5 (n_obs - epsilon == n_obs), which makes P(N >= n_obs) exclusive' % (u(ev), EPS_MIN))
    (o.fail('; '.join(probs)) if probs else o.ok('(forecast total, observed count, 0<eps<1)'))
    # quantile = (delta1, delta2) as unpacked from the kernel in order
    for flds in result_fields(P, g, ex):
        q = flds.get('quantile')
        o = ck.ob(pre + '.quantile', g, q[1] if q else 'quantile', q[1] if q else g.node)
        if q is None:
            o.fail('the result carries no quantile')
            continue
        e = q[0]
        good = _pair_of(e, kernel)
        (o.ok('(delta1, delta2) from the kernel, in order') if good else
         o.fail('quantile is `%s`: it must be the kernel\'s (delta1, delta2) in that order' % u(q[1])[:80]))
        os_ = flds.get('observed_statistic')
        if os_ is not None:
            o = ck.ob(pre + '.obs', g, os_[1], os_[1])
            (o.ok() if is_count_of(os_[0], fps[1]) else o.fail('observed_statistic is `%s`, not the observed event count' % u(os_[0])[:60]))


def rule_nbd(ck):
    P = ck.prog
    ck.clause('D2')
    r = _kernel(ck, NK, 'scipy.stats.nbinom', 3)
    if r is None:
        return
    f, a1, a2, fore, obs = r
    var = f.positional_params[2]
    N = sym.Normalizer()
    want_p = N.nf('%s / %s' % (fore, var))
    want_n = N.nf('%s**2 / (%s - %s)' % (fore, var, fore))
    for a, nm in ((a1, 'delta1'), (a2, 'delta2')):
        if a is None:
            continue
        kws = dict(a[3])
        n = a[2][1] if len(a[2]) > 1 else kws.get('n')
        p = a[2][2] if len(a[2]) > 2 else kws.get('p')
        o = ck.ob('C07-D2.p.' + nm, f, 'success probability of ' + nm, f.node)
        if p is None:
            o.unknown('cannot find p')
        elif p == want_p:
            o.ok('p == mean/var')
        else:
            o.fail('the NBD success probability is `%s`; the law with the given mean and variance needs p = mean/var '
                   '= `%s`' % (sym.show(p), sym.show(want_p)))
        o = ck.ob('C07-D2.n.' + nm, f, 'size parameter of ' + nm, f.node)
        if n is None:
            o.unknown('cannot find n')
        elif n == want_n:
            o.ok('n == mean^2/(var-mean)')
        else:
            o.fail('the NBD size parameter is `%s`; it must be mean^2/(var - mean) = `%s`' % (sym.show(n), sym.show(want_n)))
        loc = kws.get('loc')
        if loc is not None and not (loc.is_const() and loc.const_value() == 0):
            ck.ob('C07-D2.loc.' + nm, f, 'loc', f.node).fail('nbinom.cdf is shifted by loc=%s' % sym.show(loc))
    _public(ck, 'csep.core.binomial_evaluations.negative_binomial_number_test', NK, 'C07-D2')
    g = P.func('csep.core.binomial_evaluations.negative_binomial_number_test')
    calls = calls_in(P, g, NK)
    if calls:
        m, ok = bind_args(P.func(NK), calls[0])
        v = m.get(var)
        o = ck.ob('C07-D2.var', g, calls[0], calls[0])
        ve = Expander(P, g).expand(v) if v is not None else None
        (o.ok() if isinstance(ve, ast.Name) and getattr(ve, '_param', False) and ve.id == 'variance' else
         o.fail('the variance handed to the NBD kernel is `%s`, not the variance the caller gave: the test is no longer made against the '
                'negative binomial with the given mean and variance' % (u(ve)[:80] if ve is not None else '?')))


def rule_catalog(ck):
    P = ck.prog
    ck.clause('D3')
    g = P.func('csep.core.catalog_evaluations.number_test')
    ex = Expander(P, g)
    GQ = 'csep.utils.stats.get_quantiles'
    calls = calls_in(P, g, GQ)
    o = ck.ob('C07-D3.call', g, calls[0] if calls else 'get_quantiles', calls[0] if calls else g.node)
    if len(calls) != 1:
        o.fail('catalog number test does not call get_quantiles exactly once')
        return
    m, ok = bind_args(P.func(GQ), calls[0])
    gq = P.func(GQ)
    sim, obs = m.get(gq.positional_params[0]), m.get(gq.positional_params[1])
    fps = g.positional_params
    probs = []
    oe = ex.expand(obs) if obs is not None else None
    if not (isinstance(strip_shape(oe), ast.Attribute) and strip_shape(oe).attr == 'event_count' and
            isinstance(strip_shape(oe).value, ast.Name) and strip_shape(oe).value.id == fps[1]):
        probs.append('the observed value is `%s`, not %s.event_count' % (u(oe), fps[1]))
    # the distribution: one entry per synthetic catalog, its event count - an append loop or a comprehension over the forecast,
    # unconditional and complete (the expander presents an append loop as the comprehension it stands for)
    se = ex.expand(sim) if sim is not None else None
    while isinstance(se, ast.Call) and call_name(se) in ('builtins.list', 'numpy.array', 'numpy.asarray') and se.args:
        se = se.args[0]
    if not isinstance(se, (ast.ListComp, ast.GeneratorExp)) or len(se.generators) != 1:
        probs.append('the distribution `%s` is not built by one pass over `%s` (one entry per synthetic catalog, appended unconditionally, '
                     'no early exit)' % (u(sim)[:60] if sim is not None else '?', fps[0]))
    else:
        gen = se.generators[0]
        it = gen.iter
        if isinstance(it, ast.Call) and call_name(it) == 'builtins.enumerate' and it.args:
            it = it.args[0]
            tvar = gen.target.elts[1] if isinstance(gen.target, ast.Tuple) and len(gen.target.elts) == 2 else None
        else:
            tvar = gen.target
        if not (isinstance(it, ast.Name) and it.id == fps[0]):
            probs.append('sizes are not collected in a single loop over `%s` (iterates `%s`)' % (fps[0], u(gen.iter)[:50]))
        if gen.ifs:
            probs.append('the entry is conditional on `%s`: not every synthetic catalog contributes its size' % u(gen.ifs[0]))
        elt = strip_shape(se.elt)
        if not (isinstance(elt, ast.Attribute) and elt.attr == 'event_count' and isinstance(tvar, ast.Name) and isinstance(elt.value, ast.Name)
                and elt.value.id == tvar.id):
            probs.append('the collected value is `%s`, not the event count of the loop catalog' % u(se.elt)[:70])
    (o.fail('; '.join(probs)) if probs else o.ok('get_quantiles(sizes of all synthetic catalogs, observed size)'))
    for flds in result_fields(P, g, ex):
        q = flds.get('quantile')
        o = ck.ob('C07-D3.quantile', g, q[1] if q else 'quantile', q[1] if q else g.node)
        if q is None:
            o.fail('no quantile in result')
            continue
        e = q[0]
        good = _pair_of(e, GQ)
        (o.ok('(delta_1, delta_2) in order') if good else o.fail('quantile is `%s`, expected get_quantiles\' (delta_1, delta_2) in order' % u(q[1])))


def rule_totals(ck):
    """the forecast total N handed to the number tests is event_count = sum over the scaled view (shared C11-D1 scaling, C11-D4 sum)"""
    from . import c11
    ck.clause('D1 (shared C11-D1/D4: the forecast total)')
    c11.rule_scaling(ck)
    c11.rule_axes(ck)


def rule_precision(ck):
    """C07-D1.double: numbers stay in the precision they were supplied in - no conversion of rates / counts / statistics to a narrower type
    (shared reading with C05-D5.double)"""
    from .common import rule_double_precision
    ck.clause('D1')
    rule_double_precision(ck, 'C07-D1.double', modules=('csep.core.poisson_evaluations', 'csep.core.binomial_evaluations', 'csep.core.forecasts'), what='the forecast total and the observed count')


def rule_quantiles_shared(ck):
    """the catalog N-test's tails are the empirical probabilities of C09: get_quantiles hands the plain sample (or its full ecdf) to
    both tail functions, which evaluate (n - L)/n and R/n (shared C09-D2 rank algebra, C09-D3 pair / precomputed distribution)"""
    from . import c09
    ck.clause('D3 (shared C09-D2/D3: the empirical tails)')
    c09.rule_stateless(ck)
    c09.rule_rank(ck)
    c09.rule_pair(ck)


def rule_every_catalog_counted(ck):
    """the catalog N-test counts the sizes of *all* synthetic catalogs, the empty ones included: a pass yields every catalog of the
    source (shared C13-D1 / D4: the iterator)"""
    from . import c13
    ck.clause('D3 (shared C13: a pass over the forecast yields every synthetic catalog once)')
    c13.rule_next(ck)


RULES = [rule_poisson, rule_nbd, rule_catalog, rule_totals, rule_precision, rule_quantiles_shared, rule_every_catalog_counted]
