"""C19 - catalog readers decode every well-formed record of each supported format."""
import ast
import re

from ..core import sym
from ..core.expand import u, call_name, get_arg, bind_args, Expander, is_marker, phi_alternatives
from ..core.loader import Inconclusive, AnchorMissing, const_value, parents
from .common import (returns, all_nodes, callee, strip_shape, calls_in, guards_of, stmt_of, kw, find_assignments,
                     dict_literal_items, in_loop)

EXPLANATION = (
    "Decided: D1 dispatch: the accepted `type` strings are exactly the keys of class_loader_mapping, every loader "
    "resolves to a function of csep.utils.readers and every class to a catalog class with load_catalog; D2 slot "
    "typing: every event tuple a reader appends has six slots in CSEPCatalog.dtype order (id, origin_time, latitude, "
    "longitude, depth, magnitude) and each slot's provenance carries the column / field of its own role according to "
    "the frozen format tables (ZMAP lon lat year month day mag depth hour minute second; HORUS year month day hour "
    "minute second lat lon depth Mw; JMA timestamp;lon;lat;depth;mag; CSEP lon,lat,mag,time,depth,catalog_id,"
    "event_id; NDK hypocentre line), the time slot going through datetime_to_utc_epoch / strptime_to_utc_epoch / a "
    "rounded timestamp()*1000; D3 sequence subscripts are ints (enum members only of an IntEnum) and datetime() "
    "receives int()-converted values when they come from numpy.loadtxt/genfromtxt; D4 seconds = 60 and its "
    "roll-overs are carried with timedelta arithmetic before/after the datetime is built (HORUS three-stage carry, "
    "':60.0' in the NDK/EMRCMT helper), JMA times are converted with the parsed %z offset via timestamp(); D5 arrays "
    "read from caller-supplied files and iterated by row are forced to rank (ndmin=2 / atleast_1d), one-record files "
    "included. NOT decided: values decoded from particular records, sub-second resolution, NDK fixed-width offsets "
    "beyond the roles of the hypocentre fields.")
CLAUSES = {'D1': 'dispatch', 'D2': 'slot typing', 'D3': 'index and argument kinds', 'D4': 'roll-over and offsets', 'D5': 'array rank',
           'D6': 'record splitting'}
TRUSTED = ['CPython ast', 'external format tables (ZMAP, HORUS, JMA, CSEP CSV, NDK) frozen in the checker', 'C15 for the epoch conversions']
R = 'csep.utils.readers.'
ROOTS = ['csep.load_catalog', R + 'csep_ascii', R + 'zmap_ascii', R + 'jma_csv', R + 'ingv_horus', R + 'ndk', R + 'ingv_emrcmt',
         R + '_parse_datetime_to_zmap']
ZERO_ITER = [R + 'csep_ascii']
ACCEPTED_UNBOUND = {(R + 'ingv_emrcmt', 'n'): 'only unbound for a file without any line; C19 quantifies over files with 1..N records'}
TECHNIQUE = 'static analysis: table rules (dispatch, enum/ind tables vs frozen format layouts), slot-role typing of the event tuples, kind/rank flow'

ROLE_STEMS = {'lat': ('lat',), 'lon': ('lon', 'lng'), 'depth': ('dep',), 'mag': ('mag', 'mw')}
SLOTS = ['id', 'time', 'lat', 'lon', 'depth', 'mag']
ZMAP = {'Longitude': 0, 'Latitude': 1, 'DecimalYear': 2, 'Month': 3, 'Day': 4, 'Magnitude': 5, 'Depth': 6, 'Hour': 7, 'Minute': 8, 'Second': 9}
HORUS = {'year': 0, 'month': 1, 'day': 2, 'hour': 3, 'minute': 4, 'second': 5, 'lat': 6, 'lon': 7, 'depth': 8, 'Mw': 9}
ZMAP_COLS = {0: 'lon', 1: 'lat', 2: 'year', 3: 'month', 4: 'day', 5: 'mag', 6: 'depth', 7: 'hour', 8: 'minute', 9: 'second'}
CSEP_COLS = {0: 'lon', 1: 'lat', 2: 'mag', 3: 'time', 4: 'depth', 5: 'catalog_id', 6: 'id'}
JMA_COLS = {0: 'time', 1: 'lon', 2: 'lat', 3: 'depth', 4: 'mag'}


def rule_dispatch(ck):
    P = ck.prog
    ck.clause('D1')
    f = P.func('csep.load_catalog')
    tabs = [n for n in all_nodes(f) if isinstance(n, ast.Assign) and isinstance(n.value, ast.Dict) and isinstance(n.targets[0], ast.Name)]
    o = ck.ob('C19-D1.table', f, 'class_loader_mapping', tabs[0] if tabs else f.node)
    if len(tabs) != 1:
        o.fail('cannot find the single type -> (class, loader) table')
        return
    keys = []
    for k, v in dict_literal_items(tabs[0].value):
        keys.append(k)
        oo = ck.ob('C19-D1.entry', f, k, v)
        if isinstance(v, ast.Tuple) and len(v.elts) == 2:
            # (class, loader) pairs: the order is fixed by how the entry is unpacked where it is used
            unp = [a_ for a_ in all_nodes(f) if isinstance(a_, ast.Assign) and isinstance(a_.targets[0], ast.Tuple) and len(a_.targets[0].elts) == 2
                   and isinstance(a_.value, ast.Subscript) and u(a_.value.value) == u(tabs[0].targets[0])]
            names = [u(e_).lower() for e_ in unp[0].targets[0].elts] if unp else ['class', 'loader']
            ci = 0 if 'class' in names[0] or 'cls' in names[0] else 1
            ent = {'class': v.elts[ci], 'loader': v.elts[1 - ci]}
        elif isinstance(v, ast.Dict):
            ent = dict(dict_literal_items(v))
        else:
            oo.fail('entry is not a {class, loader} dictionary or a (class, loader) pair')
            continue
        cls_, ld = ent.get('class'), ent.get('loader')
        cq = P.canon(f, cls_) if cls_ is not None else None
        probs = []
        if cq not in P.classes or P.classes[cq].find_method('load_catalog') is None:
            probs.append('class `%s` is not a catalog class with load_catalog' % (u(cls_) if cls_ is not None else '?'))
        if ld is None:
            probs.append('no loader entry')
        elif not (isinstance(ld, ast.Constant) and ld.value is None):
            lq = P.canon(f, ld)
            if lq not in P.funcs or not lq.startswith(R):
                probs.append('loader `%s` is not a function of csep.utils.readers' % u(ld))
            else:
                want = {'csep-csv': 'csep_ascii', 'zmap': 'zmap_ascii', 'jma-csv': 'jma_csv', 'ndk': 'ndk', 'ingv_horus': 'ingv_horus', 'ingv_emrcmt': 'ingv_emrcmt'}.get(k)
                if want and lq != R + want:
                    probs.append('type %r is decoded by %s, expected %s' % (k, lq.split('.')[-1], want))
        elif k != 'ucerf3':
            probs.append('no reader registered for %r' % k)
        (oo.fail('; '.join(probs)) if probs else oo.ok())
    o.ok('%d formats' % len(keys))
    # accepted tuple == keys
    acc = None
    for n in all_nodes(f):
        if isinstance(n, ast.Compare) and isinstance(n.ops[0], ast.NotIn) and u(n.left) == 'type' and isinstance(n.comparators[0], ast.Tuple):
            acc = [const_value(e) for e in n.comparators[0].elts]
    o = ck.ob('C19-D1.accepted', f, acc, f.node)
    (o.ok() if acc is not None and set(acc) == set(keys) else o.fail('accepted types %s differ from the mapping keys %s' % (acc, keys)))
    for need in ('csep-csv', 'zmap', 'jma-csv', 'ingv_horus', 'ndk'):
        if need not in keys:
            ck.ob('C19-D1.format', f, need, f.node).fail('the supported format %r is not in the mapping' % need)
    # the loader is used
    o = ck.ob('C19-D1.use', f, 'catalog_class.load_catalog(filename=filename, loader=loader)', f.node)
    ok = any(isinstance(n, ast.Call) and isinstance(n.func, ast.Attribute) and n.func.attr == 'load_catalog' and u(kw(n, 'loader') or ast.Constant(0)) == 'loader' for n in all_nodes(f))
    if not ok:
        # `loader=default if loader is None else loader`: the caller's reader, else the one the table gives for the type - the same choice
        # written as an expression
        for n in all_nodes(f):
            if isinstance(n, ast.Call) and isinstance(n.func, ast.Attribute) and n.func.attr == 'load_catalog' and isinstance(kw(n, 'loader'), ast.IfExp):
                ie = kw(n, 'loader')
                from .common import is_none_test
                pol = is_none_test(ie.test, 'loader')
                mine, dflt = (ie.orelse, ie.body) if pol is True else (ie.body, ie.orelse)
                try:
                    d_txt = u(Expander(P, f).expand(dflt))
                except Inconclusive:
                    d_txt = u(dflt)
                if isinstance(mine, ast.Name) and mine.id == 'loader' and ('[type]' in d_txt or '.get(type' in d_txt) \
                        and isinstance(ie.test, ast.Compare) and u(ie.test.left) == 'loader':
                    ok = True
    (o.ok() if ok else o.fail('the selected reader is not handed to load_catalog'))
    g = P.func('csep.core.catalogs.CSEPCatalog.load_catalog')
    o = ck.ob('C19-D1.ctor', g, 'cls(data=event_list, ...)', g.node)
    ok = any(isinstance(n, ast.Call) and u(n.func) == 'cls' and u(kw(n, 'data') or ast.Constant(0)) == 'event_list' for n in all_nodes(g)) and \
        any(isinstance(n, ast.Call) and u(n.func) == 'loader' for n in all_nodes(g))
    (o.ok() if ok else o.fail('load_catalog does not build the catalog from the reader\'s event list'))


def _event_tuples(P, f):
    """tuples appended to the output list of a reader: [(append call, Tuple node)]"""
    out = []
    for n in all_nodes(f):
        if isinstance(n, ast.Call) and isinstance(n.func, ast.Attribute) and n.func.attr == 'append' and n.args:
            a = n.args[0]
            t = a
            hops = 0
            while isinstance(t, ast.Name) and hops < 4:
                # follow plain aliases (x = event_tuple) down to the tuple display
                hops += 1
                defs = [d for d in find_assignments(f, t.id) if isinstance(d, ast.Assign)]
                tup = [d for d in defs if isinstance(d.value, ast.Tuple)]
                if tup:
                    t = tup[-1].value
                elif len(defs) == 1 and isinstance(defs[0].value, ast.Name):
                    t = defs[0].value
                else:
                    t = None
            if isinstance(t, ast.Tuple) and len(t.elts) == 6:
                out.append((n, t))
    return out


def _slot_role_text(e):
    s = u(e).lower()
    roles = set()
    toks = set(re.findall(r'[a-z_][a-z_0-9]*', s))
    for r, stems in ROLE_STEMS.items():
        if any(any(st in t for st in stems) for t in toks):
            roles.add(r)
    return roles


def rule_slots(ck):
    P = ck.prog
    ck.clause('D2')
    readers = ['csep_ascii', 'zmap_ascii', 'jma_csv', 'ingv_horus', 'ndk', 'ingv_emrcmt']
    for name in readers:
        f = P.func(R + name)
        ex = Expander(P, f, keep={'line', 'record', 'rec', 'ind'})
        tuples = _event_tuples(P, f)
        o = ck.ob('C19-D2.tuple', f, '%d event tuple(s)' % len(tuples), f.node)
        if len(tuples) != 1:
            o.fail('%s appends %d six-slot event tuples; expected exactly one form per record' % (name, len(tuples)))
            continue
        o.ok()
        call, tup = tuples[0]
        # one event per record: the append is not conditional on anything but well-formedness, and sits in the record loop
        for i, (slot, e) in enumerate(zip(SLOTS, tup.elts)):
            ee = ex.expand(e)
            oo = ck.ob('C19-D2.slot.%s' % slot, f, '%s: %s' % (name, u(e)), e)
            if slot == 'id':
                oo.ok('identifier slot')
                continue
            # a record's values come from that record alone: nothing carried over from the records before it
            oc = ck.ob('C19-D2.independent.%s' % slot, f, '%s: %s' % (name, u(e)), e)
            carried = sorted({const_value(x.args[0]) for x in ast.walk(ee) if is_marker(x, '__loop__') and x.args})
            (oc.fail('the %s of a record depends on `%s` as left by the previous records (the variable is not re-initialised for each '
                     'record): a carry or correction applied to one record leaks into every later one' % (slot, ', '.join(map(str, carried))))
             if carried else oc.ok('no loop-carried value'))
            if slot == 'time':
                txt = u(ee)
                ok = ('datetime_to_utc_epoch(' in txt) or ('strptime_to_utc_epoch(' in txt) or ('builtins.round(1000.0 * ' in txt and '.timestamp()' in txt)
                if not ok and isinstance(ee, ast.Call) and call_name(ee) in P.funcs:
                    hf = P.funcs[call_name(ee)]
                    hr = [r for r in returns(hf) if r.value is not None]
                    hx = Expander(P, hf)
                    def _exact(v):
                        t_ = u(v)
                        return isinstance(v, ast.Call) and (call_name(v) in (
                            'csep.utils.time_utils.strptime_to_utc_epoch', 'csep.utils.time_utils.datetime_to_utc_epoch')
                            or (t_.startswith('builtins.round(1000.0 * ') and '.timestamp()' in t_))
                    ok = bool(hr) and all(_exact(hx.expand(r.value)) for r in hr)
                if not ok and isinstance(ee, ast.Call) and isinstance(ee.func, ast.Lambda):
                    ok = 'builtins.round(1000.0 * ' in txt and '.timestamp()' in txt
                (oo.ok('epoch milliseconds through an exact/rounded conversion') if ok else
                 oo.fail('the origin-time slot is `%s`: not epoch milliseconds from datetime_to_utc_epoch / strptime_to_utc_epoch / round(1000*timestamp())' % txt[:90]))
                continue
            # numeric column readers
            cols = None
            if name == 'csep_ascii':
                cols = CSEP_COLS
            elif name == 'jma_csv':
                cols = JMA_COLS
            if name == 'zmap_ascii' and not _zmap_enums(P, f) and any(
                    isinstance(x, ast.Subscript) and isinstance(x.value, ast.Name) and isinstance(const_value(x.slice), int) for x in ast.walk(ee)):
                # the reader subscripts its rows with plain column numbers: read them against the ZMAP layout
                cols = ZMAP_COLS
            if cols is not None:
                idx = {const_value(x.slice) for x in ast.walk(ee) if isinstance(x, ast.Subscript) and isinstance(x.value, ast.Name) and x.value.id == 'line'}
                got = {cols.get(k, '?') for k in idx}
                (oo.ok('column %s' % sorted(idx)) if got == {slot} else
                 oo.fail('the %s slot is read from column(s) %s (= %s in the %s layout)' % (slot, sorted(idx), sorted(got), name)))
                continue
            roles = _slot_role_text(ee) | _slot_role_text(e)
            if roles == {slot}:
                oo.ok('vocabulary: %s' % slot)
            elif not roles:
                oo.unknown('cannot type the expression `%s`' % u(ee)[:60])
            else:
                oo.fail('the %s slot carries %s data (`%s`): the event tuple must follow the dtype order id, origin_time, latitude, longitude, '
                        'depth, magnitude' % (slot, '/'.join(sorted(roles)), u(e)[:50]))
    # format tables inside the readers
    z = P.func(R + 'zmap_ascii')
    enums = _zmap_enums(P, z)
    o = ck.ob('C19-D2.zmaptable', z, 'ColumnIndex', enums[0].node if enums else z.node)
    if not enums and any(isinstance(n, ast.Subscript) and isinstance(n.value, ast.Name) and isinstance(const_value(n.slice), int) for n in all_nodes(z)):
        o.ok('no enumeration: the rows are subscripted with column numbers, each read against the ZMAP layout where it is used')
    elif len(enums) != 1:
        o.unknown('no ColumnIndex class')
    else:
        got = {}
        for n in enums[0].node.body:
            if isinstance(n, ast.Assign) and isinstance(n.targets[0], ast.Name):
                got[n.targets[0].id] = const_value(n.value)
        bad = {k: (got.get(k), v) for k, v in ZMAP.items() if got.get(k) != v}
        (o.fail('ZMAP column table differs from the format (member: found, expected): %s' % bad) if bad else o.ok('matches the ZMAP column order'))
    h = P.func(R + 'ingv_horus')
    tabs = [n for n in all_nodes(h) if isinstance(n, ast.Assign) and isinstance(n.value, ast.Dict) and u(n.targets[0]) == 'ind']
    o = ck.ob('C19-D2.horustable', h, 'ind', tabs[0] if tabs else h.node)
    if tabs:
        got = {}
        for k, v in dict_literal_items(tabs[0].value):
            got[k] = const_value(v.elts[0]) if isinstance(v, ast.Tuple) else const_value(v)
        bad = {k: (got.get(k), v) for k, v in HORUS.items() if got.get(k) != v}
        (o.fail('HORUS column table differs from the format: %s' % bad) if bad else o.ok('matches the HORUS column order'))
    else:
        o.unknown('no ind table')
    # zmap / horus datetime assembly uses the matching fields in order
    for name, fields in (('zmap_ascii', ['DecimalYear', 'Month', 'Day', 'Hour', 'Minute', 'Second']),
                         ('ingv_horus', ['year', 'month', 'day', 'hour', 'minute', 'second'])):
        f = P.func(R + name)
        dts = [c for c in calls_in(P, f, 'datetime.datetime') if len(c.args) == 6]
        o = ck.ob('C19-D2.datetime', f, dts[0] if dts else 'datetime(...)', dts[0] if dts else f.node)
        if len(dts) != 1:
            o.fail('%s does not assemble one datetime from six fields' % name)
            continue
        got = []
        for a in dts[0].args:
            m = re.findall(r"(?:%s)\.(\w+)|\['(\w+)'\]" % '|'.join([c_.node.name for c_ in _zmap_enums(P, P.func(R + 'zmap_ascii'))] or ['ColumnIndex']), u(a))
            if not m and name == 'zmap_ascii':
                ks = [const_value(x.slice) for x in ast.walk(a) if isinstance(x, ast.Subscript) and isinstance(const_value(x.slice), int)]
                inv = {v_: k_ for k_, v_ in ZMAP.items()}
                if len(ks) == 1 and ks[0] in inv:
                    got.append(inv[ks[0]])
                    continue
            got.append((m[0][0] or m[0][1]) if m else '?')
        (o.ok('(year, month, day, hour, minute, second)') if got == fields else o.fail('datetime fields are %s, expected %s' % (got, fields)))
    # ndk hypocentre fields
    want = {'hypo_lat': (27, 33), 'hypo_lng': (34, 41), 'hypo_depth_in_km': (42, 47)}
    found_keys = set()
    for n in _ndk_scope(P):
        # the parameter that holds the first (hypocentre) line of a record: the one the date / time / hypocentre fields are cut from
        for st in all_nodes(n):
            if isinstance(st, ast.Assign) and isinstance(st.targets[0], ast.Subscript) and const_value(st.targets[0].slice) in want:
                key = const_value(st.targets[0].slice)
                found_keys.add(key)
                o = ck.ob('C19-D2.ndk', n, st, st)
                sl = [x for x in ast.walk(st.value) if isinstance(x, ast.Subscript) and isinstance(x.slice, ast.Slice)]
                got = (const_value(sl[0].slice.lower), const_value(sl[0].slice.upper)) if sl else None
                src = u(sl[0].value) if sl else '?'
                # the same source line as the record's date field (columns 6-15 of line 1)
                date_src = [u(x.value) for s2 in all_nodes(n) if isinstance(s2, ast.Assign) and isinstance(s2.targets[0], ast.Subscript)
                            and const_value(s2.targets[0].slice) == 'date' for x in ast.walk(s2.value) if isinstance(x, ast.Subscript) and isinstance(x.slice, ast.Slice)]
                same_line = (src == 'line1') or (bool(date_src) and src == date_src[0])
                (o.ok() if got == want[key] and same_line else o.fail('%s is read from %s[%s] (NDK hypocentre line: %s at %s)' % (key, src, got, key, want[key])))
    if not found_keys:
        raise AnchorMissing('no function of the NDK reader stores the hypocentre fields %s' % sorted(want))


VALUE_FIELDS = ('lat', 'lon', 'depth', 'mw', 'mag', 'magnitude', 'latitude', 'longitude')
NARROW_FLOAT_CODES = ('<f4', 'f4', '>f4', '=f4', 'float32', 'f', '<f2', 'f2', 'float16', 'e', 'single', 'half')


def rule_value_width(ck):
    """D3.width: a reader that declares the types of the columns it reads (a structured dtype / a per-column type table) reads
    latitude, longitude, depth and magnitude as doubles - the width the catalog stores them in.  A column read as float32 comes
    back as the nearest single-precision number (42.9043 -> 42.904300689697266, a magnitude 4.95 -> 4.949999809, i.e. below the
    bin edge 4.95), not as the encoded value."""
    P = ck.prog
    ck.clause('D3')
    n = 0
    for q in ('csep.utils.readers.ingv_horus', 'csep.utils.readers.zmap_ascii', 'csep.utils.readers.jma_csv', 'csep.utils.readers.csep_ascii',
              'csep.utils.readers.ingv_emrcmt', 'csep.utils.readers.ndk'):
        f = P.funcs.get(q)
        if f is None:
            continue
        for d in all_nodes(f):
            pairs = []
            if isinstance(d, ast.Dict):
                for k, v in zip(d.keys, d.values):
                    kk = const_value(k) if k is not None else NotImplemented
                    if isinstance(kk, str) and isinstance(v, (ast.Tuple, ast.List)):
                        for x in v.elts:
                            c = const_value(x)
                            if isinstance(c, str):
                                pairs.append((kk, c, v))
                            elif isinstance(x, ast.Attribute) and x.attr in ('float32', 'float16', 'single', 'half'):
                                pairs.append((kk, x.attr, v))
            elif isinstance(d, (ast.List, ast.Tuple)) and d.elts and all(isinstance(e, ast.Tuple) and len(e.elts) == 2 and isinstance(const_value(e.elts[0]), str) for e in d.elts):
                for e in d.elts:
                    c = const_value(e.elts[1])
                    if isinstance(c, str):
                        pairs.append((const_value(e.elts[0]), c, e))
                    elif isinstance(e.elts[1], ast.Attribute):
                        pairs.append((const_value(e.elts[0]), e.elts[1].attr, e))
            for name, code, node in pairs:
                if name.lower() not in VALUE_FIELDS:
                    continue
                n += 1
                o = ck.ob('C19-D3.width', f, '%s: %s' % (name, code), node)
                (o.fail('column `%s` is read as %s: the decoded value is the nearest single-precision number, not the encoded one (42.9043 comes '
                        'back as 42.904300689697266; a magnitude written 4.95 as 4.949999809, below the bin edge 4.95)' % (name, code))
                 if code in NARROW_FLOAT_CODES else o.ok('read as %s' % code))
    ck.extra['typed_value_columns'] = n


def _ndk_scope(P):
    """the functions that make up the NDK reader: `ndk`, the functions nested in it, and the module-level functions of readers.py it
    reaches through calls (helpers moved out of it)"""
    root = P.func(R + 'ndk')
    out, todo = [], [root]
    while todo:
        g = todo.pop()
        if g in out:
            continue
        out.append(g)
        for h in P.funcs.values():
            if h.parent is g and h not in out:
                todo.append(h)
        for c in all_nodes(g):
            if isinstance(c, ast.Call):
                q = callee(P, g, c)
                h = P.funcs.get(q) if q else None
                if h is not None and h.module is root.module and h not in out and h.cls is None:
                    todo.append(h)
    return out


def _zmap_enums(P, z):
    """the class whose members name the ZMAP columns: nested in the reader or at module level, recognised by its use -
    `<row>[<Class>.<Member>]` subscripts inside the reader"""
    used = set()
    for n in all_nodes(z):
        if isinstance(n, ast.Subscript):
            for x in ast.walk(n.slice):
                if isinstance(x, ast.Attribute) and isinstance(x.value, ast.Name):
                    used.add(x.value.id)
    out = [c for c in P.classes.values() if getattr(c, 'enclosing_func', None) is z]
    out += [c for c in P.classes.values() if c.module is z.module and getattr(c, 'enclosing_func', None) is None and c.node.name in used and c not in out]
    return [c for c in out if c.node.name in used] or out


def rule_kinds(ck):
    P = ck.prog
    ck.clause('D3')
    z = P.func(R + 'zmap_ascii')
    enums = _zmap_enums(P, z)
    if enums:
        c = enums[0]
        used_as_index = any(isinstance(n, ast.Subscript) and (c.node.name + '.') in u(n.slice) for n in all_nodes(z))
        o = ck.ob('C19-D3.enum', z, 'class %s(%s)' % (c.node.name, ', '.join(u(b) for b in c.node.bases)), c.node)
        bases = [P.canon(z, b) for b in c.node.bases]
        if used_as_index and 'enum.IntEnum' not in bases and 'builtins.int' not in bases:
            o.fail('rows are subscripted with members of a plain enum.Enum: numpy/list indexing needs integers (IndexError on every record); use '
                   'IntEnum or .value')
        else:
            o.ok('IntEnum members are integers')
    else:
        ck.ob('C19-D3.enum', z, 'rows subscripted with integers', z.node).ok('no enumeration in the reader: column numbers are plain integers')
    for name in ('zmap_ascii', 'ingv_horus'):
        f = P.func(R + name)
        for c in [c for c in calls_in(P, f, 'datetime.datetime') if len(c.args) >= 3]:
            o = ck.ob('C19-D3.intargs', f, c, c)
            bad = [a for a in c.args if not (isinstance(a, ast.Call) and u(a.func) == 'int')]
            (o.fail('datetime() receives `%s` straight from the numeric table (a float): TypeError for every record; wrap in int()' % u(bad[0])) if bad else o.ok('int(...) arguments'))


def rule_records(ck):
    """every line of an NDK text - the last one with or without a line terminator - reaches the five-line grouping"""
    P = ck.prog
    ck.clause('D6')
    f = P.funcs.get(R + 'ndk.<locals>.lines_iter')
    if f is None:
        # found by role: the generator among the functions of the NDK reader
        gens = [g_ for g_ in _ndk_scope(P) if any(isinstance(x, (ast.Yield, ast.YieldFrom)) for x in all_nodes(g_))]
        if len(gens) != 1:
            raise AnchorMissing('the line iterator of the NDK reader (nested lines_iter or a module-level generator it calls) was not found')
        f = gens[0]
    o = ck.ob('C19-D6.lines', f, 'NDK text split into lines without losing the last one', f.node)
    ys = [n for n in all_nodes(f) if isinstance(n, (ast.Yield, ast.YieldFrom))]
    if ys:
        in_lp = [y for y in ys if in_loop(y, f.node) is not None]
        tail = [y for y in ys if in_loop(y, f.node) is None]
        def open_tail(y):
            v = y.value
            return isinstance(v, ast.Subscript) and isinstance(v.slice, ast.Slice) and v.slice.upper is None and v.slice.step is None
        if not in_lp:
            o.fail('no line is yielded from the scanning loop')
        elif not any(open_tail(y) for y in tail):
            o.fail('after the last line terminator nothing more is yielded: the final line of a text that does not end in a newline is '
                   'lost, so the last record has four lines and is skipped')
        else:
            lp = in_loop(in_lp[0], f.node)
            after = [y for y in tail if open_tail(y) and y.lineno > lp.lineno]
            (o.ok('terminated lines from the loop, the unterminated remainder after it') if after else
             o.fail('the remainder of the text is not yielded after the loop'))
    else:
        r = [x for x in returns(f) if x.value is not None]
        if len(r) != 1:
            o.unknown('lines_iter neither yields nor returns one iterator')
        else:
            v = r[0].value
            while isinstance(v, ast.Call) and isinstance(v.func, ast.Name) and v.func.id in ('iter', 'list', 'tuple') and v.args:
                v = v.args[0]
            sl = [x for x in ast.walk(v) if isinstance(x, ast.Subscript) and isinstance(x.slice, ast.Slice)]
            base_ok = isinstance(v, ast.Call) and isinstance(v.func, ast.Attribute) and (
                v.func.attr == 'splitlines' or (v.func.attr == 'split' and v.args and const_value(v.args[0]) == '\n'))
            def _guarded_by_newline_test(x):
                # data.split("\n")[:-1] is exact when (and only when) the text ends with a line terminator
                for t_, pol in guards_of(x, f.node):
                    if pol and isinstance(t_, ast.Call) and isinstance(t_.func, ast.Attribute) and t_.func.attr == 'endswith' \
                            and t_.args and const_value(t_.args[0]) == '\n':
                        return True
                return False
            if sl and all(_guarded_by_newline_test(x) and u(x.slice) == ':-1' for x in sl):
                o.ok('the trailing empty field is dropped only when the text ends with a newline')
            elif sl:
                o.fail('the list of lines is sliced (`%s`): the last line of a text that does not end in a newline is dropped, so the last '
                       'record has four lines and is skipped' % u(sl[0])[:60])
            elif base_ok:
                o.ok('%s of the whole text' % v.func.attr)
            else:
                o.unknown('unrecognised way of splitting the text into lines: `%s`' % u(v)[:80])


def rule_rollover(ck):
    P = ck.prog
    ck.clause('D4')
    N = sym.Normalizer()
    h = P.func(R + 'ingv_horus')
    dts = [c for c in calls_in(P, h, 'datetime.datetime') if len(c.args) == 6]
    stages = {}
    for n in all_nodes(h):
        if isinstance(n, ast.If) and isinstance(n.test, ast.Compare) and isinstance(n.test.ops[0], ast.GtE):
            m = re.findall(r"\['(\w+)'\]", u(n.test.left))
            lim = const_value(n.test.comparators[0])
            if m:
                stages[m[0]] = (lim, n)
    o = ck.ob('C19-D4.horus', h, 'second>=60, minute>=60, hour>=24 carried before the datetime', h.node)
    probs = []
    carried_by_count = []
    for fld, lim, unit in (('second', 60, 'minutes'), ('minute', 60, 'hours'), ('hour', 24, 'days')):
        if fld not in stages or stages[fld][0] != lim:
            probs.append('no carry for %s >= %s' % (fld, lim))
            continue
        body = stages[fld][1].body
        sub = any(isinstance(s, ast.AugAssign) and isinstance(s.op, ast.Sub) and fld in u(s.target) and const_value(s.value) == lim for s in body)
        add = any(isinstance(s, ast.AugAssign) and isinstance(s.op, ast.Add) and 'timedelta(%s=1)' % unit in u(s.value) for s in body)
        if not add:
            # the carry counted in a variable (0 for every record, 1 in this branch) that a single timedelta(<unit>=<variable>) adds
            for s in body:
                if isinstance(s, ast.Assign) and len(s.targets) == 1 and isinstance(s.targets[0], ast.Name) and const_value(s.value) == 1:
                    cv = s.targets[0].id
                    zero = [a_ for a_ in find_assignments(h, cv) if isinstance(a_, ast.Assign) and const_value(a_.value) == 0 and in_loop(a_, h.node) is not None]
                    used = any(isinstance(c_, ast.Call) and (call_name(c_) or '').endswith('timedelta') and
                               any(k_.arg == unit and isinstance(k_.value, ast.Name) and k_.value.id == cv for k_ in c_.keywords) for c_ in all_nodes(h))
                    if zero and used and len(find_assignments(h, cv)) == 2:
                        add = True
                        carried_by_count.append(unit)
        if not (sub and add):
            probs.append('the %s carry does not subtract %s and add timedelta(%s=1)' % (fld, lim, unit))
        if dts and stages[fld][1].lineno > dts[0].lineno:
            probs.append('the %s carry happens after the datetime is constructed (ValueError for second=60)' % fld)
    if stages and [stages[k][1].lineno for k in ('second', 'minute', 'hour') if k in stages] != sorted(stages[k][1].lineno for k in ('second', 'minute', 'hour') if k in stages):
        probs.append('carries are not applied in the order second -> minute -> hour')
    if dts:
        st = stmt_of(dts[0])
        plain = isinstance(st, ast.Assign) and isinstance(st.value, ast.BinOp) and isinstance(st.value.op, ast.Add) and u(st.value.right) == 'dt'
        counted = isinstance(st, ast.Assign) and isinstance(st.value, ast.BinOp) and isinstance(st.value.op, ast.Add) and isinstance(st.value.right, ast.Call) \
            and (call_name(st.value.right) or '').endswith('timedelta') and len(carried_by_count) == 3 \
            and {k_.arg for k_ in st.value.right.keywords} == {'minutes', 'hours', 'days'} and not st.value.right.args
        if not (plain or counted):
            probs.append('the carried timedelta is not added to the constructed datetime')
    (o.fail('; '.join(probs)) if probs else o.ok())
    p = P.func(R + '_parse_datetime_to_zmap')
    o = ck.ob('C19-D4.sixty', p, "':60.0' handled with a one-minute timedelta", p.node)
    probs = []
    # the test may be named first: `add_minute = ':60.0' in time; if add_minute: time = time.replace(...)` - the flag then remembers itself
    named = {a_.targets[0].id for a_ in all_nodes(p) if isinstance(a_, ast.Assign) and len(a_.targets) == 1 and isinstance(a_.targets[0], ast.Name)
             and u(a_.value).startswith("':60.0' in") and len(find_assignments(p, a_.targets[0].id)) == 1}
    ifs = [n for n in all_nodes(p) if isinstance(n, ast.If) and ("':60.0' in" in u(n.test) or (isinstance(n.test, ast.Name) and n.test.id in named))
           and any(isinstance(s_, ast.Assign) and 'replace' in u(s_.value) for s_ in n.body)]
    flag = 'add_minute'
    if len(ifs) != 1:
        probs.append("no test for ':60.0' in the time string")
    else:
        b = ifs[0].body
        if not any(isinstance(s, ast.Assign) and u(s.value) == "time.replace(':60.0', ':0.0')" for s in b):
            probs.append("':60.0' is not rewritten to ':0.0' before parsing")
        if isinstance(ifs[0].test, ast.Name) and ifs[0].test.id in named:
            flag = ifs[0].test.id
        elif not any(isinstance(s, ast.Assign) and u(s.targets[0]) == 'add_minute' and const_value(s.value) is True for s in b):
            probs.append('the pending minute is not remembered')
    adds = [n for n in all_nodes(p) if isinstance(n, ast.If) and u(n.test) == flag and not (ifs and n is ifs[0])]
    if len(adds) != 1:
        probs.append('the pending minute is not applied')
    else:
        ok = any((isinstance(s, ast.AugAssign) and isinstance(s.op, ast.Add) and u(s.target) == 'dt' and u(s.value) == 'datetime.timedelta(minutes=1)') or
                 (isinstance(s, ast.Assign) and u(s.targets[0]) == 'dt' and N.nf(s.value) == N.nf('dt + datetime.timedelta(minutes=1)')) for s in adds[0].body)
        if not ok:
            probs.append('the extra minute is applied as `%s`, not by adding timedelta(minutes=1): replacing the minute field overflows at '
                         'minute 59 (23:59:60 must roll to the next hour/day)' % '; '.join(u(s) for s in adds[0].body)[:80])
    r = [x for x in returns(p) if x.value is not None]
    outk = {}
    for n in all_nodes(p):
        if isinstance(n, ast.Assign) and isinstance(n.targets[0], ast.Subscript) and u(n.targets[0].value) == 'out':
            outk[const_value(n.targets[0].slice)] = u(n.value)
        # the same table written as one dictionary literal (assigned to `out` or returned)
        if isinstance(n, (ast.Assign, ast.Return)) and isinstance(n.value, ast.Dict) and \
                (isinstance(n, ast.Return) or u(n.targets[0]) == 'out'):
            for k_, v_ in dict_literal_items(n.value):
                outk[k_] = u(v_)
    if r:
        ev = Expander(P, p, keep={'dt'}).expand(r[0].value)
        if isinstance(ev, ast.Dict):
            outk = {k_: u(v_) for k_, v_ in dict_literal_items(ev)}
    for k in ('year', 'month', 'day', 'hour', 'minute', 'second'):
        if outk.get(k) != 'dt.' + k:
            probs.append("out['%s'] is %s" % (k, outk.get(k)))
    (o.fail('; '.join(probs)) if probs else o.ok())
    j = P.func(R + 'jma_csv')
    ex = Expander(P, j)
    tuples = _event_tuples(P, j)
    slot = tuples[0][1].elts[1] if len(tuples) == 1 else None
    o = ck.ob('C19-D4.jma', j, 'JMA origin time conversion', slot if slot is not None else j.node)
    exj = Expander(P, j, inline_depth=1, keep={'line'})
    want = N.nf("builtins.round(1000.0 * datetime.datetime.strptime(line[0], '%Y-%m-%dT%H:%M:%S.%f%z').timestamp())")
    if slot is None:
        o.fail('jma_csv no longer builds one event tuple per record')
    else:
        body = exj.expand(slot)
        if N.nf(body) == want:
            o.ok('round(1000 * strptime(line[0], %z).timestamp())')
        else:
            o.fail('the JMA time conversion is `%s`; it must parse column 0 with the %%z offset through .timestamp() (hand-made offset '
                   'arithmetic mishandles negative offsets) and round to milliseconds' % u(body)[:140])


def rule_rank(ck):
    from . import c11
    c11.rule_rank(ck, funcs=[R + 'zmap_ascii', R + 'ingv_horus'], rule='C19-D5.rank')
    # one event per record: the append sits directly in the record loop (conditions only on well-formedness)
    P = ck.prog
    ck.clause('D2')
    for name in ('csep_ascii', 'zmap_ascii', 'jma_csv', 'ingv_horus'):
        f = P.func(R + name)
        for call, tup in _event_tuples(P, f):
            o = ck.ob('C19-D2.perrecord', f, call, call)
            lp = in_loop(call, f.node)
            g = [(t_, pl_) for t_, pl_ in guards_of(call, lp) if not (pl_ is False and ('header' in u(t_) or 'first' in u(t_)))] if lp is not None else None
            (o.ok() if lp is not None and not g else o.fail('the event is not appended once per record (%s)' % ('outside the record loop' if lp is None else 'conditional on `%s`' % u(g[0][0]))))


def rule_time_and_order(ck):
    """the readers hand naive UTC field values to datetime_to_utc_epoch (shared C15-D1/D2: exact, naive = UTC), and the events stay
    in file order on the way into the catalog (shared C14-D7 row order, including csep.load_catalog)"""
    from . import c14, c15
    P = ck.prog
    ck.clause('D4 (shared C15-D1/D2)')
    c15.rule_utc(ck)
    c15.rule_exact(ck, only=('strptime_to_utc_epoch', 'datetime_to_utc_epoch', 'strptime_to_utc_datetime'))
    ck.clause('D2 (shared C14-D7 row order)')
    c14.rule_row_order(ck)


ALLOWED_LABEL_METHODS = ('lower', 'upper', 'strip', 'casefold', 'lstrip', 'rstrip', 'startswith')


def header_predicates(P, f):
    """(call or test node, helper body nodes) for every row-skipping test inside the record loops of reader f: the tests of
    `if <...>: continue` statements that come before the row is decoded, with the nested helpers / lambdas they call"""
    out = []
    helpers = {}
    pkg_helpers = header_predicates.pkg_calls
    for q, h in P.funcs.items():
        if h.parent is f:
            helpers[h.node.name] = list(ast.walk(h.node))
    for n in all_nodes(f):
        if isinstance(n, ast.Assign) and len(n.targets) == 1 and isinstance(n.targets[0], ast.Name) and isinstance(n.value, ast.Lambda):
            helpers[n.targets[0].id] = list(ast.walk(n.value.body))
    for n in all_nodes(f):
        if isinstance(n, ast.If) and n.body and isinstance(n.body[-1], ast.Continue) and in_loop(n, f.node) is not None:
            nodes = list(ast.walk(n.test))
            used = False
            for c in list(nodes):
                if isinstance(c, ast.Call) and isinstance(c.func, ast.Name) and c.func.id in helpers:
                    nodes += helpers[c.func.id]
                    used = True
                elif isinstance(c, ast.Call):
                    # a helper of the package at module level (or one that answers to the name of a former nested helper)
                    q = callee(P, f, c)
                    g = P.funcs.get(q) if q else None
                    if g is not None and g is not f and g.module is f.module:
                        nodes += list(ast.walk(g.node))
                        pkg_helpers.add(id(c))
                        used = True
            txt = u(n.test).lower()
            if used or 'header' in txt or "[0]" in txt:
                out.append((n, nodes))
    return out


header_predicates.pkg_calls = set()


def rule_header(ck):
    """D2.header: a row is taken for the header only because its first field IS a known column label (equality / membership against
    string literals, case or blanks folded).  A heuristic on the shape of the field ("does not look like a number") also swallows
    well-formed records - a longitude written 2.5e-05 or +12.5 - and every later event moves up one place."""
    P = ck.prog
    ck.clause('D2')
    n = 0
    for q in ('csep.utils.readers.csep_ascii', 'csep.utils.readers.jma_csv', 'csep.core.catalogs.CSEPCatalog.load_ascii_catalogs'):
        f = P.funcs.get(q)
        if f is None:
            continue
        for test, nodes in header_predicates(P, f):
            n += 1
            o = ck.ob('C19-D2.header', f, test.test, test)
            bad = None
            for x in nodes:
                if isinstance(x, ast.Call):
                    nm = x.func.attr if isinstance(x.func, ast.Attribute) else (x.func.id if isinstance(x.func, ast.Name) else '?')
                    if isinstance(x.func, ast.Attribute) and nm in ALLOWED_LABEL_METHODS:
                        continue
                    if isinstance(x.func, ast.Name) and any(h.parent is f and h.node.name == nm for h in P.funcs.values()):
                        continue
                    if isinstance(x.func, ast.Name) and nm in [a_.targets[0].id for a_ in all_nodes(f) if isinstance(a_, ast.Assign) and len(a_.targets) == 1
                                                               and isinstance(a_.targets[0], ast.Name) and isinstance(a_.value, ast.Lambda)]:
                        continue
                    if nm in ('all', 'any', 'len', 'bool'):
                        continue
                    if id(x) in header_predicates.pkg_calls:
                        continue
                    bad = bad or x
                if isinstance(x, ast.Compare) and any(isinstance(op, (ast.Eq, ast.NotEq, ast.In, ast.NotIn)) for op in x.ops):
                    sides = [x.left] + list(x.comparators)
                    if '[0]' in u(x) and not any(isinstance(const_value(s_), (str, tuple, list)) for s_ in sides):
                        bad = bad or x
            (o.fail('the header is recognised through `%s`, not by comparing the first field with the column label: a record whose first field '
                    'has an unusual but legal spelling (2.5e-05, +12.5) is taken for a header and silently dropped' % u(bad)[:70]) if bad is not None
             else o.ok('first field compared with a literal label'))
    ck.extra['header_tests'] = n


# columns a format description marks as optional: (reader, row variable) -> {column: what}
OPTIONAL_COLUMNS = {'csep.utils.readers.csep_ascii': ('line', {6: 'event_id'})}


def rule_optional_columns(ck):
    """D2.optional: the CSEP layout is `lon, lat, M, time_string, depth, catalog_id, [event_id]` - a record without the last column is
    well-formed.  The reader may take the optional column only under a test of the record length or inside a try that catches
    IndexError; a bare `line[6]` rejects every record written without event ids."""
    P = ck.prog
    ck.clause('D2')
    for q, (row, cols) in OPTIONAL_COLUMNS.items():
        f = P.func(q)
        for n in all_nodes(f):
            if not (isinstance(n, ast.Subscript) and isinstance(n.ctx, ast.Load) and isinstance(n.value, ast.Name) and n.value.id == row
                    and const_value(n.slice) in cols):
                continue
            o = ck.ob('C19-D2.optional', f, n, n)
            prot = False
            cur = n
            while getattr(cur, '_parent', None) is not None and cur is not f.node:
                up = cur._parent
                if isinstance(up, ast.Try) and cur in up.body and any(h.type is None or any(w in u(h.type) for w in ('IndexError', 'LookupError', 'Exception')) for h in up.handlers):
                    prot = True
                if isinstance(up, (ast.If, ast.IfExp)) and ('len(%s)' % row) in u(up.test):
                    prot = True
                cur = up
            prot = prot or any(('len(%s)' % row) in u(t) for t, pol in guards_of(n, f.node))
            (o.ok('taken only when the record has it') if prot else
             o.fail('`%s` is read from every record, but the %s column is optional in the format (`..., catalog_id, [%s]`): a record without it '
                    'raises IndexError instead of being decoded' % (u(n), cols[const_value(n.slice)], cols[const_value(n.slice)])))


def rule_subsecond(ck):
    """D4.subsecond: the origin time is decoded "at the format's resolution" - NDK writes tenths of a second, the EMRCMT table a decimal
    part of the seconds.  The helper that parses `%S.%f` must hand the parsed fraction on (dt.microsecond), and each reader that builds the
    datetime from the helper's dictionary must read every component the helper writes: writer and readers of one table agree."""
    P = ck.prog
    ck.clause('D4')
    h = P.func('csep.utils.readers._parse_datetime_to_zmap')
    fmts = [const_value(k.value) for c in all_nodes(h) if isinstance(c, ast.Call) for k in c.keywords if k.arg == 'format' and isinstance(const_value(k.value), str)]
    fmts += [const_value(a) for c in all_nodes(h) if isinstance(c, ast.Call) and (callee(P, h, c) or '').endswith('strptime_to_utc_datetime') for a in c.args[1:2]
             if isinstance(const_value(a), str)]
    written = {}
    for n in all_nodes(h):
        if isinstance(n, ast.Assign) and isinstance(n.targets[0], ast.Subscript) and isinstance(const_value(n.targets[0].slice), str):
            written[const_value(n.targets[0].slice)] = n.value
        if isinstance(n, ast.Dict) and n.keys and all(isinstance(const_value(k), str) for k in n.keys if k is not None):
            for k, v in zip(n.keys, n.values):
                if k is not None:
                    written[const_value(k)] = v
    o = ck.ob('C19-D4.subsecond', h, 'the parsed fraction of the second is handed on', h.node)
    frac = any('%f' in f_ for f_ in fmts)
    exh = Expander(P, h)

    def _exp(v):
        try:
            return exh.expand(v)
        except Inconclusive:
            return v
    has = any(isinstance(x, ast.Attribute) and x.attr == 'microsecond' for v in written.values() for x in ast.walk(_exp(v)))
    if not fmts or not written:
        o.unknown('cannot find the format / the components the helper returns')
    elif frac and not has:
        o.fail('the helper parses `%%S.%%f` but returns only %s: the fraction of the second the record carries (NDK: tenths) is dropped, the '
               'origin time is decoded to the whole second below' % sorted(written))
    else:
        o.ok('components: %s' % sorted(written))
    # the two readers whose formats write seconds as 60.0 decode their times through the helper that knows about it
    for rq in ('csep.utils.readers.ndk', 'csep.utils.readers.ingv_emrcmt'):
        rf = P.func(rq)
        scope = [rf] + [x for x in P.funcs.values() if x.parent is rf] + ([x for x in _ndk_scope(P)] if rq.endswith('.ndk') else [])
        used = any(calls_in(P, x, h.qualname) for x in scope)
        oo = ck.ob('C19-D4.viahelper', rf, 'the record time goes through %s' % h.short, rf.node)
        (oo.ok() if used else oo.fail('%s no longer decodes its time through %s, the only place that turns seconds written as 60.0 into the next '
                                       'minute: such records are dropped or rejected' % (rf.short, h.short)))
    for f in P.funcs.values():
        if f.module.name != 'csep.utils.readers' or f is h:
            continue
        calls = calls_in(P, f, h.qualname)
        for c in calls:
            st = stmt_of(c)
            var = st.targets[0].id if isinstance(st, ast.Assign) and isinstance(st.targets[0], ast.Name) else None
            if var is None:
                continue
            read = {const_value(x.slice) for x in all_nodes(f) if isinstance(x, ast.Subscript) and isinstance(x.ctx, ast.Load) and isinstance(x.value, ast.Name)
                    and x.value.id == var and isinstance(const_value(x.slice), str)}
            oo = ck.ob('C19-D4.components', f, 'every component of the parsed time is used', c)
            miss = sorted(set(written) - read)
            (oo.fail('%s builds the origin time without %s of the dictionary returned by %s: that part of the encoded time is lost'
                     % (f.short, miss, h.short)) if miss and read else oo.ok('reads %s' % sorted(read)))


    # HORUS writes the seconds with decimals (58.06) and the reader declares the column as a float: the fraction has to reach the origin time
    g = P.func('csep.utils.readers.ingv_horus')
    o = ck.ob('C19-D4.horusfraction', g, 'the decimals of the HORUS seconds reach the origin time', g.node)
    secs = [x for x in all_nodes(g) if isinstance(x, ast.Subscript) and isinstance(x.ctx, ast.Load) and const_value(x.slice) == 'second']
    whole = [x for x in secs if isinstance(getattr(x, '_parent', None), ast.Call) and (call_name(x._parent) or '').split('.')[-1] == 'int']
    other = [x for x in secs if x not in whole and not isinstance(getattr(x, '_parent', None), ast.Compare)
             and not (isinstance(getattr(x, '_parent', None), ast.AugAssign))]
    txt = ' '.join(u(s_) for s_ in g.node.body)
    keeps = bool(other) or 'microsecond' in txt or 'seconds=' in txt
    (o.ok('the fraction is used') if keeps or not whole else
     o.fail('the seconds are read as a float and enter the origin time only through `int(...)`: a record written 58.06 s is decoded as 58 s'))


RULES = [rule_dispatch, rule_slots, rule_kinds, rule_rollover, rule_rank, rule_records, rule_time_and_order, rule_header, rule_value_width, rule_optional_columns,
         rule_subsecond]
