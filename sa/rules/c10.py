"""C10 - catalog-based consistency tests compute the documented statistics."""
import ast

from ..core import sym
from ..core.expand import u, call_name, get_arg, bind_args, Expander, is_marker, phi_alternatives
from ..core.loader import Inconclusive, const_value, parents
from .common import (alternatives, substitute, guard_dnf, literal_dnf, guarded_values, explicit_guards_of, returns, all_nodes, callee, strip_shape, calls_in, guards_of, stmt_of, kw, find_assignments, in_loop,
                     result_fields, compare_nf, loops_around, literal_nf)

EXPLANATION = (
    "Decided: D1 status protocol: on the path where the observed catalog is empty each test either returns before any "
    "quantile is computed (magnitude / resampled / MLL: result with status 'not-valid', None statistic and (None, "
    "None) quantile; pseudo-likelihood: None) or reaches its result with status 'not-valid' and the sentinel quantile "
    "(spatial); get_quantiles is control-dependent on non-emptiness; D2 undersampling: on the branch observed "
    "statistic == -inf the statistic is recomputed on the cells with non-zero mean rate and the status becomes "
    "'undersampled'; no path reports 'normal' for a recomputed statistic; the per-cell log is numpy.log itself (no "
    "where=/out=/wrapper/clip that would turn log(0) into a finite number and disarm that branch); D3 division "
    "guards: scale = N_obs / N_j is dominated by `N_j == 0 -> continue` (empty synthetic catalogs are skipped), NaN "
    "entries are removed from the spatial / pseudo-likelihood distributions before the quantile; D4 roles and "
    "formulas: get_quantiles(simulated distribution, observed statistic) unpacked as (delta_1, delta_2); scale = "
    "N_obs/N_j, union scale = N_obs/N_union; the +1 regulariser is inside log10 for all three histograms; "
    "_compute_likelihood, cumulative_square_diff and MLL_score equal their documented formulas as normal-form "
    "identities; mean rates come from forecast.expected_rates; D5 each function builds the result class of its "
    "G-DEFAULT (on the closure incl. CatalogForecast.__init__): a mutable default argument neither escapes (stored, returned, handed to a callee that fills it) nor is changed in place. "
    "kind and calibration_test skips 'not-valid' results. NOT decided: numerical agreement with the theory page, the "
    "resampling distribution.")
CLAUSES = {'D1': 'status protocol (empty observation)', 'D2': 'undersampling path', 'D3': 'division guards', 'D4': 'roles and formulas', 'D5': 'result classes'}
TRUSTED = ['CPython ast', 'numpy.log(0) = -inf', 'C09 for get_quantiles', 'C13 for forecast.expected_rates']
CE = 'csep.core.catalog_evaluations.'
ROOTS = [CE + 'number_test', CE + 'spatial_test', CE + 'magnitude_test', CE + 'pseudolikelihood_test', CE + 'resampled_magnitude_test',
         CE + 'MLL_magnitude_test', CE + 'calibration_test', 'csep.utils.calc._compute_likelihood', 'csep.utils.stats.cumulative_square_diff',
         'csep.utils.stats.MLL_score']
# the tests take a CatalogForecast: how it is constructed (which filters each synthetic catalog goes through) is part of what they compute
EXTRA_FUNCS = ('csep.core.forecasts.CatalogForecast.__init__', 'csep.load_catalog_forecast')
TECHNIQUE = 'static analysis: CFG dominance/control dependence for the status protocol and guards, normal-form identities for the statistics'
GQ = 'csep.utils.stats.get_quantiles'
CL = 'csep.utils.calc._compute_likelihood'


def _empty_test(t, obs):
    N = sym.Normalizer()
    return N.nf(t) == N.nf('%s.event_count == 0' % obs)


def rule_status(ck):
    P = ck.prog
    ck.clause('D1')
    for name in ('magnitude_test', 'resampled_magnitude_test', 'MLL_magnitude_test', 'pseudolikelihood_test'):
        f = P.func(CE + name)
        obs = f.positional_params[1]
        cfg = f.cfg
        ifs = [n for n in all_nodes(f) if isinstance(n, ast.If) and _empty_test(n.test, obs)]
        o = ck.ob('C10-D1.empty', f, ifs[0].test if ifs else 'if observed_catalog.event_count == 0', ifs[0] if ifs else f.node)
        if len(ifs) != 1:
            o.fail('%s has no branch for an empty observed catalog' % name)
            continue
        br = ifs[0]
        rets = [s for s in br.body if isinstance(s, ast.Return)]
        if not rets:
            o.fail('the empty-catalog branch does not return: the test goes on to compute a quantile from an undefined statistic')
            continue
        if name == 'pseudolikelihood_test':
            good = rets[0].value is None or const_value(rets[0].value) is None
            (o.ok('returns None (no result)') if good else o.fail('pseudolikelihood_test returns `%s` for an empty catalog instead of None' % u(rets[0].value)))
        else:
            flds = None
            ex = Expander(P, f)
            for fl in result_fields(P, f, ex):
                if fl.get('__ret__') is rets[0]:
                    flds = fl
            probs = []
            if flds is None:
                probs.append('the branch does not return a result object')
            else:
                if const_value(flds.get('status', (ast.Constant(0),))[0]) != 'not-valid':
                    probs.append("status is %s, must be 'not-valid'" % u(flds.get('status', (ast.Constant(None),))[0]))
                if const_value(flds.get('observed_statistic', (ast.Constant(0),))[0]) is not None:
                    probs.append('observed_statistic is not None')
                if u(flds.get('quantile', (ast.Constant(0),))[0]) != '(None, None)':
                    probs.append('quantile is %s, must be (None, None)' % u(flds.get('quantile', (ast.Constant(0),))[0]))
            (o.fail('; '.join(probs)) if probs else o.ok("returns status 'not-valid', statistic None, quantile (None, None)"))
        # every get_quantiles call is after (dominated by) the emptiness test's false branch
        tn = cfg.node_of(br)
        for c in calls_in(P, f, GQ):
            oo = ck.ob('C10-D1.control', f, c, c)
            cn = cfg.stmt_node_containing(c)
            (oo.ok('only reached when the observed catalog is not empty') if tn is not None and cn is not None and cfg.dominates(tn, cn) else
             oo.fail('a quantile is computed on a path that did not test the observed catalog for emptiness'))
    # spatial_test: not-valid with sentinel quantile
    f = P.func(CE + 'spatial_test')
    N = sym.Normalizer()
    for name in ('spatial_test', 'pseudolikelihood_test'):
        f = P.func(CE + name)
        gq = calls_in(P, f, GQ)
        o = ck.ob('C10-D1.sentinel', f, gq[0] if gq else 'get_quantiles', gq[0] if gq else f.node)
        if len(gq) != 1:
            o.fail('%s does not compute its quantile once' % name)
            continue
        # the result's status / quantile variables, read from the constructor call
        flds = [fl for fl in result_fields(P, f) if fl.get('status') is not None and '__none__' not in fl]
        st_names = {fl['status'][1].id for fl in flds if isinstance(fl['status'][1], ast.Name)}
        q_exprs = [fl['quantile'][1] for fl in flds if fl.get('quantile') is not None]
        ok = False
        ctrl = None
        child = gq[0]
        for p_ in parents(gq[0]):
            if isinstance(p_, ast.If):
                # the condition of the *other* arm, whichever way round the test is written
                in_else = any(child is s_ for s_ in p_.orelse)
                d = literal_dnf(p_.test, in_else)
                if len(d) == 2 and all(len(c_) == 1 for c_ in d) and any(literal_nf(N, c_[0][0], c_[0][1]) == N.nf('n_obs == 0') for c_ in d) \
                        and any(c_[0][1] and isinstance(c_[0][0], ast.Call) and (callee(P, f, c_[0][0]) or '') in ('numpy.isnan', 'math.isnan') for c_ in d):
                    ctrl = (p_, p_.body if in_else else p_.orelse)
            if p_ is f.node:
                break
            child = p_
        if ctrl is not None:
            env = {}
            for s_ in ctrl[1]:
                if isinstance(s_, ast.Assign) and len(s_.targets) == 1:
                    t_ = s_.targets[0]
                    if isinstance(t_, ast.Name):
                        env[t_.id] = s_.value
                    elif isinstance(t_, ast.Tuple) and isinstance(s_.value, ast.Tuple) and len(t_.elts) == len(s_.value.elts):
                        for a_, b_ in zip(t_.elts, s_.value.elts):
                            if isinstance(a_, ast.Name):
                                env[a_.id] = b_
            sts = [const_value(env[n_]) for n_ in st_names if n_ in env]
            def _named(q_):
                # `quantile = (delta_1, delta_2)` bound once after the branch and handed on by name
                if isinstance(q_, ast.Name):
                    defs_ = [a_ for a_ in find_assignments(f, q_.id) if isinstance(a_, ast.Assign)]
                    if len(defs_) == 1 and q_.id not in env:
                        return defs_[0].value
                return q_
            qs = [u(substitute(_named(q_), env)) for q_ in q_exprs]
            ok = bool(st_names) and sts == ['not-valid'] * len(st_names) and bool(qs) and all(q_ == '(-1, -1)' for q_ in qs)
        (o.ok("quantile only when n_obs > 0 and the statistic is a number; otherwise 'not-valid' with (-1, -1)") if ok else
         o.fail("the quantile of %s is not control-dependent on `n_obs == 0 or isnan(statistic)` with a 'not-valid' / (-1, -1) alternative" % name))
        for fl in flds:
            st = fl.get('status')
            oo = ck.ob('C10-D1.statusvar', f, st[1], st[1])
            (oo.ok() if isinstance(st[1], ast.Name) and ctrl is not None and any(
                isinstance(t_, ast.Name) and t_.id == st[1].id for s_ in ctrl[1] if isinstance(s_, ast.Assign) for t_ in s_.targets)
             else oo.fail('the result status is `%s`, not the computed message' % u(st[1])))


def rule_undersampling(ck):
    P = ck.prog
    ck.clause('D2')
    N = sym.Normalizer()
    for name, var in (('spatial_test', 'obs_lh_norm'), ('pseudolikelihood_test', 'obs_plh')):
        f = P.func(CE + name)
        ifs = [n for n in all_nodes(f) if isinstance(n, ast.If) and N.nf(n.test) == N.nf('%s == -numpy.inf' % var)]
        o = ck.ob('C10-D2.branch', f, ifs[0].test if ifs else '%s == -inf' % var, ifs[0] if ifs else f.node)
        if len(ifs) != 1:
            o.fail('%s has no branch for an observed statistic of -inf (events in never-sampled cells)' % name)
            continue
        body = ifs[0].body
        probs = []
        ex = Expander(P, f)
        inside = {id(x) for s_ in body for x in ast.walk(s_)}

        def stat_calls(where):
            """[(call of _compute_likelihood, component of its result bound to the statistic)]"""
            out = []
            for a in find_assignments(f, var):
                if not isinstance(a, ast.Assign) or (id(a) in inside) != where:
                    continue
                v, comp = a.value, None
                t = a.targets[0]
                if isinstance(v, ast.Subscript) and isinstance(const_value(v.slice), int):
                    v, comp = v.value, const_value(v.slice)
                if isinstance(t, ast.Tuple):
                    comp = next((k for k, e in enumerate(t.elts) if isinstance(e, ast.Name) and e.id == var), None)
                if isinstance(v, ast.Call) and callee(P, f, v) == CL:
                    out.append((v, comp))
            return out
        before, rec = stat_calls(False), stat_calls(True)
        if len(before) != 1 or len(rec) != 1 or before[0][1] != rec[0][1] or len(rec[0][0].args) < 2 or len(before[0][0].args) < 2:
            probs.append('the statistic is not recomputed from the restricted arrays')
        else:
            o0, r0 = [ex.expand(a) for a in before[0][0].args[:2]]
            o1, r1 = [ex.expand(a) for a in rec[0][0].args[:2]]
            if not (isinstance(o1, ast.Subscript) and isinstance(r1, ast.Subscript) and u(o1.value) == u(o0) and u(r1.value) == u(r0)):
                probs.append('observations / rates are not restricted to the sampled cells')
            else:
                if u(o1.slice) != u(r1.slice):
                    probs.append('observations and rates are restricted by different masks')
                if N.nf(o1.slice) not in (N.nf('%s != 0' % u(r0)), N.nf('%s > 0' % u(r0))) and u(o1.slice) not in ('%s != 0' % u(r0), '%s > 0' % u(r0)):
                    probs.append('the sampled cells are not selected by mean rate != 0')
        stn = {fl['status'][1].id for fl in result_fields(P, f) if fl.get('status') is not None and isinstance(fl['status'][1], ast.Name)}
        stname = sorted(stn)[0] if len(stn) == 1 else 'message'
        msg = [s_ for s_ in body if isinstance(s_, ast.Assign) and u(s_.targets[0]) == stname]
        if not msg or const_value(msg[-1].value) != 'undersampled':
            probs.append("the status is not set to 'undersampled': a recomputed statistic would be reported as 'normal'")
        (o.fail('; '.join(probs)) if probs else o.ok("recomputed on sampled cells, status 'undersampled'"))
        # default message is 'normal' set before the branch
        m0 = [a for a in find_assignments(f, stname) if not explicit_guards_of(a, f.node)]
        oo = ck.ob('C10-D2.default', f, m0[0] if m0 else stname, m0[0] if m0 else f.node)
        (oo.ok() if len(m0) == 1 and const_value(m0[0].value) == 'normal' and m0[0].lineno < ifs[0].lineno else oo.fail("the default status 'normal' is not set before the undersampling branch"))
    # the logs in _compute_likelihood are plain numpy.log
    f = P.func(CL)
    logs = [n for n in all_nodes(f) if isinstance(n, ast.Call) and 'log' in (callee(P, f, n) or '')]
    o = ck.ob('C10-D2.logs', f, '%d log calls' % len(logs), f.node)
    if len(logs) != 2:
        o.fail('_compute_likelihood takes %d logarithms; the pseudo-likelihood and the normalised spatial statistic each take one numpy.log of '
               'the rate density' % len(logs))
    else:
        o.ok()
    for c in logs:
        oo = ck.ob('C10-D2.log', f, c, c)
        nm = callee(P, f, c)
        if nm != 'numpy.log':
            oo.fail('the rate density goes through `%s` instead of numpy.log: if it maps log(0) to a finite value, an observed event in a '
                    'never-sampled cell no longer yields -inf and the undersampling branch never runs' % nm)
        elif len(c.args) != 1 or c.keywords:
            oo.fail('numpy.log is called with %s: zero-rate cells are masked out, so -inf (the undersampling signal) is lost' % ', '.join(k.arg or '*' for k in c.keywords))
        else:
            oo.ok('plain numpy.log')
    for c in all_nodes(f):
        if isinstance(c, ast.Call) and (callee(P, f, c) or '') in ('numpy.clip', 'numpy.nan_to_num', 'numpy.where', 'numpy.maximum'):
            ck.ob('C10-D2.launder', f, c, c).fail('`%s` alters the rates/logs inside _compute_likelihood' % u(c)[:60])


def rule_guards(ck):
    P = ck.prog
    ck.clause('D3')
    N = sym.Normalizer()
    for name in ('magnitude_test', 'resampled_magnitude_test'):
        f = P.func(CE + name)
        cfg = f.cfg
        sc = [a for a in find_assignments(f, 'scale')]
        o = ck.ob('C10-D3.scale', f, sc[0] if sc else 'scale', sc[0] if sc else f.node)
        if len(sc) != 1:
            o.fail('%d assignments of the per-catalog scale' % len(sc))
            continue
        if N.nf(sc[0].value) != N.nf('n_obs / n_events'):
            o.fail('the per-catalog scale is `%s`, it must be N_obs / N_j (observed over synthetic count)' % u(sc[0].value))
            continue
        lp = in_loop(sc[0], f.node)
        guards = [n for n in (lp.body if lp is not None else []) if isinstance(n, ast.If) and N.nf(n.test) == N.nf('n_events == 0')
                  and any(isinstance(s, ast.Continue) for s in n.body)]
        ok = bool(guards) and guards[0].lineno < sc[0].lineno and cfg.dominates(cfg.node_of(guards[0]), cfg.node_of(sc[0]))
        (o.ok('N_obs / N_j, dominated by `if N_j == 0: continue`') if ok else
         o.fail('the division N_obs / N_j is not protected by `if n_events == 0: continue`: an empty synthetic catalog contributes a '
                'statistic (or a division by zero) instead of being skipped'))
        # the append is after the guard too
        apps = [n for n in ast.walk(lp) if isinstance(n, ast.Call) and u(n.func) == 'test_distribution.append'] if lp is not None else []
        oo = ck.ob('C10-D3.skip', f, apps[0] if apps else 'append', apps[0] if apps else f.node)
        ok2 = len(apps) == 1 and bool(guards) and cfg.dominates(cfg.node_of(guards[0]), cfg.stmt_node_containing(apps[0]))
        (oo.ok() if ok2 else oo.fail('an empty synthetic catalog still appends a value to the test distribution'))
    for name, var in (('spatial_test', 'test_distribution_spatial_1d'), ('pseudolikelihood_test', 'test_distribution_1d')):
        f = P.func(CE + name)
        gq = calls_in(P, f, GQ)
        o = ck.ob('C10-D3.nan', f, 'NaN entries removed before the quantile', gq[0] if gq else f.node)
        ok = False
        if len(gq) == 1 and gq[0].args:
            ex = Expander(P, f)
            e = ex.expand(gq[0].args[0])
            alts = phi_alternatives(e)

            def filtered(a):
                return isinstance(a, ast.Subscript) and isinstance(a.slice, ast.UnaryOp) and isinstance(a.slice.op, ast.Invert) \
                    and isinstance(a.slice.operand, ast.Call) and u(a.slice.operand.func) == 'numpy.isnan' \
                    and a.slice.operand.args and u(a.slice.operand.args[0]) == u(a.value)
            fl = [a for a in alts if filtered(a)]
            rest = [a for a in alts if not filtered(a)]
            if fl and all(u(a) == u(fl[0].value) for a in rest):
                ok = True
                if rest:
                    # the unfiltered alternative is only taken when the distribution holds no NaN
                    base = u(fl[0].value)
                    tests = [n.test for n in all_nodes(f) if isinstance(n, ast.If)]
                    ok = any(u(ex.expand(t)) in ('numpy.isnan(numpy.sum(%s))' % base, 'numpy.any(numpy.isnan(%s))' % base,
                                                   'numpy.isnan(%s).any()' % base, 'numpy.isnan(%s.sum())' % base) for t in tests)
        (o.ok() if ok else o.fail('NaN statistics of empty synthetic catalogs are not removed from the distribution handed to get_quantiles'))


def rule_every_catalog(ck):
    """spatial / pseudo-likelihood / number tests: every synthetic catalog contributes one entry (an empty catalog has a defined
    pseudo-likelihood -N and a NaN spatial statistic that is filtered later); only the magnitude-type tests skip empty catalogs."""
    P = ck.prog
    ck.clause('D3')
    for name in ('spatial_test', 'pseudolikelihood_test', 'number_test'):
        f = P.func(CE + name)
        lps = [n for n in all_nodes(f) if isinstance(n, ast.For) and 'forecast' in u(n.iter)]
        o = ck.ob('C10-D3.every', f, lps[0].iter if lps else 'loop over the forecast', lps[0] if lps else f.node)
        if len(lps) != 1:
            o.fail('%s does not loop over the forecast exactly once' % name)
            continue
        lp = lps[0]
        apps = [x for x in ast.walk(lp) if isinstance(x, ast.Call) and isinstance(x.func, ast.Attribute) and x.func.attr == 'append']
        skips = [x for x in ast.walk(lp) if isinstance(x, (ast.Continue, ast.Break))]
        if len(apps) != 1:
            o.fail('%d appends in the loop' % len(apps))
        elif guards_of(apps[0], lp):
            o.fail('the statistic of a synthetic catalog is appended only under `%s`' % u(guards_of(apps[0], lp)[0][0]))
        elif skips:
            o.fail('some synthetic catalogs are skipped (%s at L%d): in this test every catalog - an empty one included - contributes to the '
                   'test distribution' % (type(skips[0]).__name__.lower(), skips[0].lineno))
        else:
            o.ok('one entry per synthetic catalog')


def rule_forecast_state(ck):
    """the tests consume forecast.expected_rates and iterate the forecast: they rely on the typestate of CatalogForecast (shared C13)."""
    from . import c13
    ck.clause('shared C13-D2..D7 (forecast iteration and expected rates)')
    c13.rule_next(ck)
    c13.rule_getters(ck)
    c13.rule_complete_passes(ck)


def rule_first_difference(ck):
    """numpy.diff(x)[0] needs at least two elements: a region with a single (open-ended) magnitude bin is a legal
    space-magnitude region."""
    P = ck.prog
    ck.clause('D3')
    n = 0
    for name in ('resampled_magnitude_test', 'MLL_magnitude_test', 'magnitude_test'):
        f = P.func(CE + name)
        for x in all_nodes(f):
            if isinstance(x, ast.Subscript) and isinstance(x.value, ast.Call) and callee(P, f, x.value) == 'numpy.diff' and const_value(x.slice) in (0, -1):
                n += 1
                o = ck.ob('C10-D3.halfbin', f, x, x)
                arg = u(x.value.args[0]) if x.value.args else ''
                ok = False
                for p in parents(x):
                    if isinstance(p, ast.IfExp) and x in list(ast.walk(p.body)):
                        t = u(p.test)
                        if 'len(' in t and ('> 1' in t or '>= 2' in t):
                            ok = True
                    if isinstance(p, ast.stmt):
                        for t, pol in guards_of(p, f.node):
                            tt = u(t)
                            if pol and 'len(' in tt and ('> 1' in tt or '>= 2' in tt):
                                ok = True
                        break
                (o.ok('guarded by a length test') if ok else
                 o.fail('`%s` takes the first difference of the magnitude edges without checking that there are two: a region with one '
                        '(open-ended) magnitude bin raises IndexError' % u(x)))
    ck.extra['first_difference_sites'] = n


def rule_formulas(ck):
    P = ck.prog
    ck.clause('D4')
    N = sym.Normalizer()
    # get_quantiles(dist, obs) -> (delta_1, delta_2)
    table = {'number_test': ('event_counts', 'obs_count'), 'spatial_test': ('test_distribution_spatial_1d', 'obs_lh_norm'),
             'magnitude_test': ('test_distribution', 'obs_d_statistic'), 'pseudolikelihood_test': ('test_distribution_1d', 'obs_plh'),
             'resampled_magnitude_test': ('test_distribution', 'obs_d_statistic'), 'MLL_magnitude_test': ('test_distribution', 'obs_d_statistic')}
    for name, (dist, obs) in table.items():
        f = P.func(CE + name)
        gq = calls_in(P, f, GQ)
        o = ck.ob('C10-D4.quantile', f, gq[0] if gq else 'get_quantiles', gq[0] if gq else f.node)
        if len(gq) != 1:
            o.fail('%s does not call get_quantiles exactly once' % name)
            continue
        c = gq[0]
        st = stmt_of(c)
        args = [u(a) for a in c.args]
        tg = u(st.targets[0]) if isinstance(st, ast.Assign) else ''
        probs = []
        # a plain copy of the name (`test_distribution_spatial_1d = test_distribution_1d`) is the same array
        same = {dist}
        for a_ in all_nodes(f):
            if isinstance(a_, ast.Assign) and len(a_.targets) == 1 and isinstance(a_.targets[0], ast.Name) and isinstance(a_.value, ast.Name):
                if a_.targets[0].id == dist and len(find_assignments(f, dist)) == 1:
                    same.add(a_.value.id)
                elif a_.value.id == dist and len(find_assignments(f, a_.targets[0].id)) == 1:
                    same.add(a_.targets[0].id)
        if len(args) == 2 and args[0] in same and args[1] == obs:
            args = [dist, obs]
        if args != [dist, obs]:
            probs.append('get_quantiles(%s) - expected (simulated distribution %s, observed statistic %s)' % (', '.join(args), dist, obs))
        if tg != '(delta_1, delta_2)':
            probs.append('result unpacked as %s, expected (delta_1, delta_2)' % tg)
        exk = Expander(P, f, keep={dist, obs, 'delta_1', 'delta_2', 'test_distribution'})
        for fl in result_fields(P, f, exk):
            # temporaries between the statistic and the result object are looked through; the named values stay symbolic
            q = fl.get('quantile')
            if q is not None and '__none__' not in fl and not all(
                    u(a_) in ('(delta_1, delta_2)', '(None, None)') + (('(-1, -1)',) if name in ('spatial_test', 'pseudolikelihood_test') else ())
                    for a_ in alternatives(q[0])):
                probs.append('result quantile is %s' % u(q[0])[:60])
            osv = fl.get('observed_statistic')
            if osv is not None and not all(u(a_) in (obs, 'None') or u(a_).startswith('numpy.nan') for a_ in alternatives(osv[0])):
                probs.append('observed_statistic is %s, expected %s' % (u(osv[0])[:60], obs))
            td = fl.get('test_distribution')
            if td is not None and not all(u(a_) in (dist, 'test_distribution', '[]') for a_ in alternatives(td[0])):
                probs.append('test_distribution is %s' % u(td[0])[:60])
        (o.fail('; '.join(probs)) if probs else o.ok())
    # magnitude-type statistics: cumulative_square_diff(log10(h + 1), log10(scaled_union + 1))
    for name in ('magnitude_test', 'resampled_magnitude_test'):
        f = P.func(CE + name)
        ex = Expander(P, f, keep={'catalog_histogram', 'scaled_union_histogram', 'obs_histogram'})
        calls = calls_in(P, f, 'csep.utils.stats.cumulative_square_diff')
        o = ck.ob('C10-D4.dstat', f, '%d statistic call sites' % len(calls), f.node)
        (o.ok() if len(calls) == 2 else o.fail('expected the simulated and the observed D statistic, found %d' % len(calls)))
        for c in calls:
            oo = ck.ob('C10-D4.plus1', f, c, c)
            a = [N.nf(x) for x in c.args]
            want_sim = [N.nf('numpy.log10(catalog_histogram + 1)'), N.nf('numpy.log10(scaled_union_histogram + 1)')]
            want_obs = [N.nf('numpy.log10(obs_histogram + 1)'), N.nf('numpy.log10(scaled_union_histogram + 1)')]
            sim = in_loop(c, f.node) is not None
            (oo.ok('log10(h + 1) on both histograms') if a == (want_sim if sim else want_obs) else
             oo.fail('the %s statistic is `%s`; it must compare log10(%s + 1) with log10(scaled union + 1) - the +1 regulariser belongs inside '
                     'the logarithm of both histograms' % ('simulated' if sim else 'observed', u(c)[:90], 'catalog histogram' if sim else 'observed histogram')))
        for var, spec in (('union_scale', 'n_obs / n_union_events'), ('scaled_union_histogram', 'union_histogram * union_scale'),
                          ('catalog_histogram', 'mag_counts * scale'), ('n_obs', 'numpy.sum(obs_histogram)'), ('n_union_events', 'numpy.sum(union_histogram)')):
            a = find_assignments(f, var)
            oo = ck.ob('C10-D4.%s' % var, f, a[0] if a else var, a[0] if a else f.node)
            (oo.ok() if len(a) == 1 and N.nf(a[0].value) == N.nf(spec) else oo.fail('%s is `%s`, expected %s' % (var, u(a[0].value) if a else '?', spec)))
        a = find_assignments(f, 'obs_histogram')
        oo = ck.ob('C10-D4.obshist', f, a[0] if a else 'obs_histogram', a[0] if a else f.node)
        (oo.ok() if len(a) == 1 and u(a[0].value) == '%s.magnitude_counts()' % f.positional_params[1] else oo.fail('the observed histogram is not observed_catalog.magnitude_counts()'))
    f = P.func(CE + 'magnitude_test')
    a = find_assignments(f, 'union_histogram')
    o = ck.ob('C10-D4.union', f, a[0] if a else 'union_histogram', a[0] if a else f.node)
    (o.ok() if len(a) == 1 and u(a[0].value) == '%s.expected_rates.magnitude_counts()' % f.positional_params[0] else o.fail('the union histogram is not forecast.expected_rates.magnitude_counts()'))
    # kernels
    k = P.func(CL)
    ex = Expander(P, k)
    gd, ard, ecc, nobs = k.positional_params[:4]
    rets = [r for r in returns(k) if r.value is not None]
    o = ck.ob('C10-D4.cl.returns', k, '%d returns' % len(rets), k.node)
    (o.ok() if len(rets) == 3 else o.fail('_compute_likelihood has %d return paths, expected (no events | statistic undefined | both statistics)' % len(rets)))
    idx = '(%s != 0)' % gd
    lik = 'numpy.sum({gd}[{i}] * numpy.log({ard}[{i}])) - {e}'.format(gd=gd, ard=ard, i=idx, e=ecc)
    norm = 'numpy.sum({gd}[{i}] * numpy.log(({ard} / numpy.sum({ard}))[{i}])) / numpy.sum({gd})'.format(gd=gd, ard=ard, i=idx)
    for r in rets:
        e = ex.expand(r.value)
        if not (isinstance(e, ast.Tuple) and len(e.elts) == 2):
            ck.ob('C10-D4.cl.pair', k, r.value, r).fail('_compute_likelihood must return (pseudo-likelihood, normalised spatial statistic)')
            continue
        g = [(u(t), pol) for t, pol in guards_of(r, k.node)]
        first, second = e.elts
        if any(t == 'n_events == 0' and pol for t, pol in g):
            oo = ck.ob('C10-D4.cl.empty', k, r.value, r)
            (oo.ok() if N.nf(first) == N.nf('-%s' % ecc) and 'nan' in u(second) else oo.fail('an empty catalog must give (-expected count, NaN); found `%s`' % u(r.value)))
            continue
        oo = ck.ob('C10-D4.cl.plh', k, first, r)
        compare_nf(oo, first, lik, N, what='pseudo-likelihood')
        if 'nan' in u(second):
            t = [tt for tt, pol in g if pol]
            oo = ck.ob('C10-D4.cl.undef', k, r.value, r)
            (oo.ok() if any(N.nf(x) == N.nf('(%s == 0) or (%s == 0)' % (nobs, ecc)) for x in [ast.parse(tt, mode='eval').body for tt in t]) else
             oo.fail('the spatial statistic is declared undefined under `%s`, expected n_obs == 0 or expected_cond_count == 0' % t))
        else:
            oo = ck.ob('C10-D4.cl.norm', k, second, r)
            compare_nf(oo, second, norm, N, what='normalised spatial statistic')
    c = P.func('csep.utils.stats.cumulative_square_diff')
    r = [x for x in returns(c) if x.value is not None]
    o = ck.ob('C10-D4.csd', c, r[0].value, r[0])
    compare_nf(o, Expander(P, c).expand(r[0].value), 'numpy.sum((%s - %s)**2)' % (c.positional_params[1], c.positional_params[0]), N, what='cumulative square difference')
    # roles at the spatial / PL call sites
    for name, pick in (('spatial_test', 1), ('pseudolikelihood_test', 0)):
        f = P.func(CE + name)
        ex = Expander(P, f)
        calls = calls_in(P, f, CL)
        fo, ob = f.positional_params[0], f.positional_params[1]
        for c in calls:
            oo = ck.ob('C10-D4.clcall', f, c, c)
            args = [u(ex.expand(a)) for a in c.args]
            sim = in_loop(c, f.node) is not None
            und = any('-numpy.inf' in u(t) and pol for t, pol in guards_of(c, f.node))
            want_rates = '%s.expected_rates.spatial_counts()' % fo
            want_cnt = '%s.expected_rates.sum()' % fo
            want_n = 'numpy.sum(%s.spatial_counts())' % ob
            probs = []
            if und:
                pass
            else:
                if sim and 'spatial_counts()' not in args[0] or (not sim and args[0] != '%s.spatial_counts()' % ob):
                    probs.append('gridded data is `%s`' % args[0][:50])
                if args[1] != want_rates:
                    probs.append('rate map is `%s`, expected the forecast\'s mean spatial rates' % args[1][:60])
            if args[2] != want_cnt:
                probs.append('expected count is `%s`, expected forecast.expected_rates.sum()' % args[2][:50])
            if args[3] != want_n:
                probs.append('n_obs is `%s`' % args[3][:50])
            st = stmt_of(c)
            par = getattr(c, '_parent', None)
            used = None
            if isinstance(par, ast.Subscript) and par.value is c and isinstance(const_value(par.slice), int):
                used = {const_value(par.slice)}
            elif isinstance(st, ast.Assign) and st.value is c and isinstance(st.targets[0], ast.Tuple) and len(st.targets[0].elts) == 2:
                loads = {n_.id for n_ in all_nodes(f) if isinstance(n_, ast.Name) and isinstance(n_.ctx, ast.Load)}
                used = {k for k, x in enumerate(st.targets[0].elts) if isinstance(x, ast.Name) and x.id != '_' and x.id in loads}
            elif isinstance(st, ast.Assign) and st.value is c and len(st.targets) == 1 and isinstance(st.targets[0], ast.Name):
                # the pair is kept in one name and its components are taken by constant subscripts
                nm_ = st.targets[0].id
                lds = [n_ for n_ in all_nodes(f) if isinstance(n_, ast.Name) and n_.id == nm_ and isinstance(n_.ctx, ast.Load)]
                subs = [getattr(n_, '_parent', None) for n_ in lds]
                if lds and all(isinstance(p_, ast.Subscript) and p_.value is n_ and isinstance(const_value(p_.slice), int) for n_, p_ in zip(lds, subs)) \
                        and len(find_assignments(f, nm_)) == len([a_ for a_ in find_assignments(f, nm_) if isinstance(a_.value, ast.Call) and callee(P, f, a_.value) == CL]):
                    used = {const_value(p_.slice) for p_ in subs}
            if used != {pick}:
                probs.append('components %s of the result are used; %s uses component %d' % (sorted(used) if used is not None else 'unknown', name, pick))
            (oo.fail('; '.join(probs)) if probs else oo.ok())
    # MLL score
    m = P.func('csep.utils.stats.MLL_score')
    r = [x for x in returns(m) if x.value is not None]
    uc, cc = m.positional_params[:2]
    exm = Expander(P, m, inline_depth=1)
    o = ck.ob('C10-D4.mll', m, r[0].value, r[0])
    def L(x):
        return ('scipy.special.loggamma(numpy.sum({x}) + 1) + numpy.sum(({x}) * numpy.log(({x}) / numpy.sum({x})) - scipy.special.loggamma(({x}) + 1))').format(x=x)
    U = '(%s + numpy.sum(%s) / numpy.sum(%s))' % (uc, uc, cc)
    C = '(%s + 1)' % cc
    M = '(%s + %s)' % (U, C)
    spec = '2 * ((%s) - (%s) - (%s))' % (L(M), L(U), L(C))
    compare_nf(o, exm.expand(r[0].value), spec, N, what='MLL score')
    g = P.func(CE + 'MLL_magnitude_test')
    for c in calls_in(P, g, 'csep.utils.stats.MLL_score'):
        oo = ck.ob('C10-D4.mllcall', g, c, c)
        bm, _okb = bind_args(m, c)
        kws = {k_: u(v_) for k_, v_ in bm.items() if k_ in m.positional_params[:2]}
        sim = in_loop(c, g.node) is not None
        want = {'union_catalog_counts': 'Lambda_u_histogram', 'catalog_counts': 'Lambda_j_histogram' if sim else 'Omega_histogram'}
        (oo.ok() if kws == want else oo.fail('MLL_score is called with %s, expected %s' % (kws, want)))


RESULT_CLASS = {'number_test': 'CatalogNumberTestResult', 'spatial_test': 'CatalogSpatialTestResult', 'magnitude_test': 'CatalogMagnitudeTestResult',
                'pseudolikelihood_test': 'CatalogPseudolikelihoodTestResult', 'resampled_magnitude_test': 'CatalogMagnitudeTestResult',
                'MLL_magnitude_test': 'CatalogMagnitudeTestResult', 'calibration_test': 'CalibrationTestResult'}


def _status_literal(t, pol, var):
    """True if the literal states `var.status != 'not-valid'`, False if it states `== 'not-valid'`, None otherwise"""
    if isinstance(t, ast.Compare) and len(t.ops) == 1 and const_value(t.comparators[0]) == 'not-valid' and u(t.left) == '%s.status' % var:
        if isinstance(t.ops[0], ast.Eq):
            return not pol
        if isinstance(t.ops[0], ast.NotEq):
            return pol
    return None


def _skips_not_valid(P, f):
    """the collected quantiles are `r.quantile[idx]` for exactly the results r with r.status != 'not-valid': an append guarded by
    that test (nested if, guard clause, either arm) or a comprehension filtered by it (directly or through a predicate helper)"""
    N_ok = 0
    # loop form
    for x in all_nodes(f):
        if isinstance(x, ast.Call) and isinstance(x.func, ast.Attribute) and x.func.attr == 'append' and x.args \
                and isinstance(x.args[0], ast.Subscript) and isinstance(x.args[0].value, ast.Attribute) and x.args[0].value.attr == 'quantile':
            var = u(x.args[0].value.value)
            lp = in_loop(x, f.node)
            if lp is None:
                return False
            dnf = guard_dnf(x, lp)
            if len(dnf) != 1:
                return False
            lits = [_status_literal(t, pol, var) for t, pol in dnf[0]]
            if lits.count(True) >= 1 and False not in lits and all(l_ is not None for l_ in lits):
                N_ok += 1
            else:
                return False
    # comprehension form
    for x in all_nodes(f):
        if isinstance(x, (ast.ListComp, ast.GeneratorExp)) and isinstance(x.elt, ast.Subscript) and isinstance(x.elt.value, ast.Attribute) \
                and x.elt.value.attr == 'quantile' and len(x.generators) == 1:
            var = u(x.elt.value.value)
            good = False
            for cond in x.generators[0].ifs:
                for conj in literal_dnf(cond, True):
                    for t, pol in conj:
                        if _status_literal(t, pol, var) is True:
                            good = True
                if isinstance(cond, ast.Call):
                    # a predicate helper: every path returning True must have seen status != 'not-valid'
                    vals = guarded_values(P, f, cond, stmt_of(x))
                    trues = [g_ for v_, g_ in vals if const_value(v_) is True]
                    falses = [g_ for v_, g_ in vals if const_value(v_) is False]
                    if trues and len(trues) + len(falses) == len(vals) and \
                            all(("%s.status == 'not-valid'" % var, False) in g_ or ("%s.status != 'not-valid'" % var, True) in g_ for g_ in trues):
                        good = True
            if not good:
                return False
            N_ok += 1
    return N_ok == 1


def rule_classes(ck):
    P = ck.prog
    ck.clause('D5')
    for name, cls in RESULT_CLASS.items():
        f = P.func(CE + name)
        for fl in result_fields(P, f):
            if '__class__' not in fl:
                continue
            o = ck.ob('C10-D5.class', f, fl['__class__'][1].func, fl['__class__'][1])
            (o.ok() if fl['__class__'][0] == 'csep.models.' + cls else o.fail('%s builds a %s, expected %s' % (name, fl['__class__'][0].split('.')[-1], cls)))
    f = P.func(CE + 'calibration_test')
    o = ck.ob('C10-D5.skip', f, "not-valid results are skipped", f.node)
    ok = _skips_not_valid(P, f)
    (o.ok() if ok else o.fail("calibration_test does not skip results whose status is 'not-valid'"))
    # expected rates are computed on demand in the tests that need them
    for name in ('spatial_test', 'magnitude_test', 'pseudolikelihood_test', 'resampled_magnitude_test', 'MLL_magnitude_test'):
        f = P.func(CE + name)
        fo = f.positional_params[0]
        o = ck.ob('C10-D4.rates', f, 'mean rates from forecast.expected_rates', f.node)
        ok = any(isinstance(n, ast.If) and u(n.test) == '%s.expected_rates is None' % fo and 'get_expected_rates' in ' '.join(u(s) for s in n.body) for n in all_nodes(f))
        (o.ok() if ok else o.fail('%s does not make sure the forecast\'s expected rates exist' % name))


def rule_kernel_inputs(ck):
    """the statistic kernels are called once per synthetic catalog and once for the observation with the *same* mean-rate array:
    a kernel that writes into its arguments changes what the next call computes"""
    from .common import parameter_writes
    P = ck.prog
    ck.clause('D4')
    for q in (CL, 'csep.utils.stats.cumulative_square_diff', 'csep.utils.stats.MLL_score', 'csep.utils.stats.get_quantiles'):
        f = P.func(q)
        bad = parameter_writes(P, f)
        o = ck.ob('C10-D4.inputs', f, 'arguments are read only', f.node)
        (o.fail('`%s` writes into an argument of %s: the forecast\'s mean rates are handed in again for every synthetic catalog and for the '
                'observation, so from the second call on the pseudo-likelihood is computed from already normalised rates (shifted by '
                '-N_j ln N_fore, which changes the quantile)' % (u(bad[0])[:80], f.short)) if bad else o.ok())


def rule_gridded_counts_shared(ck):
    """the statistics are computed from each catalog's gridded counts: every event counted once (duplicate-safe accumulation), no
    sentinel used as an index, magnitudes binned by the kernel in their stored type (shared C03-D1/D2, C02-D4)"""
    from . import c03, c02
    ck.clause('D4 (shared C03-D1/D2, C02-D4: the gridded counts of the catalogs)')
    c03.rule_mag_sentinel(ck)
    c03.rule_accumulation(ck)
    c02.rule_callsites(ck)


RULES = [rule_status, rule_undersampling, rule_guards, rule_every_catalog, rule_first_difference, rule_formulas, rule_classes, rule_forecast_state, rule_kernel_inputs, rule_gridded_counts_shared]
