"""Re-evaluate one recorded violation (evidence/replay/<id>-<n>.json) on the current tree."""
import importlib.machinery
import io
import json
import os

from ..core.report import VERIF


def replay(pid, path, repo):
    rec = json.load(open(path))
    key = rec.get('key')
    chk = importlib.machinery.SourceFileLoader('verif_check', os.path.join(VERIF, 'check')).load_module()
    code, ck = chk.run_property(pid, 'quick', repo, write=False, quiet=True, stream=io.StringIO())
    hits = [o for o in ck.violations() if o.key == key]
    same_site = [o for o in ck.obs if o.key == key]
    print('replay %s: rule=%s where=%s construct=`%s`' % (path, rec.get('rule'), rec.get('where'), rec.get('construct')))
    if hits:
        o = hits[0]
        print('  still violated @ %s: %s' % (o.loc, o.detail))
        print('VIOLATION property=%s replay=%s' % (pid, path))
        return 1
    if same_site:
        print('  the obligation exists on the current tree and is %s: %s' % (same_site[0].status, same_site[0].detail))
        return 0 if same_site[0].status == 'discharged' else 2
    print('  the construct of this record no longer exists on the current tree (the code changed); current verdict of the '
          'property: exit %d with %d violation(s)' % (code, len(ck.violations())))
    return 0 if code == 0 else code
